//! C05 — ==, cmp and hash follow the mathematical value in every type, whichever producer made
//! the value.  Integers: history explorer (value key) with order/hash invariants in every state.
//! Floats: all pairs of a closed universe x precisions x producers (constructor and arithmetic
//! results carrying p+1 digits), +-inf.  Rationals: all pairs of Q(N,N) in every spelling.

use crate::core::{guard, Ctx, Rec};
use crate::explore::{explore, Cfg};
use crate::fref::*;
use crate::uni::*;
use dashu_base::AbsOrd;
use dashu_float::round::mode;
use dashu_float::{Context, FBig, Repr};
use dashu_int::Word;
use dashu_ratio::{RBig, Relaxed};
use num_bigint::BigInt;
use num_integer::Integer;
use num_traits::{One, Signed, Zero};
use std::cmp::Ordering;
use std::hash::{Hash, Hasher};

const P: &str = "C05";

#[derive(Clone)]
enum Ext {
    NegInf,
    Fin(Rat),
    PosInf,
}
fn ext_cmp(a: &Ext, b: &Ext) -> Ordering {
    let rank = |e: &Ext| match e {
        Ext::NegInf => 0,
        Ext::Fin(_) => 1,
        Ext::PosInf => 2,
    };
    match (a, b) {
        (Ext::Fin(x), Ext::Fin(y)) => x.cmp(y),
        _ => rank(a).cmp(&rank(b)),
    }
}
fn ext_abs(a: &Ext) -> Ext {
    match a {
        Ext::Fin(x) => Ext::Fin(x.abs()),
        _ => Ext::PosInf,
    }
}

struct FV<const B: Word> {
    z: FBig<mode::Zero, B>,
    h: FBig<mode::HalfAway, B>,
    val: Ext,
    how: String,
}

fn fvals<const B: Word>(p_max: u32, e_max: i64, prod_p: &[usize]) -> Vec<FV<B>> {
    let mut out: Vec<FV<B>> = vec![];
    let uni = f_universe(B as u32, p_max, e_max);
    let mut push = |repr: Repr<B>, prec: usize, how: String, out: &mut Vec<FV<B>>| {
        let val = if repr.is_infinite() {
            if repr.exponent() >= 0 {
                Ext::PosInf
            } else {
                Ext::NegInf
            }
        } else {
            Ext::Fin(fval(&repr).rat())
        };
        // the same (representation, precision) wrapped in two rounding modes
        let z = FBig::<mode::Zero, B>::from_repr(repr.clone(), Context::new(prec));
        let h = FBig::<mode::HalfAway, B>::from_repr(repr, Context::new(prec));
        out.push(FV { z, h, val, how });
    };
    for (s, e) in &uni {
        let d = digits_b(s, B as u32);
        for prec in [0usize, d.max(1), d + 3] {
            push(mk_repr::<B>(s, *e), prec, format!("from_repr({}e{}, precision {})", s, e, prec), &mut out);
        }
    }
    // the same values written with trailing zero digits: Repr::new has to normalise s * B^v to
    // (s, v) - a representation that keeps a factor of the base would be == -different from its
    // own value while comparing Equal
    for v in 1u32..=24 {
        for s0 in [1i64, -1, 7] {
            let s = BigInt::from(s0) * num_traits::pow(BigInt::from(B), v as usize);
            let prec = digits_b(&s, B as u32);
            push(Repr::<B>::new(ref_to_i(&s), -3), prec, format!("Repr::new({} * {}^{}, -3) (unnormalised spelling)", s0, B, v), &mut out);
        }
    }
    push(Repr::<B>::infinity(), 0, "+inf".into(), &mut out);
    push(Repr::<B>::neg_infinity(), 0, "-inf".into(), &mut out);
    push(Repr::<B>::infinity(), 5, "+inf (precision 5)".into(), &mut out);
    // arithmetic producers: results may legitimately carry p+1 digits
    let small = f_universe(B as u32, 2.min(p_max), 2);
    let mut seen_prod = std::collections::HashSet::new();
    for &p in prod_p {
        let c = Context::<mode::HalfAway>::new(p);
        for (s1, e1) in &small {
            if digits_b(s1, B as u32) > p {
                continue;
            }
            for (s2, e2) in &small {
                if digits_b(s2, B as u32) > p {
                    continue;
                }
                let (a, b) = (mk_repr::<B>(s1, *e1), mk_repr::<B>(s2, *e2));
                for (name, r) in [("add", guard(|| c.add(&a, &b).value())), ("mul", guard(|| c.mul(&a, &b).value()))] {
                    if let Ok(v) = r {
                        if digits_b(&i_to_ref(v.repr().significand()), B as u32) > p {
                            let repr = v.repr().clone();
                            // one producer per distinct (value, precision)
                            if !seen_prod.insert((i_to_ref(repr.significand()), repr.exponent(), p)) {
                                continue;
                            }
                            let val = Ext::Fin(fval(&repr).rat());
                            // same representation/precision, both mode types, built by the arithmetic itself
                            let z = Context::<mode::Zero>::new(p);
                            let zv = match name {
                                "add" => guard(|| z.add(&a, &b).value()),
                                _ => guard(|| z.mul(&a, &b).value()),
                            };
                            if let Ok(zv) = zv {
                                if zv.repr() == v.repr() {
                                    out.push(FV { z: zv, h: v, val, how: format!("Context(p={}).{}({}e{}, {}e{}) [p+1 digits]", p, name, s1, e1, s2, e2) });
                                }
                            }
                        }
                    }
                }
            }
        }
    }
    out
}

fn float_pairs<const B: Word>(ctx: &mut Ctx, p_max: u32, e_max: i64, prod_p: &[usize]) {
    let vals = fvals::<B>(p_max, e_max, prod_p);
    let n = vals.len() as u64;
    ctx.bound(&format!("float_values_base{}", B), n);
    let vr = &vals;
    ctx.sweep(&format!("float.pairs.B{}", B), n * n, |i, rec| {
        let (a, b) = (&vr[(i / n) as usize], &vr[(i % n) as usize]);
        let want = ext_cmp(&a.val, &b.val);
        let wabs = ext_cmp(&ext_abs(&a.val), &ext_abs(&b.val));
        let case = || format!("base {}: {}  vs  {}", B, a.how, b.how);
        let class = format!("B{}", B);
        let chk = |rec: &mut Rec, site: &str, got: Result<Ordering, String>, want: Ordering| {
            rec.step();
            match got {
                Ok(g) if g == want => {}
                Ok(g) => rec.fail(format!("{}|{}|wrong-order|{}", P, site, class), case(), format!("{:?}", g), format!("{:?}", want)),
                Err(p) => rec.fail(format!("{}|{}|panic|{}", P, site, class), case(), p, format!("{:?}", want)),
            }
        };
        chk(rec, "FBig::cmp", guard(|| a.z.cmp(&b.z)), want);
        chk(rec, "FBig::cmp(HalfAway)", guard(|| a.h.cmp(&b.h)), want);
        chk(rec, "FBig::partial_cmp(cross-mode)", guard(|| a.z.partial_cmp(&b.h).unwrap()), want);
        chk(rec, "FBig::abs_cmp", guard(|| a.z.abs_cmp(&b.z)), wabs);
        chk(rec, "Repr::cmp", guard(|| a.z.repr().cmp(b.z.repr())), want);
        rec.step();
        match guard(|| (a.z == b.z, a.z == b.h, a.h == b.h)) {
            Ok((e1, e2, e3)) => {
                let w = want == Ordering::Equal;
                if e1 != w || e2 != w || e3 != w {
                    rec.fail(format!("{}|FBig::eq|wrong-value|{}", P, class), case(), format!("{:?}", (e1, e2, e3)), format!("{}", w));
                }
            }
            Err(p) => rec.fail(format!("{}|FBig::eq|panic|{}", P, class), case(), p, "a bool"),
        }
        if want == Ordering::Equal {
            rec.hit("equal-values(different precision/producer)");
        }
        if let (Ext::Fin(x), Ext::Fin(y)) = (&a.val, &b.val) {
            if !x.is_zero() && !y.is_zero() {
                rec.nontrivial();
            }
        } else {
            rec.hit("infinite-operand");
        }
        rec.sample(case);
    });
    ctx.require_classes(&format!("float.pairs.B{}", B), &["equal-values(different precision/producer)", "infinite-operand"]);
}

fn h64<T: Hash>(x: &T) -> u64 {
    let mut h = std::collections::hash_map::DefaultHasher::new();
    x.hash(&mut h);
    h.finish()
}

pub fn run(ctx: &mut Ctx) {
    ctx.rule = "integers: breadth-first exploration of operation histories over a pool of 2 IBig + 1 UBig (state = signs and words), in every state each live value is compared (==, cmp, hash with two hashers, abs_cmp) with the canonical construction of the same mathematical value and the live values pairwise with the num_bigint order; floats: all ordered pairs of { F(B,P,E) x precisions {0, digits, digits+3}, results of Context add/mul that carry p+1 digits, +-inf } for ==, cmp, partial_cmp across rounding modes, abs_cmp; rationals: all ordered pairs of Q(N,N) in every spelling (RBig, Relaxed k*n/k*d, multi-word common factor). non-trivial = both values non-zero and finite".into();
    let cfg = Cfg { prop: P, with_capacity: false, with_order: true, max_words: 6, depth: ctx.pick(3, 4), full_alphabet: !ctx.quick(), max_states_per_level: ctx.pick(40_000, 300_000) };
    explore(ctx, &cfg);
    if matches!(ctx.mode, crate::core::Mode::Replay { ref sweep, .. } if sweep == "path") {
        return;
    }

    // floats
    if ctx.quick() {
        float_pairs::<2>(ctx, 4, 5, &[1, 2, 3]);
        float_pairs::<10>(ctx, 2, 3, &[1, 2]);
    } else {
        float_pairs::<2>(ctx, 5, 7, &[1, 2, 3, 4]);
        float_pairs::<10>(ctx, 2, 5, &[1, 2, 3]);
        float_pairs::<3>(ctx, 3, 4, &[1, 2]);
        float_pairs::<16>(ctx, 2, 3, &[1, 2]);
    }

    // rationals
    let nmax: i64 = ctx.pick(8, 12);
    let mut reduced: Vec<(BigInt, BigInt)> = vec![];
    for d in 1..=nmax {
        for n in -nmax..=nmax {
            if BigInt::from(n).gcd(&BigInt::from(d)).is_one() || (n == 0 && d == 1) {
                reduced.push((BigInt::from(n), BigInt::from(d)));
            }
        }
    }
    // a few multi-word fractions sharing structure
    let big = BigInt::from(shape(3, "lcgA", 0));
    for (n, d) in [(big.clone(), BigInt::from(7)), (BigInt::from(7), big.clone()), (-big.clone(), &big + 2), (&big + 1, big.clone())] {
        let g = n.gcd(&d);
        reduced.push((n / &g, d / &g));
    }
    let factors: Vec<BigInt> = vec![BigInt::one(), BigInt::from(3), BigInt::from(5), BigInt::from(9), BigInt::from(u64::MAX), (BigInt::one() << 64u32) + 1];
    struct QV {
        r: RBig,
        x: Relaxed,
        val: Rat,
        how: String,
    }
    let mut qv: Vec<QV> = vec![];
    for (n, d) in &reduced {
        for k in &factors {
            let (kn, kd) = (n * k, d * k);
            let r = RBig::from_parts(ref_to_i(&kn), ref_to_u(kd.magnitude()));
            let x = Relaxed::from_parts(ref_to_i(&kn), ref_to_u(kd.magnitude()));
            qv.push(QV { r, x, val: Rat::new(n.clone(), d.clone()), how: format!("({}*{})/({}*{})", n, k, d, k) });
        }
    }
    // the same values reached through operators: Relaxed +- integer builds its result directly, so a
    // cancellation leaves spellings that from_parts never produces (e.g. a zero with denominator 3)
    for (n, d) in &reduced {
        for k in factors.iter().take(3) {
            for m in [2i64, -3] {
                let (kn, kd) = ((n + d * m) * k, d * k);
                let x = Relaxed::from_parts(ref_to_i(&kn), ref_to_u(kd.magnitude())) - ref_to_i(&BigInt::from(m));
                let r = RBig::from_parts(ref_to_i(n), ref_to_u(d.magnitude()));
                qv.push(QV { r, x, val: Rat::new(n.clone(), d.clone()), how: format!("(({}+{}*{})*{})/({}*{}) - {}", n, d, m, k, d, k, m) });
            }
        }
    }
    let nq = qv.len() as u64;
    ctx.bound("rational_values", nq);
    let qr = &qv;
    ctx.sweep("rational.pairs", nq * nq, |i, rec| {
        let (a, b) = (&qr[(i / nq) as usize], &qr[(i % nq) as usize]);
        let want = a.val.cmp(&b.val);
        let wabs = a.val.abs().cmp(&b.val.abs());
        let case = || format!("{} vs {}", a.how, b.how);
        let mut bad = |rec: &mut Rec, site: &str, obs: String, exp: String| rec.fail(format!("{}|{}|wrong-value|rational", P, site), case(), obs, exp);
        rec.steps(8);
        match guard(|| (a.r == b.r, a.r.cmp(&b.r), a.x == b.x, a.x.cmp(&b.x), a.r.abs_cmp(&b.r), a.x.abs_cmp(&b.x), h64(&a.r) == h64(&b.r), a.r.as_relaxed() == &b.x)) {
            Ok((e, c, xe, xc, ac, xac, he, mixed)) => {
                let w = want == Ordering::Equal;
                if e != w {
                    bad(rec, "RBig::eq", format!("{}", e), format!("{}", w));
                }
                if c != want {
                    bad(rec, "RBig::cmp", format!("{:?}", c), format!("{:?}", want));
                }
                if xe != w {
                    bad(rec, "Relaxed::eq", format!("{}", xe), format!("{}", w));
                }
                if xc != want {
                    bad(rec, "Relaxed::cmp", format!("{:?}", xc), format!("{:?}", want));
                }
                if ac != wabs {
                    bad(rec, "RBig::abs_cmp", format!("{:?}", ac), format!("{:?}", wabs));
                }
                if xac != wabs {
                    bad(rec, "Relaxed::abs_cmp", format!("{:?}", xac), format!("{:?}", wabs));
                }
                if w && !he {
                    bad(rec, "RBig::hash", "equal values hash differently".into(), "equal hashes".into());
                }
                if mixed != w {
                    bad(rec, "Relaxed::eq(rbig.as_relaxed)", format!("{}", mixed), format!("{}", w));
                }
            }
            Err(p) => rec.fail(format!("{}|rational-compare|panic|rational", P), case(), p, "no panic"),
        }
        // RBig canonical form (what == and hash rely on)
        let (n, d) = (i_to_ref(a.r.numerator()), BigInt::from(u_to_ref(a.r.denominator())));
        if n != a.val.n || d != a.val.d {
            rec.fail(format!("{}|RBig::from_parts|non-canonical|rational", P), a.how.clone(), format!("{}/{}", n, d), a.val.show());
        }
        if want == Ordering::Equal && a.how != b.how {
            rec.hit("equal-values(different spelling)");
        }
        if !a.val.is_zero() && !b.val.is_zero() {
            rec.nontrivial();
        }
        rec.sample(case);
    });
    ctx.require_classes("rational.pairs", &["equal-values(different spelling)"]);
    let _ = BigInt::zero().is_negative();
}
