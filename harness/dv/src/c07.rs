//! C07 — integer text and byte encodings round-trip and match the reference digits.
//!
//! Oracles (none shares code with dashu):
//!  * digits: `num_bigint::BigUint::to_str_radix` / `parse_bytes`, cross-checked at start-up against
//!    a schoolbook conversion on u32 limbs and Rust's primitive formatting;
//!  * layout: a re-implementation of `Formatter::pad_integral` written from the std::fmt docs,
//!    cross-checked at start-up against Rust's own formatting of u128/i128, and (where the value
//!    fits) Rust's own formatting directly;
//!  * parser: the documented grammar (sign? prefix? digits with `_` separators, either case);
//!  * bytes: `BigUint::from_bytes_le/be`, `BigInt::from_signed_bytes_le/be`;
//!  * chunks: the definition (shift + mask, sum of C_i * 2^(i*b)).

use crate::core::{guard, trunc, Ctx, Rec};
use crate::h::*;
use crate::uni::*;
use dashu_base::ParseError;
use dashu_int::{IBig, Sign, UBig};
use num_bigint::{BigInt, BigUint};
use num_traits::{One, ToPrimitive, Zero};
use std::collections::BTreeSet;

#[path = "h07.rs"]
mod h07;
use h07::*;

const P: &str = "C07";

// ---------------------------------------------------------------------------------------------
// (a) print -> parse round trip and digit correctness

#[derive(Clone, Copy, PartialEq)]
enum Depth {
    /// every call form and every text variant
    Full,
    /// large values: one print + the parse variants that have their own code path
    Lean,
}

fn expect_parsed_i(rec: &mut Rec, site: &str, class: &str, got: Result<Result<IBig, ParseError>, String>, want: &BigInt, case: impl FnOnce() -> String) -> bool {
    rec.step();
    match got {
        Ok(Ok(v)) => {
            let g = i_to_ref(&v);
            if &g != want {
                rec.fail(format!("{}|{}|wrong-value|{}", P, site, class), case(), hex(&g), hex(want));
                return false;
            }
            return true;
        }
        Ok(Err(e)) => rec.fail(format!("{}|{}|rejected-valid|{}", P, site, class), case(), format!("Err({:?})", e), hex(want)),
        Err(p) => rec.fail(format!("{}|{}|panic|{}", P, site, class), case(), format!("panic: {}", p), hex(want)),
    }
    false
}

fn expect_parsed_u(rec: &mut Rec, site: &str, class: &str, got: Result<Result<UBig, ParseError>, String>, want: &BigUint, case: impl FnOnce() -> String) -> bool {
    expect_parsed_i(rec, site, class, got.map(|r| r.map(IBig::from)), &BigInt::from(want.clone()), case)
}

fn expect_parsed_ir(rec: &mut Rec, site: &str, class: &str, got: Result<Result<(IBig, u32), ParseError>, String>, want: &BigInt, radix: u32, case: impl FnOnce() -> String) {
    rec.step();
    match got {
        Ok(Ok((v, r))) => {
            let g = i_to_ref(&v);
            if &g != want || r != radix {
                rec.fail(format!("{}|{}|wrong-value|{}", P, site, class), case(), format!("({}, radix {})", hex(&g), r), format!("({}, radix {})", hex(want), radix));
            }
        }
        Ok(Err(e)) => rec.fail(format!("{}|{}|rejected-valid|{}", P, site, class), case(), format!("Err({:?})", e), hex(want)),
        Err(p) => rec.fail(format!("{}|{}|panic|{}", P, site, class), case(), format!("panic: {}", p), hex(want)),
    }
}

/// Debug: "least and most significant digits, omitting the middle when too large"; `{:#?}` adds
/// digit and bit length.
fn check_debug(rec: &mut Rec, ty: &str, plain: Result<String, String>, pretty: Result<String, String>, v: &BigInt, class: &str) {
    let mag = v.magnitude();
    let dec = mag.to_str_radix(10);
    let sign = if is_neg(v) { "-" } else { "" };
    let case = || format!("{{:?}} of {}", hex(v));
    rec.step();
    let plain_text = match plain {
        Err(p) => {
            rec.fail(format!("{}|{}::Debug|panic|{}", P, ty, class), case(), format!("panic: {}", p), "abbreviated decimal digits");
            return;
        }
        Ok(t) => t,
    };
    let mut ok = false;
    if let Some(body) = plain_text.strip_prefix(sign) {
        if body == dec {
            ok = true;
            rec.hit("debug:full");
        } else if let Some((h, l)) = body.split_once("..") {
            let digits = |s: &str| !s.is_empty() && s.bytes().all(|b| b.is_ascii_digit());
            if digits(h) && digits(l) && dec.starts_with(h) && dec.ends_with(l) && h.len() + l.len() < dec.len() {
                ok = true;
                rec.hit("debug:abbreviated");
            }
        }
    }
    if !ok {
        rec.fail(
            format!("{}|{}::Debug|wrong-text|{}", P, ty, class),
            case(),
            trunc(&plain_text, 200),
            format!("{}<all digits> or {}<leading digits>..<trailing digits> of {}", sign, sign, trunc(&dec, 120)),
        );
        return;
    }
    rec.step();
    match pretty {
        Err(p) => rec.fail(format!("{}|{}::Debug#|panic|{}", P, ty, class), case(), format!("panic: {}", p), "digits + (digits: n, bits: m)"),
        Ok(t) => {
            let want = |nd: usize| format!("{} (digits: {}, bits: {})", plain_text, nd, mag.bits());
            if mag.is_zero() {
                // number of digits of zero: not specified by the docs (the tests pin 0)
                rec.hit("unspecified:debug-digit-count-of-zero");
                if t != want(0) && t != want(1) {
                    rec.fail(format!("{}|{}::Debug#|wrong-text|zero", P, ty), case(), t, want(0));
                }
            } else if t != want(dec.len()) {
                rec.fail(format!("{}|{}::Debug#|wrong-text|{}", P, ty, class), case(), trunc(&t, 200), trunc(&want(dec.len()), 200));
            }
        }
    }
}

/// One value in one radix: every print form against the reference digits, every parse form of
/// the printed text against the value.
fn text_case(rec: &mut Rec, v: &BigInt, r: u32, known_lower: Option<&str>, depth: Depth) {
    let mag = v.magnitude();
    let negv = is_neg(v);
    let lower_owned;
    let lower: &str = match known_lower {
        Some(s) => s,
        None => {
            lower_owned = mag.to_str_radix(r);
            &lower_owned
        }
    };
    let n = lower.len();
    let sign = if negv { "-" } else { "" };
    let words = word_len(mag);
    let fc = fmt_class(words, n, r);
    let pc = parse_class(if mag.is_zero() { 0 } else { n }, r);
    rec.hit(&format!("fmt:{}", fc));
    rec.hit(&format!("parse:{}", pc));
    let fclass = format!("{},{}", rclass(r), fc);
    let fclass = fclass.as_str();
    let full = depth == Depth::Full;
    let iv = ref_to_i(v);
    let uv = if negv { None } else { Some(ref_to_u(mag)) };
    let case = |what: &str| {
        let h = hex(v);
        format!("{} of {} (radix {}, {} digits)", what, h, r, n)
    };

    // ---- printing
    let want_lower = format!("{}{}", sign, lower);
    // the other print forms run the same digit generator: when the basic form is already wrong
    // they are not reported again for this case (one root cause, few signatures)
    let print_ok = expect_text(rec, "IBig::in_radix", fclass, guard(|| format!("{}", iv.in_radix(r))), &want_lower, || case("{}"));
    let upper = lower.to_ascii_uppercase();
    let want_upper = format!("{}{}", sign, upper);
    if !print_ok {
        rec.hit("print-forms-skipped-after-failure");
    }
    let uv = if print_ok { uv } else { None };
    if print_ok && (r > 10 || full) {
        expect_text(rec, "IBig::in_radix#", fclass, guard(|| format!("{:#}", iv.in_radix(r))), &want_upper, || case("{:#}"));
    }
    if let Some(u) = &uv {
        expect_text(rec, "UBig::in_radix", fclass, guard(|| format!("{}", u.in_radix(r))), lower, || case("{}"));
        if full {
            expect_text(rec, "UBig::in_radix#", fclass, guard(|| format!("{:#}", u.in_radix(r))), &upper, || case("{:#}"));
        }
    }
    match if print_ok { r } else { 0 } {
        10 => {
            expect_text(rec, "IBig::Display", fclass, guard(|| format!("{}", iv)), &want_lower, || case("Display"));
            if let Some(u) = &uv {
                expect_text(rec, "UBig::Display", fclass, guard(|| u.to_string()), lower, || case("to_string"));
            }
            let dclass = size_class(words);
            check_debug(rec, "IBig", guard(|| format!("{:?}", iv)), guard(|| format!("{:#?}", iv)), v, dclass);
            if let Some(u) = &uv {
                check_debug(rec, "UBig", guard(|| format!("{:?}", u)), guard(|| format!("{:#?}", u)), v, dclass);
            }
        }
        2 => {
            expect_text(rec, "IBig::Binary", fclass, guard(|| format!("{:b}", iv)), &want_lower, || case("{:b}"));
            expect_text(rec, "IBig::Binary#", fclass, guard(|| format!("{:#b}", iv)), &format!("{}0b{}", sign, lower), || case("{:#b}"));
            if let Some(u) = &uv {
                expect_text(rec, "UBig::Binary", fclass, guard(|| format!("{:b}", u)), lower, || case("{:b}"));
                expect_text(rec, "UBig::Binary#", fclass, guard(|| format!("{:#b}", u)), &format!("0b{}", lower), || case("{:#b}"));
            }
        }
        8 => {
            expect_text(rec, "IBig::Octal", fclass, guard(|| format!("{:o}", iv)), &want_lower, || case("{:o}"));
            expect_text(rec, "IBig::Octal#", fclass, guard(|| format!("{:#o}", iv)), &format!("{}0o{}", sign, lower), || case("{:#o}"));
            if let Some(u) = &uv {
                expect_text(rec, "UBig::Octal", fclass, guard(|| format!("{:o}", u)), lower, || case("{:o}"));
                expect_text(rec, "UBig::Octal#", fclass, guard(|| format!("{:#o}", u)), &format!("0o{}", lower), || case("{:#o}"));
            }
        }
        16 => {
            expect_text(rec, "IBig::LowerHex", fclass, guard(|| format!("{:x}", iv)), &want_lower, || case("{:x}"));
            expect_text(rec, "IBig::UpperHex", fclass, guard(|| format!("{:X}", iv)), &want_upper, || case("{:X}"));
            expect_text(rec, "IBig::LowerHex#", fclass, guard(|| format!("{:#x}", iv)), &format!("{}0x{}", sign, lower), || case("{:#x}"));
            expect_text(rec, "IBig::UpperHex#", fclass, guard(|| format!("{:#X}", iv)), &format!("{}0x{}", sign, upper), || case("{:#X}"));
            if let Some(u) = &uv {
                expect_text(rec, "UBig::LowerHex", fclass, guard(|| format!("{:x}", u)), lower, || case("{:x}"));
                expect_text(rec, "UBig::UpperHex", fclass, guard(|| format!("{:X}", u)), &upper, || case("{:X}"));
                expect_text(rec, "UBig::LowerHex#", fclass, guard(|| format!("{:#x}", u)), &format!("0x{}", lower), || case("{:#x}"));
                expect_text(rec, "UBig::UpperHex#", fclass, guard(|| format!("{:#X}", u)), &format!("0x{}", upper), || case("{:#X}"));
            }
        }
        _ => {}
    }

    if mag > &BigUint::one() {
        rec.nontrivial();
    }

    // ---- parsing the printed text back
    let pcl = |variant: &str| format!("{},{},{}", rclass(r), pc, variant);
    let pcase = |s: &str| format!("parse {:?} in radix {}", trunc(s, 120), r);
    let parse_ok = expect_parsed_i(rec, "IBig::from_str_radix", &pcl("plain"), guard(|| IBig::from_str_radix(&want_lower, r)), v, || pcase(&want_lower));
    if !parse_ok {
        // the variants below go through the same converter
        rec.hit("parse-forms-skipped-after-failure");
        return;
    }
    if r > 10 {
        expect_parsed_i(rec, "IBig::from_str_radix", &pcl("upper"), guard(|| IBig::from_str_radix(&want_upper, r)), v, || pcase(&want_upper));
        if full {
            let mixed: String = want_lower.chars().enumerate().map(|(i, c)| if i % 2 == 0 { c.to_ascii_uppercase() } else { c }).collect();
            expect_parsed_i(rec, "IBig::from_str_radix", &pcl("mixed-case"), guard(|| IBig::from_str_radix(&mixed, r)), v, || pcase(&mixed));
        }
    }
    // underscores between digits (documented separator), groups of 4 from the right
    let us = format!("{}{}", sign, with_underscores(lower, 4));
    let pc_us = parse_class(if mag.is_zero() { 0 } else if r.is_power_of_two() { us.len() - sign.len() } else { n }, r);
    let us_class = format!("{},{},underscores", rclass(r), pc_us);
    expect_parsed_i(rec, "IBig::from_str_radix", &us_class, guard(|| IBig::from_str_radix(&us, r)), v, || pcase(&us));
    if n > 4 {
        rec.hit("parse:underscores");
    }
    if full {
        let z = format!("{}000{}", sign, lower);
        expect_parsed_i(rec, "IBig::from_str_radix", &pcl("leading-zeros"), guard(|| IBig::from_str_radix(&z, r)), v, || pcase(&z));
    }
    if !negv {
        let plus = format!("+{}", lower);
        expect_parsed_i(rec, "IBig::from_str_radix", &pcl("plus"), guard(|| IBig::from_str_radix(&plus, r)), v, || pcase(&plus));
        expect_parsed_u(rec, "UBig::from_str_radix", &pcl("plain"), guard(|| UBig::from_str_radix(lower, r)), mag, || pcase(lower));
        if full {
            expect_parsed_u(rec, "UBig::from_str_radix", &pcl("plus"), guard(|| UBig::from_str_radix(&plus, r)), mag, || pcase(&plus));
            expect_parsed_u(rec, "UBig::from_str_radix", &us_class, guard(|| UBig::from_str_radix(&us, r)), mag, || pcase(&us));
            if r > 10 {
                expect_parsed_u(rec, "UBig::from_str_radix", &pcl("upper"), guard(|| UBig::from_str_radix(&upper, r)), mag, || pcase(&upper));
            }
        }
    }
    match r {
        10 => {
            expect_parsed_i(rec, "IBig::from_str", &pcl("plain"), guard(|| want_lower.parse::<IBig>()), v, || pcase(&want_lower));
            expect_parsed_ir(rec, "IBig::from_str_with_radix_prefix", &pcl("no-prefix"), guard(|| IBig::from_str_with_radix_prefix(&want_lower)), v, 10, || pcase(&want_lower));
            if !negv {
                expect_parsed_u(rec, "UBig::from_str", &pcl("plain"), guard(|| lower.parse::<UBig>()), mag, || pcase(lower));
            }
        }
        2 | 8 | 16 => {
            let pre = match r {
                2 => "0b",
                8 => "0o",
                _ => "0x",
            };
            let s = format!("{}{}{}", sign, pre, lower);
            expect_parsed_ir(rec, "IBig::from_str_with_radix_prefix", &pcl("prefix"), guard(|| IBig::from_str_with_radix_prefix(&s)), v, r, || pcase(&s));
            if !negv {
                let got = guard(|| UBig::from_str_with_radix_prefix(&s).map(|(u, r)| (IBig::from(u), r)));
                expect_parsed_ir(rec, "UBig::from_str_with_radix_prefix", &pcl("prefix"), got, v, r, || pcase(&s));
            }
            if r == 16 && full {
                let s = format!("{}{}{}", sign, pre, upper);
                expect_parsed_ir(rec, "IBig::from_str_with_radix_prefix", &pcl("prefix,upper"), guard(|| IBig::from_str_with_radix_prefix(&s)), v, r, || pcase(&s));
            }
        }
        _ => {
            if full {
                expect_parsed_ir(rec, "IBig::from_str_with_radix_default", &pcl("no-prefix"), guard(|| IBig::from_str_with_radix_default(&want_lower, r)), v, r, || pcase(&want_lower));
            }
        }
    }
}

// ---------------------------------------------------------------------------------------------
// (b) formatter flags

const WIDTHS_Q: [Option<usize>; 6] = [None, Some(0), Some(1), Some(5), Some(40), Some(400)];
const WIDTHS_T: [Option<usize>; 14] = [None, Some(0), Some(1), Some(2), Some(3), Some(5), Some(39), Some(40), Some(41), Some(64), Some(100), Some(387), Some(400), Some(1000)];

fn compare_layouts(rec: &mut Rec, site: &str, rkind: &str, got: Result<Vec<(Spec, String)>, String>, v: &BigInt, digits_for: &dyn Fn(&Spec) -> (String, &'static str), prim: Option<&Vec<(Spec, String)>>, what: &str) {
    let got = match got {
        Ok(g) => g,
        Err(p) => {
            rec.step();
            rec.fail(format!("{}|{}|panic|{}", P, site, rkind), format!("formatting {} with every flag combination ({})", hex(v), what), format!("panic: {}", p), "text");
            return;
        }
    };
    // layout is judged only for traits whose flag-less rendering has the right digits (digit bugs
    // belong to the text.* sweeps and must not be multiplied by the number of flag combinations)
    let mut bad_ty: Vec<&'static str> = vec![];
    for (spec, text) in got.iter() {
        if spec.a.is_empty() && !spec.plus && !spec.alt && !spec.zero && spec.w.is_none() {
            let (digits, _) = digits_for(spec);
            let want = format!("{}{}", if is_neg(v) { "-" } else { "" }, digits);
            if text != &want {
                rec.step();
                bad_ty.push(spec.ty);
                rec.fail(format!("{}|{}|wrong-digits|{}", P, site, rkind), format!("format!(\"{}\", {}) [{}]", spec.show(), hex(v), what), trunc(text, 300), trunc(&want, 300));
            }
        }
    }
    for (k, (spec, text)) in got.iter().enumerate() {
        if bad_ty.contains(&spec.ty) {
            continue;
        }
        rec.step();
        let (digits, prefix) = digits_for(spec);
        let want = pad_integral(spec, !is_neg(v), prefix, &digits);
        let content = digits.len() + if is_neg(v) || spec.plus { 1 } else { 0 } + if spec.alt { prefix.len() } else { 0 };
        let mode = pad_mode(spec, content);
        rec.hit(&format!("pad:{}", mode));
        let model_ok = text == &want;
        if !model_ok {
            rec.fail(format!("{}|{}|wrong-layout|{},{}", P, site, mode, rkind), format!("format!(\"{}\", {}) [{}]", spec.show(), hex(v), what), trunc(text, 300), trunc(&want, 300));
        }
        // Rust's own formatting of the same number, where a primitive can hold it (reported only
        // when the model did not already report the same text)
        if let (Some(pv), true) = (prim, model_ok) {
            let (ps, pt) = &pv[k];
            debug_assert!(ps.show() == spec.show());
            rec.step();
            rec.hit("compared-with-primitive");
            if pt != text {
                rec.fail(format!("{}|{}|differs-from-primitive|{},{}", P, site, mode, rkind), format!("format!(\"{}\", {}) [{}]", spec.show(), hex(v), what), trunc(text, 300), trunc(pt, 300));
            }
        }
    }
}

fn flags_traits_case(rec: &mut Rec, v: &BigInt, widths: &[Option<usize>]) {
    let mag = v.magnitude();
    let (bin, oct, dec, hexl) = (mag.to_str_radix(2), mag.to_str_radix(8), mag.to_str_radix(10), mag.to_str_radix(16));
    let hexu = hexl.to_ascii_uppercase();
    let digits_for = |s: &Spec| -> (String, &'static str) {
        match s.ty {
            "" => (dec.clone(), ""),
            "b" => (bin.clone(), "0b"),
            "o" => (oct.clone(), "0o"),
            "x" => (hexl.clone(), "0x"),
            _ => (hexu.clone(), "0x"),
        }
    };
    let iv = ref_to_i(v);
    // primitive: i128 formats negative numbers in radix 2/8/16 as two's complement, which the
    // property excludes ("'-' followed by its magnitude"); so the direct comparison is made for
    // non-negative values (all five traits, as u128) and for negative values in Display only.
    let prim: Option<Vec<(Spec, String)>> = if !is_neg(v) { mag.to_u128().map(|p| layouts_all(&p, widths)) } else { None };
    compare_layouts(rec, "IBig::fmt(flags)", if is_neg(v) { "neg" } else { "nonneg" }, guard(|| layouts_all(&iv, widths)), v, &digits_for, prim.as_ref(), "Display/Binary/Octal/LowerHex/UpperHex");
    if is_neg(v) {
        if let Some(p) = v.to_i128() {
            let pl = layouts_display(&p, widths);
            let dd = |_: &Spec| (dec.clone(), "");
            compare_layouts(rec, "IBig::fmt(flags)", "neg,display", guard(|| layouts_display(&iv, widths)), v, &dd, Some(&pl), "Display vs i128");
        }
    } else {
        let uv = ref_to_u(mag);
        compare_layouts(rec, "UBig::fmt(flags)", "nonneg", guard(|| layouts_all(&uv, widths)), v, &digits_for, prim.as_ref(), "Display/Binary/Octal/LowerHex/UpperHex");
    }
    rec.nontrivial();
}

/// formatter flags on a long value: widths are placed relative to the printed length (one below,
/// equal, one/two above, well above), since the padding is computed from the formatter's own
/// digit count of the prepared (chunked) number and not from the emitted text.
fn flags_large_case(rec: &mut Rec, mag: &BigUint, neg: bool, r: u32, digits: &str, full: bool) {
    let n = digits.len();
    let v = if neg { -BigInt::from(mag.clone()) } else { BigInt::from(mag.clone()) };
    let content = n + neg as usize;
    let widths: Vec<Option<usize>> = vec![None, Some(content.saturating_sub(1)), Some(content), Some(content + 1), Some(content + 2), Some(content + 3), Some(content + 38), Some(2 * content + 5)].into_iter().filter(|w| w.map_or(true, |w| w + 2 <= u16::MAX as usize)).collect(); // Rust's formatter refuses run-time widths above u16::MAX
    let lower = digits.to_string();
    let upper = lower.to_ascii_uppercase();
    let digits_for = |s: &Spec| -> (String, &'static str) { (if s.alt { upper.clone() } else { lower.clone() }, "") };
    let iv = ref_to_i(&v);
    let rk = format!("{},{},long:{}", if r.is_power_of_two() { "pow2" } else { "nonpow2" }, if neg { "neg" } else { "nonneg" }, fmt_class(word_len(mag), n, r));
    let what = format!("in_radix({}), {} digits, widths around the printed length", r, n);
    let lay_i = guard(|| if full { layouts_display(&iv.in_radix(r), &widths) } else { layouts_lean_display(&iv.in_radix(r), &widths) });
    compare_layouts(rec, "IBig::in_radix(flags)", &rk, lay_i, &v, &digits_for, None, &what);
    if !neg {
        let uv = ref_to_u(mag);
        let lay_u = guard(|| if full { layouts_display(&uv.in_radix(r), &widths) } else { layouts_lean_display(&uv.in_radix(r), &widths) });
        compare_layouts(rec, "UBig::in_radix(flags)", &rk, lay_u, &v, &digits_for, None, &what);
    }
    // the radix traits go through their own entry points (Display = decimal)
    let tys: &[(&'static str, &'static str)] = match r {
        10 => &[("", "")],
        2 => &[("b", "0b")],
        8 => &[("o", "0o")],
        16 => &[("x", "0x"), ("X", "0x")],
        _ => &[],
    };
    for &(ty, prefix) in tys {
        let dg = if ty == "X" { upper.clone() } else { lower.clone() };
        let df = |_: &Spec| -> (String, &'static str) { (dg.clone(), prefix) };
        let w2: Vec<Option<usize>> = widths.iter().map(|w| w.map(|w| w + prefix.len())).chain(widths.iter().cloned().skip(1)).collect();
        let what = format!("trait {:?}, {} digits, widths around the printed length", ty, n);
        compare_layouts(rec, "IBig::fmt(flags)", &rk, guard(|| layouts_lean_trait(&iv, &w2, ty)), &v, &df, None, &what);
        if !neg {
            let uv = ref_to_u(mag);
            compare_layouts(rec, "UBig::fmt(flags)", &rk, guard(|| layouts_lean_trait(&uv, &w2, ty)), &v, &df, None, &what);
        }
    }
    rec.hit(&format!("long:{}", fmt_class(word_len(mag), n, r)));
    rec.nontrivial();
}

fn flags_in_radix_case(rec: &mut Rec, v: &BigInt, r: u32, widths: &[Option<usize>]) {
    let mag = v.magnitude();
    let lower = mag.to_str_radix(r);
    let upper = lower.to_ascii_uppercase();
    // InRadix: no prefix; `#` selects upper-case letters
    let digits_for = |s: &Spec| -> (String, &'static str) { (if s.alt { upper.clone() } else { lower.clone() }, "") };
    let iv = ref_to_i(v);
    let rk = format!("{},{}", if r.is_power_of_two() { "pow2" } else { "nonpow2" }, if is_neg(v) { "neg" } else { "nonneg" });
    // Rust's own formatting where it exists without prefix/case differences: radix 10, plain flags
    let prim: Option<Vec<(Spec, String)>> = None;
    compare_layouts(rec, "IBig::in_radix(flags)", &rk, guard(|| layouts_display(&iv.in_radix(r), widths)), v, &digits_for, prim.as_ref(), &format!("in_radix({})", r));
    if !is_neg(v) {
        let uv = ref_to_u(mag);
        compare_layouts(rec, "UBig::in_radix(flags)", &rk, guard(|| layouts_display(&uv.in_radix(r), widths)), v, &digits_for, None, &format!("in_radix({})", r));
    }
    rec.nontrivial();
}

// ---------------------------------------------------------------------------------------------
// (c) parser on all short strings

const SIGMA: [char; 18] = ['0', '1', '9', 'a', 'f', 'z', '_', '.', '-', '+', 'e', '@', 'x', 'p', ' ', 'é', 'F', 'Z'];
const SIGMA_PREFIX: [char; 16] = ['0', '1', '7', '9', 'a', 'f', 'b', 'o', 'x', 'B', 'X', '_', '-', '+', 'z', ' '];

type Parsed = Result<(bool, Option<u128>, u32), ParseError>;

fn read_u(x: &UBig, r: u32) -> (bool, Option<u128>, u32) {
    (false, words_u128(x.as_words()), r)
}
fn read_i(x: &IBig, r: u32) -> (bool, Option<u128>, u32) {
    let (s, w) = x.as_sign_words();
    (s == Sign::Negative, words_u128(w), r)
}

fn judge(rec: &mut Rec, site: &str, s: &str, default_radix: u32, minus_ok: bool, prefix: bool, got: Result<Parsed, String>) {
    rec.step();
    let (neg, radix, verdict) = verdict(s, default_radix, minus_ok, prefix);
    let rc = if prefix { format!("default-{}", rclass(default_radix)) } else { rclass(default_radix).to_string() };
    let case = || format!("{}({:?}{})", site, s, if prefix && default_radix == 10 { String::new() } else { format!(", {}", default_radix) });
    let got = match got {
        Ok(g) => g,
        Err(p) => {
            rec.fail(format!("{}|{}|panic|{},{}", P, site, rc, verdict.class()), case(), format!("panic: {}", p), "Ok or Err, never a panic");
            return;
        }
    };
    if prefix && radix != default_radix {
        rec.hit("prefix-recognised");
    }
    match verdict {
        Verdict::Accept(val) | Verdict::Lenient(val) => {
            let strict = matches!(verdict, Verdict::Accept(_));
            match got {
                Ok((gneg, gval, gr)) => {
                    rec.hit(if strict { "accept" } else { "unspecified:underscore-placement:accepted" });
                    if neg && val != 0 {
                        rec.hit("accept:negative");
                    }
                    if s.contains('_') && strict {
                        rec.hit("accept:underscore-separated");
                    }
                    let want_neg = neg && val != 0;
                    if gval != Some(val) || gneg != want_neg || gr != radix {
                        rec.fail(
                            format!("{}|{}|wrong-value|{},{}", P, site, rc, verdict.class()),
                            case(),
                            format!("Ok({}{:?}, radix {})", if gneg { "-" } else { "" }, gval, gr),
                            format!("Ok({}{}, radix {})", if want_neg { "-" } else { "" }, val, radix),
                        );
                    }
                }
                Err(e) => {
                    if strict {
                        rec.fail(format!("{}|{}|rejected-valid|{},{}", P, site, rc, verdict.class()), case(), format!("Err({:?})", e), format!("Ok({}{})", if neg { "-" } else { "" }, val));
                    } else {
                        rec.hit("unspecified:underscore-placement:rejected");
                    }
                }
            }
        }
        Verdict::Reject(kind) => match got {
            Ok((gneg, gval, gr)) => {
                rec.fail(
                    // no radix class here: the decision "no digit at all" is made before the radix matters
                    format!("{}|{}|accepted-malformed|{}", P, site, verdict.class()),
                    case(),
                    format!("Ok({}{:?}, radix {})", if gneg { "-" } else { "" }, gval, gr),
                    match kind {
                        Some(k) => format!("Err({:?})", k),
                        None => "Err (the text contains no digit)".to_string(),
                    },
                );
            }
            Err(e) => {
                rec.hit(&format!("reject:{}", verdict.class()));
                match kind {
                    Some(k) if k != e => rec.fail(format!("{}|{}|wrong-error|{},{}", P, site, rc, verdict.class()), case(), format!("Err({:?})", e), format!("Err({:?})", k)),
                    None if e != ParseError::NoDigits && e != ParseError::InvalidDigit => rec.fail(format!("{}|{}|wrong-error|{},{}", P, site, rc, verdict.class()), case(), format!("Err({:?})", e), "Err(NoDigits) or Err(InvalidDigit)"),
                    _ => {}
                }
            }
        },
    }
}

fn strings_case(rec: &mut Rec, s: &str) {
    for r in [2u32, 8, 10, 16, 36] {
        judge(rec, "UBig::from_str_radix", s, r, false, false, guard(|| UBig::from_str_radix(s, r).map(|x| read_u(&x, r))));
        judge(rec, "IBig::from_str_radix", s, r, true, false, guard(|| IBig::from_str_radix(s, r).map(|x| read_i(&x, r))));
    }
    judge(rec, "UBig::from_str", s, 10, false, false, guard(|| s.parse::<UBig>().map(|x| read_u(&x, 10))));
    judge(rec, "IBig::from_str", s, 10, true, false, guard(|| s.parse::<IBig>().map(|x| read_i(&x, 10))));
    judge(rec, "UBig::from_str_with_radix_prefix", s, 10, false, true, guard(|| UBig::from_str_with_radix_prefix(s).map(|(x, r)| read_u(&x, r))));
    judge(rec, "IBig::from_str_with_radix_prefix", s, 10, true, true, guard(|| IBig::from_str_with_radix_prefix(s).map(|(x, r)| read_i(&x, r))));
    if !s.is_empty() {
        rec.nontrivial();
    }
}

fn prefix_strings_case(rec: &mut Rec, s: &str) {
    judge(rec, "UBig::from_str_with_radix_prefix", s, 10, false, true, guard(|| UBig::from_str_with_radix_prefix(s).map(|(x, r)| read_u(&x, r))));
    judge(rec, "IBig::from_str_with_radix_prefix", s, 10, true, true, guard(|| IBig::from_str_with_radix_prefix(s).map(|(x, r)| read_i(&x, r))));
    for d in [16u32, 36] {
        judge(rec, "UBig::from_str_with_radix_default", s, d, false, true, guard(|| UBig::from_str_with_radix_default(s, d).map(|(x, r)| read_u(&x, r))));
        judge(rec, "IBig::from_str_with_radix_default", s, d, true, true, guard(|| IBig::from_str_with_radix_default(s, d).map(|(x, r)| read_i(&x, r))));
    }
    if !s.is_empty() {
        rec.nontrivial();
    }
}

// ---------------------------------------------------------------------------------------------
// (d) bytes

fn mag_kind(m: &BigUint) -> &'static str {
    if m.is_zero() {
        return "zero";
    }
    let bits = m.bits();
    if m.count_ones() == 1 {
        let k = bits - 1;
        if k % 8 == 0 {
            return "2^(8k)";
        }
        if k % 8 == 7 {
            return "2^(8k-1)";
        }
        return "2^other";
    }
    if m.count_ones() == bits {
        if bits % 8 == 0 {
            return "2^(8k)-1";
        }
        if bits % 8 == 7 {
            return "2^(8k-1)-1";
        }
    }
    "other"
}

fn show_bytes(b: &[u8]) -> String {
    let mut s = String::from("[");
    for (i, x) in b.iter().enumerate() {
        if i > 0 {
            s.push(' ');
        }
        s += &format!("{:02x}", x);
    }
    s.push(']');
    trunc(&s, 400)
}

fn bytes_value_case(rec: &mut Rec, v: &BigInt) {
    let mag = v.magnitude();
    let class = format!("{}{},{}", if is_neg(v) { "-" } else { "+" }, size_class(word_len(mag)), mag_kind(mag));
    let class = class.as_str();
    let iv = ref_to_i(v);
    let min_le = if v.is_zero() { vec![] } else { v.to_signed_bytes_le() };
    for be in [false, true] {
        let (to_site, from_site) = if be { ("IBig::to_be_bytes", "IBig::from_be_bytes") } else { ("IBig::to_le_bytes", "IBig::from_le_bytes") };
        let case = || format!("{}({})", to_site, hex(v));
        rec.step();
        match guard(|| if be { iv.to_be_bytes().to_vec() } else { iv.to_le_bytes().to_vec() }) {
            Err(p) => rec.fail(format!("{}|{}|panic|{}", P, to_site, class), case(), format!("panic: {}", p), "two's complement bytes"),
            Ok(bytes) => {
                let decoded = if be { BigInt::from_signed_bytes_be(&bytes) } else { BigInt::from_signed_bytes_le(&bytes) };
                if &decoded != v || (v.is_zero() && !bytes.is_empty()) {
                    rec.fail(
                        format!("{}|{}|wrong-value|{}", P, to_site, class),
                        case(),
                        format!("{} = two's complement of {}", show_bytes(&bytes), hex(&decoded)),
                        format!("bytes that decode to {} (e.g. {})", hex(v), show_bytes(&if be { min_le.iter().rev().copied().collect::<Vec<_>>() } else { min_le.clone() })),
                    );
                } else {
                    rec.hit(if bytes.len() == min_le.len() { "signed:minimal-length" } else { "unspecified:signed-non-minimal-length" });
                    // inverse
                    let back = guard(|| if be { IBig::from_be_bytes(&bytes) } else { IBig::from_le_bytes(&bytes) });
                    expect_i(rec, P, &format!("{}(to)", from_site), class, back, v, || format!("{}({})", from_site, show_bytes(&bytes)));
                }
            }
        }
        // decoding the reference's minimal encoding
        let enc: Vec<u8> = if be { min_le.iter().rev().copied().collect() } else { min_le.clone() };
        expect_i(rec, P, from_site, class, guard(|| if be { IBig::from_be_bytes(&enc) } else { IBig::from_le_bytes(&enc) }), v, || format!("{}({})", from_site, show_bytes(&enc)));
    }
    if !is_neg(v) {
        let uv = ref_to_u(mag);
        let min_le = if mag.is_zero() { vec![] } else { mag.to_bytes_le() };
        for be in [false, true] {
            let (to_site, from_site) = if be { ("UBig::to_be_bytes", "UBig::from_be_bytes") } else { ("UBig::to_le_bytes", "UBig::from_le_bytes") };
            let case = || format!("{}({})", to_site, hex(v));
            rec.step();
            match guard(|| if be { uv.to_be_bytes().to_vec() } else { uv.to_le_bytes().to_vec() }) {
                Err(p) => rec.fail(format!("{}|{}|panic|{}", P, to_site, class), case(), format!("panic: {}", p), "bytes"),
                Ok(bytes) => {
                    let decoded = if be { BigUint::from_bytes_be(&bytes) } else { BigUint::from_bytes_le(&bytes) };
                    if &decoded != mag || (mag.is_zero() && !bytes.is_empty()) {
                        rec.fail(format!("{}|{}|wrong-value|{}", P, to_site, class), case(), format!("{} = {}", show_bytes(&bytes), hexu(&decoded)), format!("bytes of {}", hexu(mag)));
                    } else {
                        rec.hit(if bytes.len() == min_le.len() { "unsigned:minimal-length" } else { "unspecified:unsigned-non-minimal-length" });
                        let back = guard(|| if be { UBig::from_be_bytes(&bytes) } else { UBig::from_le_bytes(&bytes) });
                        expect_u(rec, P, &format!("{}(to)", from_site), class, back, mag, || format!("{}({})", from_site, show_bytes(&bytes)));
                    }
                }
            }
        }
    }
    if is_neg(v) {
        rec.hit("negative");
        if mag.count_ones() == 1 {
            rec.hit("negative-power-of-two");
        }
    }
    if mag > &BigUint::one() {
        rec.nontrivial();
    }
}

fn bytes_from_case(rec: &mut Rec, le: &[u8]) {
    let be: Vec<u8> = le.iter().rev().copied().collect();
    let class = format!("len{}{}", match le.len() {
        0 => "=0",
        1..=8 => "<=8",
        9..=16 => "<=16",
        _ => ">16",
    }, match le.last() {
        Some(t) if *t >= 0x80 => ",top-bit-set",
        Some(0) => ",top-byte-zero",
        _ => "",
    });
    let class = class.as_str();
    let want_u = BigUint::from_bytes_le(le);
    let want_i = BigInt::from_signed_bytes_le(le);
    expect_u(rec, P, "UBig::from_le_bytes", class, guard(|| UBig::from_le_bytes(le)), &want_u, || format!("UBig::from_le_bytes({})", show_bytes(le)));
    expect_u(rec, P, "UBig::from_be_bytes", class, guard(|| UBig::from_be_bytes(&be)), &want_u, || format!("UBig::from_be_bytes({})", show_bytes(&be)));
    expect_i(rec, P, "IBig::from_le_bytes", class, guard(|| IBig::from_le_bytes(le)), &want_i, || format!("IBig::from_le_bytes({})", show_bytes(le)));
    expect_i(rec, P, "IBig::from_be_bytes", class, guard(|| IBig::from_be_bytes(&be)), &want_i, || format!("IBig::from_be_bytes({})", show_bytes(&be)));
    if is_neg(&want_i) {
        rec.hit("decodes-negative");
    }
    if le.len() >= 2 && (le[le.len() - 1] == 0 || (le[le.len() - 1] == 0xff && le[le.len() - 2] >= 0x80)) {
        rec.hit("non-minimal-input");
    }
    if !le.is_empty() {
        rec.nontrivial();
    }
}

const BYTE_PATTERNS: [&str; 11] = ["zeros", "ff", "top80", "top7f_ff", "top01", "lcg", "topff_zeros", "top00_lcg", "topff_lcg", "top80_lcg", "lcgSeed"];

fn byte_pattern(len: usize, pat: &str, seed: u64) -> Vec<u8> {
    let mut st = Mix(0x5EED_0000 ^ (len as u64) << 8 ^ if pat == "lcgSeed" { seed.wrapping_mul(0x9E37_79B9_7F4A_7C15) | 1 } else { 0 });
    let mut v: Vec<u8> = (0..len).map(|_| st.next() as u8).collect();
    if len == 0 {
        return v;
    }
    let top = len - 1;
    match pat {
        "zeros" => v.iter_mut().for_each(|x| *x = 0),
        "ff" => v.iter_mut().for_each(|x| *x = 0xff),
        "top80" => {
            v.iter_mut().for_each(|x| *x = 0);
            v[top] = 0x80;
        }
        "top7f_ff" => {
            v.iter_mut().for_each(|x| *x = 0xff);
            v[top] = 0x7f;
        }
        "top01" => {
            v.iter_mut().for_each(|x| *x = 0);
            v[top] = 1;
        }
        "topff_zeros" => {
            v.iter_mut().for_each(|x| *x = 0);
            v[top] = 0xff;
        }
        "top00_lcg" => v[top] = 0,
        "topff_lcg" => v[top] = 0xff,
        "top80_lcg" => v[top] = 0x80,
        _ => {}
    }
    v
}

// ---------------------------------------------------------------------------------------------
// (e) chunks

fn chunk_class(m: &BigUint, b: usize) -> String {
    let words = word_len(m);
    let aligned = b % WBITS == 0;
    format!("{},{},{}", if aligned { "word-aligned" } else { "unaligned" }, if words <= 2 { "inline" } else { "heap" }, if aligned && words % (b / WBITS) != 0 { "ragged-last-chunk" } else { "regular" })
}

fn chunks_case(rec: &mut Rec, m: &BigUint, b: usize) {
    let aligned = b % WBITS == 0;
    let class = chunk_class(m, b);
    let class = class.as_str();
    let uv = ref_to_u(m);
    let case = || format!("{}.to_chunks({})", hexu(m), b);
    rec.step();
    let chunks = match guard(|| uv.to_chunks(b).to_vec()) {
        Err(p) => {
            rec.fail(format!("{}|UBig::to_chunks|panic|{}", P, class), case(), format!("panic: {}", p), "the bit chunks");
            return;
        }
        Ok(c) => c,
    };
    let count = ((m.bits() as usize) + b - 1) / b;
    let mask = (BigUint::one() << b) - 1u32;
    let mut ok = true;
    for (i, c) in chunks.iter().enumerate() {
        let want = (m >> (i * b)) & &mask;
        let g = u_to_ref(c);
        if g != want {
            ok = false;
            rec.fail(format!("{}|UBig::to_chunks|wrong-value|{}", P, class), case(), format!("chunk {} = {}", i, hexu(&g)), format!("chunk {} = {} (< 2^{})", i, hexu(&want), b));
            break;
        }
    }
    if ok && chunks.len() < count {
        ok = false;
        rec.fail(format!("{}|UBig::to_chunks|wrong-value|{}", P, class), case(), format!("{} chunks", chunks.len()), format!("{} chunks", count));
    }
    if ok && chunks.len() > count {
        rec.hit("unspecified:extra-zero-chunks");
    }
    if ok {
        rec.hit(if count > 1 { "multi-chunk" } else { "single-chunk" });
        if aligned {
            rec.hit("word-aligned");
        }
        let back = guard(|| UBig::from_chunks(chunks.iter(), b));
        expect_u(rec, P, "UBig::from_chunks(to_chunks)", class, back, m, || format!("from_chunks(to_chunks({}, {}), {})", hexu(m), b, b));
    }
    if !m.is_zero() {
        rec.nontrivial();
    }
}

fn from_chunks_case(rec: &mut Rec, cs: &[&BigUint], b: usize) {
    let mut want = BigUint::zero();
    for (i, c) in cs.iter().enumerate() {
        want += (*c) << (i * b);
    }
    let ucs: Vec<UBig> = cs.iter().map(|c| ref_to_u(c)).collect();
    let fits = cs.iter().all(|c| c.bits() as usize <= b);
    let class = format!("{},{}", if b % WBITS == 0 { "word-aligned" } else { "unaligned" }, if fits { "chunks-fit" } else { "chunks-overlap" });
    let case = || format!("from_chunks([{}], {})", cs.iter().map(|c| hexu(c)).collect::<Vec<_>>().join(", "), b);
    let got = guard(|| UBig::from_chunks(ucs.iter(), b));
    let ok = expect_u(rec, P, "UBig::from_chunks", &class, got, &want, case);
    rec.hit(if fits { "chunks-fit" } else { "chunks-overlap" });
    if ok && fits && !cs.last().map_or(true, |c| c.is_zero()) {
        // other direction of the inverse: to_chunks(from_chunks(cs)) == cs
        rec.step();
        rec.hit("inverse-other-direction");
        let w = ref_to_u(&want);
        match guard(|| w.to_chunks(b).to_vec()) {
            Ok(back) => {
                let same = back.len() == cs.len() && back.iter().zip(cs.iter()).all(|(x, y)| &u_to_ref(x) == *y);
                if !same {
                    rec.fail(format!("{}|UBig::to_chunks(from_chunks)|wrong-value|{}", P, class), case(), format!("{:?}", back.iter().map(|x| hexu(&u_to_ref(x))).collect::<Vec<_>>()), "the original chunks");
                }
            }
            // same call as in chunks.roundtrip: same signature
            Err(p) => rec.fail(format!("{}|UBig::to_chunks|panic|{}", P, chunk_class(&want, b)), format!("{}.to_chunks({})", hexu(&want), b), format!("panic: {}", p), "the bit chunks"),
        }
    }
    rec.nontrivial();
}


// ---------------------------------------------------------------------------------------------
// universes

/// digit counts on both sides of the per-word, fmt-chunk (16 groups), parse-chunk (256 groups)
/// and divide-and-conquer thresholds, for the 64-bit and the 32-bit word tables alike
fn digit_counts(r: u32, quick: bool) -> Vec<usize> {
    let mut v = BTreeSet::new();
    for wb in [64usize, 32] {
        let d = dpw(r, wb);
        let ks: Vec<usize> = if r.is_power_of_two() {
            vec![1, 2, 3, 5, 16, 17]
        } else if wb == 64 {
            if quick {
                vec![1, 2, 3, 15, 16, 17, 32, 33, 64, 256, 257, 512]
            } else {
                vec![1, 2, 3, 4, 15, 16, 17, 31, 32, 33, 64, 65, 128, 129, 255, 256, 257, 511, 512, 513, 1024, 2048]
            }
        } else if quick {
            vec![1, 2, 16, 32, 256, 512]
        } else {
            vec![1, 2, 16, 32, 64, 256, 512, 1024]
        };
        for k in ks {
            for dl in [-1i64, 0, 1] {
                let n = (k * d) as i64 + dl;
                if n >= 1 {
                    v.insert(n as usize);
                }
            }
        }
        // three radix powers in the parser's divide and conquer (19 457 decimal digits)
        if !r.is_power_of_two() && wb == 64 {
            v.insert(1024 * d);
            v.insert(1024 * d + 1);
        }
    }
    v.into_iter().collect()
}

const DIGIT_PATTERNS: [&str; 6] = ["p10", "max", "p10p1", "lcg", "lcgz", "lcgSeed"];

fn digit_string(r: u32, n: usize, pat: &str, seed: u64) -> String {
    let ch = |d: u32| std::char::from_digit(d, r).unwrap();
    let mut s = String::with_capacity(n);
    match pat {
        "p10" => {
            s.push('1');
            (1..n).for_each(|_| s.push('0'));
        }
        "max" => (0..n).for_each(|_| s.push(ch(r - 1))),
        "p10p1" => {
            s.push('1');
            if n >= 2 {
                (2..n).for_each(|_| s.push('0'));
                s.push('1');
            }
        }
        _ => {
            let mut st = Mix((r as u64) << 40 ^ (n as u64) << 4 ^ if pat == "lcgSeed" { seed.wrapping_mul(0xD1B5_4A32_D192_ED03) | 1 } else { 0 });
            for i in 0..n {
                let mut d = (st.next() % r as u64) as u32;
                if i == 0 && d == 0 {
                    d = 1;
                }
                if pat == "lcgz" && i >= n / 3 && i < 2 * n / 3 && i > 0 {
                    d = 0;
                }
                s.push(ch(d));
            }
        }
    }
    s
}

fn sweep_hits(ctx: &Ctx, sweep: &str, class: &str) -> u64 {
    ctx.sweeps.iter().find(|s| s.name == sweep).and_then(|s| s.classes.get(class).copied()).unwrap_or(0)
}

fn reference_self_check(ctx: &mut Ctx) {
    // digits: BigUint::to_str_radix vs schoolbook on u32 limbs vs Rust's primitive formatting
    let mut vals: Vec<BigUint> = vec![BigUint::zero(), BigUint::one(), BigUint::from(255u32), BigUint::from(u64::MAX), BigUint::from(u128::MAX)];
    vals.push(shape(3, "lcgA", 0));
    vals.push(shape(40, "lcgB", 0));
    vals.push(shape(17, "sparse", 0));
    for v in &vals {
        for r in 2..=36u32 {
            let a = v.to_str_radix(r);
            if a != slow_digits(v, r) {
                ctx.machinery(format!("reference self-check failed: to_str_radix vs schoolbook digits, radix {}", r));
            }
            if BigUint::parse_bytes(a.as_bytes(), r).as_ref() != Some(v) || BigUint::parse_bytes(a.to_ascii_uppercase().as_bytes(), r).as_ref() != Some(v) {
                ctx.machinery(format!("reference self-check failed: parse_bytes(to_str_radix) radix {}", r));
            }
        }
        if let Some(p) = v.to_u128() {
            if v.to_str_radix(10) != format!("{}", p) || v.to_str_radix(2) != format!("{:b}", p) || v.to_str_radix(8) != format!("{:o}", p) || v.to_str_radix(16) != format!("{:x}", p) {
                ctx.machinery("reference self-check failed: to_str_radix vs primitive formatting");
            }
        }
    }
    // layout model vs Rust's own formatting of primitives
    let widths = WIDTHS_T;
    for p in [0u128, 1, 255, u64::MAX as u128, 1 << 64, u128::MAX] {
        let b = BigUint::from(p);
        for (s, text) in layouts_all(&p, &widths) {
            let (digits, prefix) = match s.ty {
                "" => (b.to_str_radix(10), ""),
                "b" => (b.to_str_radix(2), "0b"),
                "o" => (b.to_str_radix(8), "0o"),
                "x" => (b.to_str_radix(16), "0x"),
                _ => (b.to_str_radix(16).to_ascii_uppercase(), "0x"),
            };
            if pad_integral(&s, true, prefix, &digits) != text {
                ctx.machinery(format!("reference self-check failed: pad_integral model vs format!(\"{}\", {}u128) = {:?}", s.show(), p, text));
                return;
            }
        }
    }
    for p in [-1i128, -255, -(1 << 64), i128::MIN, i128::MAX, 0] {
        let digits = BigInt::from(p).magnitude().to_str_radix(10);
        for (s, text) in layouts_display(&p, &widths) {
            if pad_integral(&s, p >= 0, "", &digits) != text {
                ctx.machinery(format!("reference self-check failed: pad_integral model vs format!(\"{}\", {}i128) = {:?}", s.show(), p, text));
                return;
            }
        }
    }
    // grammar model on the library's own documented examples
    let ex: [(&str, u32, bool, bool, Verdict, bool, u32); 10] = [
        ("+7ab", 32, false, false, Verdict::Accept(7499), false, 32),
        ("-7ab", 32, true, false, Verdict::Accept(7499), true, 32),
        ("+0o17", 10, false, true, Verdict::Accept(15), false, 8),
        ("-0x1f", 10, true, true, Verdict::Accept(31), true, 16),
        ("1_23_45", 10, false, false, Verdict::Accept(12345), false, 10),
        ("", 2, false, false, Verdict::Reject(Some(ParseError::NoDigits)), false, 2),
        ("-", 2, true, false, Verdict::Reject(Some(ParseError::NoDigits)), true, 2),
        ("-0", 2, false, false, Verdict::Reject(Some(ParseError::InvalidDigit)), false, 2),
        ("-+5", 2, true, false, Verdict::Reject(Some(ParseError::InvalidDigit)), true, 2),
        ("0b102", 10, false, true, Verdict::Reject(Some(ParseError::InvalidDigit)), false, 2),
    ];
    for (s, r, minus, pre, want, wneg, wr) in ex {
        if verdict(s, r, minus, pre) != (wneg, wr, want) {
            ctx.machinery(format!("reference self-check failed: grammar model on documented example {:?}", s));
        }
    }
    // byte reference vs i128
    for x in [0i128, 1, -1, 127, 128, -128, -129, 255, 256, -256, -(1 << 64), (1 << 64), i128::MIN + 1] {
        let b = BigInt::from(x);
        let le = b.to_signed_bytes_le();
        let mut full = x.to_le_bytes().to_vec();
        while full.len() > le.len() {
            full.pop();
        }
        if le != full || BigInt::from_signed_bytes_le(&x.to_le_bytes()) != b || BigInt::from_signed_bytes_be(&x.to_be_bytes()) != b {
            ctx.machinery(format!("reference self-check failed: signed bytes of {}", x));
        }
    }
    if !BigInt::from_signed_bytes_le(&[]).is_zero() || !BigUint::from_bytes_le(&[]).is_zero() {
        ctx.machinery("reference self-check failed: empty byte string");
    }
}

pub fn run(ctx: &mut Ctx) {
    ctx.rule = "(a) every value of signed I3 (<=3 64-bit words over the 9-atom alphabet), of a shape universe (length classes around the inline/heap, 16-group formatter and 256-group parser thresholds x word patterns) and of a digit-directed universe (per radix: digit counts k*digits_per_word+{-1,0,1} for k on both sides of every converter threshold x 6 digit patterns) x all 35 radices: each print form against reference digits, each parse form of the printed text (lower, upper, mixed case, +, underscores, leading zeros, prefix) against the value; Debug against the true leading/trailing digits. (b) every combination of fill/align (7) x + x # x 0 x width list x {Display,b,o,x,X} on UBig/IBig and x 35 radices on InRadix, compared character by character with a pad_integral model and with Rust's own formatting of u128/i128 where the value fits. (c) every string of length <= L over an 18-symbol alphabet through from_str_radix (radix 2,8,10,16,36), FromStr and from_str_with_radix_prefix, and over a 16-symbol prefix alphabet through the *_with_radix_* functions: accepted <=> in the documented grammar, value == reference. (d) to/from le/be bytes on +-(2^(8k)+{-1,0,1}), +-(2^(8k-1)+{-1,0,1}), I3, shapes; from_* on all byte strings of length <= 2 (3 thorough) and structured strings up to 33 (66) bytes. (e) to_chunks/from_chunks for a chunk-size list on values of 1..5 (9) words and from_chunks on overlapping chunk triples. non-trivial = |value| > 1, non-empty string / byte string".into();
    ctx.assume("num_bigint 0.4 to_str_radix/parse_bytes/from_(signed_)bytes are a correct reference (cross-checked in every run against a schoolbook digit conversion, Rust's primitive formatting and i128 byte encodings)");
    ctx.assume("the layout oracle is a re-implementation of Formatter::pad_integral from the std::fmt documentation, cross-checked in every run against Rust's formatting of u128/i128 for every flag combination");
    ctx.assume("grammar: sign? (0b|0o|0x)? digit ('_'? digit)*; underscores in other positions (leading, trailing, doubled) are not specified and only the value is judged when such text is accepted; a body without any digit must be rejected (ParseError::NoDigits = \"No digits in the string\")");
    ctx.assume("byte and chunk encodings are judged by decodability to the same value (mutual inverse), not by minimal length; Debug is judged by 'leading digits..trailing digits' being true prefixes/suffixes of the decimal expansion, not by how many digits are shown");
    reference_self_check(ctx);
    let quick = ctx.quick();
    let seed = ctx.seed;

    // ------------------------------------------------------------------ (a) closed universe
    let i3 = signed(&i3_mags());
    let ni3 = i3.len() as u64;
    ctx.bound("I3_values", ni3);
    ctx.bound("radices", "2..=36 (all 35)");
    let i3r = &i3;
    ctx.sweep("text.I3", ni3 * 35, |i, rec| {
        let (v, r) = (&i3r[(i / 35) as usize], 2 + (i % 35) as u32);
        text_case(rec, v, r, None, Depth::Full);
        rec.sample(|| format!("{} printed and re-parsed in radix {}", hex(v), r));
    });
    ctx.require_classes("text.I3", &["fmt:word", "fmt:dword", "fmt:medium", "fmt:large-pow2", "parse:word", "parse:chunk", "parse:large-pow2", "debug:full", "debug:abbreviated"]);

    // ------------------------------------------------------------------ (a) shape universe
    let lens: Vec<usize> = ctx.pick(
        vec![1, 2, 3, 4, 5, 6, 7, 8, 13, 14, 15, 16, 17, 31, 32, 33, 64, 65, 129, 255, 256, 257, 513],
        vec![1, 2, 3, 4, 5, 6, 7, 8, 9, 12, 13, 14, 15, 16, 17, 18, 30, 31, 32, 33, 34, 63, 64, 65, 66, 127, 128, 129, 130, 255, 256, 257, 511, 512, 513, 1023, 1024, 1025],
    );
    ctx.bound("shape_lengths_words", serde_json::json!(lens));
    let mut svals: Vec<BigInt> = vec![];
    for (k, s) in shapes(&lens, &PATTERNS, seed).into_iter().enumerate() {
        if s.len <= 17 {
            svals.push(BigInt::from(s.v.clone()));
            svals.push(-BigInt::from(s.v));
        } else if k % 2 == 0 {
            svals.push(BigInt::from(s.v));
        } else {
            svals.push(-BigInt::from(s.v));
        }
    }
    let nsv = svals.len() as u64;
    ctx.bound("shape_values", nsv);
    let svr = &svals;
    ctx.sweep("text.shape", nsv * 35, |i, rec| {
        let (v, r) = (&svr[(i / 35) as usize], 2 + (i % 35) as u32);
        let depth = if word_len(v.magnitude()) * WBITS <= 17 * 64 { Depth::Full } else { Depth::Lean };
        text_case(rec, v, r, None, depth);
        rec.sample(|| format!("{} printed and re-parsed in radix {}", hex(v), r));
    });
    ctx.require_classes("text.shape", &["fmt:medium", "fmt:large:top-only", "fmt:large:dc1", "fmt:large:dc2", "fmt:large:dc3", "fmt:large:dc4", "fmt:large-pow2", "parse:chunk", "parse:dc1", "debug:abbreviated"]);

    // ------------------------------------------------------------------ (a) digit-directed universe
    let mut dcases: Vec<(u32, usize, &'static str)> = vec![];
    for r in 2..=36u32 {
        for n in digit_counts(r, quick) {
            for p in DIGIT_PATTERNS {
                if n == 1 && p != "p10" && p != "max" {
                    continue;
                }
                dcases.push((r, n, p));
            }
        }
    }
    ctx.bound("digit_counts_radix10", serde_json::json!(digit_counts(10, quick)));
    ctx.bound("digit_patterns", serde_json::json!(DIGIT_PATTERNS));
    let dcr = &dcases;
    ctx.sweep("text.digits", dcases.len() as u64, |i, rec| {
        let (r, n, p) = dcr[i as usize];
        let s = digit_string(r, n, p, seed);
        let m = match BigUint::parse_bytes(s.as_bytes(), r) {
            Some(m) if m.to_str_radix(r) == s => m,
            _ => {
                rec.hit("ref-selfcheck-failed");
                return;
            }
        };
        // alternate the sign with the index
        let v = if i % 2 == 0 { BigInt::from(m) } else { -BigInt::from(m) };
        let depth = if n <= 40 * dpw(r, 64) { Depth::Full } else { Depth::Lean };
        text_case(rec, &v, r, Some(&s), depth);
        rec.sample(|| format!("{} digits, pattern {}, radix {}: {}", n, p, r, trunc(&s, 60)));
    });
    if sweep_hits(ctx, "text.digits", "ref-selfcheck-failed") != 0 {
        ctx.machinery("reference self-check failed inside text.digits: num_bigint parse_bytes/to_str_radix disagree on a constructed digit string");
    }
    ctx.require_classes("text.digits", &["fmt:word", "fmt:dword", "fmt:medium", "fmt:large:top-only", "fmt:large:dc1", "fmt:large:dc2", "fmt:large:dc3", "fmt:large:dc4", "fmt:large:dc5", "fmt:large:dc6", "parse:word", "parse:chunk", "parse:dc1", "parse:dc2", "parse:dc3", "parse:underscores"]);

    // ------------------------------------------------------------------ (b) flags
    let widths: Vec<Option<usize>> = ctx.pick(WIDTHS_Q.to_vec(), WIDTHS_T.to_vec());
    ctx.bound("widths", serde_json::json!(widths));
    let mut fmags: Vec<BigUint> = vec![BigUint::zero(), BigUint::one(), BigUint::from(255u32), BigUint::from(u64::MAX), pow2(64), pow2(127) - 1u32, pow2(127), pow2(128) - 1u32, pow2(128), shape(3, "lcgA", seed), shape(20, "lcgB", seed)];
    if !quick {
        fmags.extend([BigUint::from(9u32), BigUint::from(10u32), BigUint::from(99_999u32), pow2(63), shape(2, "lcgA", seed), shape(5, "alt", seed), shape(16, "ones", seed), shape(20, "lcgSeed", seed)]);
    }
    let fvals = signed(&fmags);
    let nf = fvals.len() as u64;
    ctx.bound("flag_values", nf);
    let (fvr, wr) = (&fvals, &widths);
    ctx.sweep("flags.traits", nf, |i, rec| {
        flags_traits_case(rec, &fvr[i as usize], wr);
        rec.sample(|| format!("{} with 56 flag combinations x {} widths x 5 traits", hex(&fvr[i as usize]), wr.len()));
    });
    ctx.require_classes("flags.traits", &["pad:nowidth", "pad:fits", "pad:zero", "pad:default", "pad:left", "pad:center", "pad:right", "compared-with-primitive"]);
    ctx.sweep("flags.in_radix", nf * 35, |i, rec| {
        let (v, r) = (&fvr[(i / 35) as usize], 2 + (i % 35) as u32);
        flags_in_radix_case(rec, v, r, wr);
        rec.sample(|| format!("{} in_radix({}) with 56 flag combinations x {} widths", hex(v), r, wr.len()));
    });
    ctx.require_classes("flags.in_radix", &["pad:nowidth", "pad:fits", "pad:zero", "pad:default", "pad:left", "pad:center", "pad:right"]);

    // (b') flags on long values: the digit-directed universe (patterns p10 and max), widths around the printed length
    let lcases: Vec<(u32, usize, &'static str)> = dcases.iter().cloned().filter(|&(r, n, p)| (p == "p10" || p == "max") && n > 2 * dpw(r, 64)).collect();
    let lcr = &lcases;
    ctx.bound("flags_large_cases", lcases.len() as u64);
    ctx.sweep("flags.large", lcases.len() as u64, |i, rec| {
        let (r, n, p) = lcr[i as usize];
        let s = digit_string(r, n, p, seed);
        let m = match BigUint::parse_bytes(s.as_bytes(), r) {
            Some(m) if m.to_str_radix(r) == s => m,
            _ => {
                rec.hit("ref-selfcheck-failed");
                return;
            }
        };
        flags_large_case(rec, &m, i % 2 == 1, r, &s, n <= 40 * dpw(r, 64));
        rec.sample(|| format!("{} digits, pattern {}, radix {}: flag combinations x 8 widths relative to the printed length", n, p, r));
    });
    if sweep_hits(ctx, "flags.large", "ref-selfcheck-failed") != 0 {
        ctx.machinery("reference self-check failed inside flags.large");
    }
    ctx.require_classes("flags.large", &["pad:nowidth", "pad:fits", "pad:zero", "pad:default", "pad:left", "pad:center", "pad:right", "long:large:dc1", "long:large:dc2", "long:large:dc3"]);

    // ------------------------------------------------------------------ (c) strings
    let l: u32 = ctx.pick(5, 6);
    ctx.bound("string_alphabet", serde_json::json!(SIGMA.iter().collect::<String>()));
    ctx.bound("string_max_len", l);
    let total = count_strings(SIGMA.len() as u64, l);
    ctx.sweep("parse.strings", total, |i, rec| {
        let s = nth_string(i, &SIGMA);
        strings_case(rec, &s);
        rec.sample(|| format!("{:?} through from_str_radix(2,8,10,16,36), FromStr, from_str_with_radix_prefix", s));
    });
    ctx.require_classes("parse.strings", &["accept", "accept:negative", "accept:underscore-separated", "reject:empty", "reject:invalid-char", "prefix-recognised"]);
    let lp: u32 = ctx.pick(5, 6);
    ctx.bound("prefix_alphabet", serde_json::json!(SIGMA_PREFIX.iter().collect::<String>()));
    let totalp = count_strings(SIGMA_PREFIX.len() as u64, lp);
    ctx.sweep("parse.prefix-strings", totalp, |i, rec| {
        let s = nth_string(i, &SIGMA_PREFIX);
        prefix_strings_case(rec, &s);
        rec.sample(|| format!("{:?} through from_str_with_radix_prefix / _default(16, 36)", s));
    });
    ctx.require_classes("parse.prefix-strings", &["accept", "accept:negative", "accept:underscore-separated", "reject:empty", "reject:invalid-char", "prefix-recognised"]);

    // ------------------------------------------------------------------ documented radix range
    let bad = [0u32, 1, 37, 64, u32::MAX];
    ctx.sweep("radix.invalid", bad.len() as u64, |i, rec| {
        let r = bad[i as usize];
        let class = "radix-outside-2..=36";
        for s in ["1", "", "zz", "-1"] {
            expect_eq(rec, P, "UBig::from_str_radix", class, guard(|| UBig::from_str_radix(s, r).map(|x| u_to_ref(&x))), &Err(ParseError::UnsupportedRadix), || format!("UBig::from_str_radix({:?}, {})", s, r));
            expect_eq(rec, P, "IBig::from_str_radix", class, guard(|| IBig::from_str_radix(s, r).map(|x| i_to_ref(&x))), &Err(ParseError::UnsupportedRadix), || format!("IBig::from_str_radix({:?}, {})", s, r));
        }
        let (u, iv) = (UBig::from(5u8), IBig::from(-5));
        expect_panic(rec, P, "UBig::in_radix", class, guard(|| format!("{}", u.in_radix(r))), || format!("5.in_radix({})", r));
        expect_panic(rec, P, "IBig::in_radix", class, guard(|| format!("{}", iv.in_radix(r))), || format!("(-5).in_radix({})", r));
        rec.hit("invalid-radix");
        rec.nontrivial();
    });
    ctx.require_classes("radix.invalid", &["invalid-radix"]);

    // ------------------------------------------------------------------ (d) bytes
    let kmax: u64 = ctx.pick(40, 80);
    ctx.bound("byte_boundary_k_max", kmax);
    let mut bmags: BTreeSet<BigUint> = BTreeSet::new();
    for k in 1..=kmax {
        for e in [8 * k, 8 * k - 1] {
            bmags.insert(pow2(e) - 1u32);
            bmags.insert(pow2(e));
            bmags.insert(pow2(e) + 1u32);
        }
    }
    for m in i3_mags() {
        bmags.insert(m);
    }
    for s in shapes(&ctx.pick(vec![3, 4, 5, 17], vec![3, 4, 5, 6, 9, 17, 33, 65]), &PATTERNS, seed) {
        bmags.insert(s.v);
    }
    let bvals = signed(&bmags.into_iter().collect::<Vec<_>>());
    let nb = bvals.len() as u64;
    ctx.bound("byte_values", nb);
    let bvr = &bvals;
    ctx.sweep("bytes.values", nb, |i, rec| {
        bytes_value_case(rec, &bvr[i as usize]);
        rec.sample(|| format!("{} to/from le/be bytes", hex(&bvr[i as usize])));
    });
    ctx.require_classes("bytes.values", &["negative", "negative-power-of-two", "signed:minimal-length", "unsigned:minimal-length"]);

    let ball: u32 = ctx.pick(2, 3);
    ctx.bound("all_byte_strings_max_len", ball);
    let nall = count_strings(256, ball);
    ctx.sweep("bytes.from.all", nall, |i, rec| {
        // i-th byte string, shortest first
        let (mut i, mut len, mut block) = (i, 0usize, 1u64);
        while i >= block {
            i -= block;
            block *= 256;
            len += 1;
        }
        let mut le = vec![0u8; len];
        for b in le.iter_mut() {
            *b = (i % 256) as u8;
            i /= 256;
        }
        bytes_from_case(rec, &le);
        rec.sample(|| format!("from_le/be_bytes({})", show_bytes(&le)));
    });
    ctx.require_classes("bytes.from.all", &["decodes-negative", "non-minimal-input"]);
    let slen: usize = ctx.pick(33, 66);
    ctx.bound("structured_byte_strings_max_len", slen);
    let nstruct = ((slen + 1) * BYTE_PATTERNS.len()) as u64;
    ctx.sweep("bytes.from.structured", nstruct, |i, rec| {
        let (len, pat) = ((i as usize) / BYTE_PATTERNS.len(), BYTE_PATTERNS[(i as usize) % BYTE_PATTERNS.len()]);
        let le = byte_pattern(len, pat, seed);
        bytes_from_case(rec, &le);
        rec.sample(|| format!("{} bytes, pattern {}: {}", len, pat, show_bytes(&le)));
    });
    ctx.require_classes("bytes.from.structured", &["decodes-negative", "non-minimal-input"]);

    // ------------------------------------------------------------------ (e) chunks
    let cbits: Vec<usize> = ctx.pick(vec![1, 7, 8, 63, 64, 65, 100, 127, 128, 129, 192, 200], vec![1, 2, 3, 7, 8, 31, 32, 33, 63, 64, 65, 96, 100, 127, 128, 129, 191, 192, 193, 200, 256, 320, 1000]);
    ctx.bound("chunk_bits", serde_json::json!(cbits));
    let mut cmags: Vec<BigUint> = i3_mags();
    for s in shapes(&ctx.pick(vec![1, 2, 3, 4, 5], vec![1, 2, 3, 4, 5, 6, 7, 8, 9]), &PATTERNS, seed) {
        cmags.push(s.v);
    }
    let (nc, ncb) = (cmags.len() as u64, cbits.len() as u64);
    ctx.bound("chunk_values", nc);
    let (cmr, cbr) = (&cmags, &cbits);
    ctx.sweep("chunks.roundtrip", nc * ncb, |i, rec| {
        let (m, b) = (&cmr[(i / ncb) as usize], cbr[(i % ncb) as usize]);
        chunks_case(rec, m, b);
        rec.sample(|| format!("{}.to_chunks({}) and back", hexu(m), b));
    });
    ctx.require_classes("chunks.roundtrip", &["multi-chunk", "single-chunk", "word-aligned"]);
    ctx.sweep("chunks.sum", 729 * ncb, |i, rec| {
        let b = cbr[(i % ncb) as usize];
        let pool: [BigUint; 9] = [BigUint::zero(), BigUint::one(), pow2(b as u64) - 1u32, pow2(b as u64), pow2(b as u64 + 3) + 5u32, BigUint::from(u64::MAX), pow2(64), pow2(130) + 1u32, shape(3, "lcgA", seed)];
        let t = (i / ncb) as usize;
        let cs = [&pool[t / 81], &pool[(t / 9) % 9], &pool[t % 9]];
        from_chunks_case(rec, &cs, b);
        rec.sample(|| format!("from_chunks of 3 chunks, chunk_bits {}", b));
    });
    ctx.require_classes("chunks.sum", &["chunks-fit", "chunks-overlap", "inverse-other-direction"]);
    ctx.sweep("chunks.zero-bits", 4, |i, rec| {
        let v = [UBig::ZERO, UBig::ONE, UBig::from(u64::MAX), ref_to_u(&pow2(200))][i as usize].clone();
        // "Panics if chunk_bits is zero" (both functions); the library raises it with assert!, so any
        // panic is the documented one here
        rec.step();
        if let Ok(c) = guard(|| v.to_chunks(0).to_vec()) {
            rec.fail(format!("{}|UBig::to_chunks|missing-panic|chunk_bits=0", P), format!("{}.to_chunks(0)", hexu(&u_to_ref(&v))), format!("returned {} chunks", c.len()), "panic (documented: chunk_bits is zero)");
        }
        let cs = [v.clone(), v.clone()];
        rec.step();
        if let Ok(x) = guard(|| UBig::from_chunks(cs.iter(), 0)) {
            let h = hexu(&u_to_ref(&v));
            rec.fail(format!("{}|UBig::from_chunks|missing-panic|chunk_bits=0", P), format!("from_chunks([{}, {}], 0)", h, h), format!("returned {}", hexu(&u_to_ref(&x))), "panic (documented: chunk_bits is zero)");
        }
        rec.hit("documented-panic");
        rec.nontrivial();
    });
}
