//! C09 — bit operations follow infinite two's-complement semantics.
//! Oracle: num_bigint::BigInt (two's complement & | ^ !, floor >>), cross-checked against i128.

use crate::core::{guard, Ctx, Rec};
use crate::h::*;
use crate::uni::*;
use dashu_base::{BitTest, PowerOfTwo};
use dashu_int::{IBig, UBig};
use num_bigint::{BigInt, BigUint, Sign as NSign};
use num_traits::{One, Signed, ToPrimitive, Zero};

const P: &str = "C09";

fn neg(x: &BigInt) -> bool {
    x.sign() == NSign::Minus
}

fn binops(rec: &mut Rec, a: &BigInt, b: &BigInt) {
    let class = format!("{}{}x{}{}", if neg(a) { "-" } else { "+" }, size_class(word_len(a.magnitude())), if neg(b) { "-" } else { "+" }, size_class(word_len(b.magnitude())));
    let class = class.as_str();
    let (ia, ib) = (ref_to_i(a), ref_to_i(b));
    let (and, or, xor) = (a & b, a | b, a ^ b);
    let c = |op: &'static str| move || format!("{} {} {}", hex(a), op, hex(b));
    expect_i(rec, P, "IBig::bitand", class, guard(|| &ia & &ib), &and, c("&"));
    expect_i(rec, P, "IBig::bitor", class, guard(|| &ia | &ib), &or, c("|"));
    expect_i(rec, P, "IBig::bitxor", class, guard(|| &ia ^ &ib), &xor, c("^"));
    expect_i(rec, P, "IBig::bitand(val,val)", class, guard(|| ia.clone() & ib.clone()), &and, c("&"));
    expect_i(rec, P, "IBig::bitor(val,ref)", class, guard(|| ia.clone() | &ib), &or, c("|"));
    expect_i(rec, P, "IBig::bitxor(ref,val)", class, guard(|| &ia ^ ib.clone()), &xor, c("^"));
    expect_i(rec, P, "IBig::bitand(val,ref)", class, guard(|| ia.clone() & &ib), &and, c("&"));
    expect_i(rec, P, "IBig::bitand(ref,val)", class, guard(|| &ia & ib.clone()), &and, c("&"));
    expect_i(rec, P, "IBig::bitor(ref,val)", class, guard(|| &ia | ib.clone()), &or, c("|"));
    expect_i(rec, P, "IBig::bitor(val,val)", class, guard(|| ia.clone() | ib.clone()), &or, c("|"));
    expect_i(rec, P, "IBig::bitxor(val,ref)", class, guard(|| ia.clone() ^ &ib), &xor, c("^"));
    expect_i(rec, P, "IBig::bitxor(val,val)", class, guard(|| ia.clone() ^ ib.clone()), &xor, c("^"));
    expect_i(rec, P, "IBig::bitand_assign", class, guard(|| { let mut t = ia.clone(); t &= &ib; t }), &and, c("&="));
    expect_i(rec, P, "IBig::bitor_assign", class, guard(|| { let mut t = ia.clone(); t |= ib.clone(); t }), &or, c("|="));
    expect_i(rec, P, "IBig::bitxor_assign", class, guard(|| { let mut t = ia.clone(); t ^= &ib; t }), &xor, c("^="));
    if !neg(a) {
        let ua = ref_to_u(a.magnitude());
        // mixed: UBig & IBig -> UBig, | ^ -> IBig
        expect_u(rec, P, "UBig&IBig", class, guard(|| &ua & &ib), and.magnitude(), c("&"));
        expect_i(rec, P, "UBig|IBig", class, guard(|| &ua | &ib), &or, c("|"));
        expect_i(rec, P, "UBig^IBig", class, guard(|| &ua ^ &ib), &xor, c("^"));
        expect_u(rec, P, "IBig&UBig", class, guard(|| &ib & &ua), and.magnitude(), c("(rev)&"));
        expect_i(rec, P, "IBig|UBig", class, guard(|| ib.clone() | ua.clone()), &or, c("(rev)|"));
        expect_i(rec, P, "IBig^UBig", class, guard(|| &ib ^ &ua), &xor, c("(rev)^"));
        if !neg(b) {
            let ub = ref_to_u(b.magnitude());
            expect_u(rec, P, "UBig::bitand", class, guard(|| &ua & &ub), and.magnitude(), c("&"));
            expect_u(rec, P, "UBig::bitor", class, guard(|| &ua | &ub), or.magnitude(), c("|"));
            expect_u(rec, P, "UBig::bitxor", class, guard(|| &ua ^ &ub), xor.magnitude(), c("^"));
            expect_u(rec, P, "UBig::bitand(val,val)", class, guard(|| ua.clone() & ub.clone()), and.magnitude(), c("&"));
            expect_u(rec, P, "UBig::bitor(val,val)", class, guard(|| ua.clone() | ub.clone()), or.magnitude(), c("|"));
            expect_u(rec, P, "UBig::bitxor(val,val)", class, guard(|| ua.clone() ^ ub.clone()), xor.magnitude(), c("^"));
            expect_u(rec, P, "UBig::bitand(val,ref)", class, guard(|| ua.clone() & &ub), and.magnitude(), c("&"));
            expect_u(rec, P, "UBig::bitand(ref,val)", class, guard(|| &ua & ub.clone()), and.magnitude(), c("&"));
            expect_u(rec, P, "UBig::bitor(val,ref)", class, guard(|| ua.clone() | &ub), or.magnitude(), c("|"));
            expect_u(rec, P, "UBig::bitor(ref,val)", class, guard(|| &ua | ub.clone()), or.magnitude(), c("|"));
            expect_u(rec, P, "UBig::bitxor(val,ref)", class, guard(|| ua.clone() ^ &ub), xor.magnitude(), c("^"));
            expect_u(rec, P, "UBig::bitxor(ref,val)", class, guard(|| &ua ^ ub.clone()), xor.magnitude(), c("^"));
            expect_u(rec, P, "UBig::bitand_assign", class, guard(|| { let mut t = ua.clone(); t &= &ub; t }), and.magnitude(), c("&="));
            expect_u(rec, P, "UBig::bitor_assign", class, guard(|| { let mut t = ua.clone(); t |= &ub; t }), or.magnitude(), c("|="));
            expect_u(rec, P, "UBig::bitxor_assign", class, guard(|| { let mut t = ua.clone(); t ^= &ub; t }), xor.magnitude(), c("^="));
        }
    }
    // primitive forms
    if let Some(pb) = b.to_i64() {
        expect_i(rec, P, "IBig&i64", class, guard(|| &ia & pb), &and, c("&"));
        expect_i(rec, P, "IBig|i64", class, guard(|| &ia | pb), &or, c("|"));
        expect_i(rec, P, "i64^IBig", class, guard(|| pb ^ &ia), &xor, c("^"));
    }
    if let Some(pb) = b.to_i128() {
        expect_i(rec, P, "IBig^i128", class, guard(|| &ia ^ pb), &xor, c("^"));
        expect_i(rec, P, "IBig&=i128", class, guard(|| { let mut t = ia.clone(); t &= pb; t }), &and, c("&="));
    }
    if let Some(pb) = b.to_u64() {
        expect_eq(rec, P, "IBig&u64", class, guard(|| BigInt::from(&ia & pb)), &and, c("&"));
        expect_i(rec, P, "IBig|u64", class, guard(|| &ia | pb), &or, c("|"));
        expect_i(rec, P, "IBig^u64", class, guard(|| &ia ^ pb), &xor, c("^"));
        if !neg(a) {
            let ua = ref_to_u(a.magnitude());
            expect_eq(rec, P, "UBig&u64", class, guard(|| BigInt::from(&ua & pb)), &and, c("&"));
            expect_u(rec, P, "UBig|u64", class, guard(|| &ua | pb), or.magnitude(), c("|"));
            expect_u(rec, P, "u64^UBig", class, guard(|| pb ^ &ua), xor.magnitude(), c("^"));
        }
    }
    if let Some(pb) = b.to_u8() {
        expect_eq(rec, P, "IBig&u8", class, guard(|| BigInt::from(&ia & pb)), &and, c("&"));
    }
    if neg(a) && neg(b) {
        rec.hit("neg&neg");
    }
    if neg(a) != neg(b) {
        rec.hit("mixed-sign");
    }
    if !(a.abs() <= BigInt::one() && b.abs() <= BigInt::one()) {
        rec.nontrivial();
    }
}

fn unary(rec: &mut Rec, a: &BigInt) {
    let class = format!("{}{}", if neg(a) { "-" } else { "+" }, size_class(word_len(a.magnitude())));
    let class = class.as_str();
    let ia = ref_to_i(a);
    let c = |op: &'static str| move || format!("{}({})", op, hex(a));
    expect_i(rec, P, "IBig::not", class, guard(|| !&ia), &!a, c("!"));
    expect_i(rec, P, "IBig::not(val)", class, guard(|| !ia.clone()), &!a, c("!"));
    let mag = a.magnitude();
    // documented: bit_len of a negative number = floor(log2 |x|) + 1
    expect_eq(rec, P, "IBig::bit_len", class, guard(|| ia.bit_len() as u64), &mag.bits(), c("bit_len"));
    let tz = if a.is_zero() { None } else { Some(a.trailing_zeros().unwrap() as usize) };
    expect_eq(rec, P, "IBig::trailing_zeros", class, guard(|| ia.trailing_zeros()), &tz, c("trailing_zeros"));
    // trailing ones of x = trailing zeros of !x (two's complement); -1 -> None
    let nota = !a;
    let to = if nota.is_zero() { None } else { Some(nota.trailing_zeros().unwrap() as usize) };
    expect_eq(rec, P, "IBig::trailing_ones", class, guard(|| ia.trailing_ones()), &to, c("trailing_ones"));
    if !neg(a) {
        let ua = ref_to_u(mag);
        expect_eq(rec, P, "UBig::bit_len", class, guard(|| ua.bit_len() as u64), &mag.bits(), c("bit_len"));
        expect_eq(rec, P, "UBig::trailing_zeros", class, guard(|| ua.trailing_zeros()), &tz, c("trailing_zeros"));
        expect_eq(rec, P, "UBig::trailing_ones", class, guard(|| ua.trailing_ones()), &to, c("trailing_ones"));
        expect_eq(rec, P, "UBig::count_ones", class, guard(|| ua.count_ones() as u64), &mag.count_ones(), c("count_ones"));
        let cz = if mag.is_zero() { None } else { Some((mag.bits() - mag.count_ones()) as usize) };
        expect_eq(rec, P, "UBig::count_zeros", class, guard(|| ua.count_zeros()), &cz, c("count_zeros"));
        let ispow = mag.count_ones() == 1;
        expect_eq(rec, P, "UBig::is_power_of_two", class, guard(|| ua.is_power_of_two()), &ispow, c("is_power_of_two"));
        let npow = if mag.is_zero() { BigUint::one() } else if ispow { mag.clone() } else { BigUint::one() << mag.bits() };
        expect_u(rec, P, "UBig::next_power_of_two", class, guard(|| ua.clone().next_power_of_two()), &npow, c("next_power_of_two"));
    }
    if !a.is_zero() && !a.is_one() {
        rec.nontrivial();
    }
}

fn positional(rec: &mut Rec, a: &BigInt, n: usize) {
    let class = format!("{}{},n{}", if neg(a) { "-" } else { "+" }, size_class(word_len(a.magnitude())), match n {
        0 => "=0",
        1..=63 => "<64",
        64 => "=64",
        65..=127 => "<128",
        128 => "=128",
        _ => if n % 64 == 0 { ">128,aligned" } else { ">128" },
    });
    let class = class.as_str();
    let ia = ref_to_i(a);
    let c = |op: &'static str| move || format!("{} {} {}", hex(a), op, n);
    expect_eq(rec, P, "IBig::bit", class, guard(|| ia.bit(n)), &a.bit(n as u64), c("bit"));
    let shl = a << n;
    let shr = a >> n; // floor semantics in num_bigint
    expect_i(rec, P, "IBig::shl", class, guard(|| &ia << n), &shl, c("<<"));
    expect_i(rec, P, "IBig::shr", class, guard(|| &ia >> n), &shr, c(">>"));
    expect_i(rec, P, "IBig::shl(val)", class, guard(|| ia.clone() << n), &shl, c("<<"));
    expect_i(rec, P, "IBig::shr(val)", class, guard(|| ia.clone() >> n), &shr, c(">>"));
    expect_i(rec, P, "IBig::shl_assign", class, guard(|| { let mut t = ia.clone(); t <<= n; t }), &shl, c("<<="));
    expect_i(rec, P, "IBig::shr_assign", class, guard(|| { let mut t = ia.clone(); t >>= n; t }), &shr, c(">>="));
    if neg(a) && (a.magnitude() & ((BigUint::one() << n) - 1u32)) != BigUint::zero() {
        rec.hit("negative-shr-floor-correction");
    }
    if !neg(a) {
        let m = a.magnitude();
        let ua = ref_to_u(m);
        expect_eq(rec, P, "UBig::bit", class, guard(|| ua.bit(n)), &m.bit(n as u64), c("bit"));
        expect_u(rec, P, "UBig::shl", class, guard(|| &ua << n), &(m << n), c("<<"));
        expect_u(rec, P, "UBig::shr", class, guard(|| &ua >> n), &(m >> n), c(">>"));
        expect_u(rec, P, "UBig::shl(val)", class, guard(|| ua.clone() << n), &(m << n), c("<<"));
        expect_u(rec, P, "UBig::shr(val)", class, guard(|| ua.clone() >> n), &(m >> n), c(">>"));
        expect_u(rec, P, "UBig::shl_assign", class, guard(|| { let mut t = ua.clone(); t <<= n; t }), &(m << n), c("<<="));
        expect_u(rec, P, "UBig::shr_assign", class, guard(|| { let mut t = ua.clone(); t >>= n; t }), &(m >> n), c(">>="));
        let mut s = m.clone();
        s.set_bit(n as u64, true);
        expect_u(rec, P, "UBig::set_bit", class, guard(|| { let mut t = ua.clone(); t.set_bit(n); t }), &s, c("set_bit"));
        let mut cl = m.clone();
        cl.set_bit(n as u64, false);
        expect_u(rec, P, "UBig::clear_bit", class, guard(|| { let mut t = ua.clone(); t.clear_bit(n); t }), &cl, c("clear_bit"));
        let mask = (BigUint::one() << n) - 1u32;
        let (lo, hi) = (m & &mask, m >> n);
        expect_u(rec, P, "UBig::clear_high_bits", class, guard(|| { let mut t = ua.clone(); t.clear_high_bits(n); t }), &lo, c("clear_high_bits"));
        rec.step();
        match guard(|| ua.clone().split_bits(n)) {
            Ok((glo, ghi)) => {
                if u_to_ref(&glo) != lo || u_to_ref(&ghi) != hi {
                    rec.fail(format!("{}|UBig::split_bits|wrong-value|{}", P, class), c("split_bits")(), format!("lo={} hi={}", hexu(&u_to_ref(&glo)), hexu(&u_to_ref(&ghi))), format!("lo={} hi={}", hexu(&lo), hexu(&hi)));
                }
            }
            Err(p) => rec.fail(format!("{}|UBig::split_bits|panic|{}", P, class), c("split_bits")(), p, format!("lo={} hi={}", hexu(&lo), hexu(&hi))),
        }
    }
    rec.nontrivial();
}

pub fn run(ctx: &mut Ctx) {
    ctx.rule = "closed universe: all ordered pairs of signed I3 for & | ^ in every UBig/IBig/mixed/primitive form; every signed I3 value and shape value (1..5, 33 words x patterns) for the unary functions and at every bit position / shift count of a list covering 0, 1, word-1, word, word+1, multiples of the word size and positions beyond the operand; UBig::ones(n) for all n <= 300. non-trivial = operands not both in {0,+-1}".into();
    ctx.assume("num_bigint BigInt implements two's-complement & | ^ ! and floor >>; cross-checked against i128 arithmetic on a sub-universe in every run");
    // reference self-check against i128
    for &x in &[0i128, 1, -1, 5, -6, 0xFFFF, -0x1_0000, i64::MAX as i128, i64::MIN as i128, (1 << 70) + 3, -(1 << 70)] {
        for &y in &[0i128, 1, -1, 7, -8, 0xF0F0, -(0xF0F0), 1 << 64, -(1 << 64) - 1] {
            let (bx, by) = (BigInt::from(x), BigInt::from(y));
            if &bx & &by != BigInt::from(x & y) || &bx | &by != BigInt::from(x | y) || &bx ^ &by != BigInt::from(x ^ y) || !&bx != BigInt::from(!x) {
                ctx.machinery("reference self-check failed: BigInt bit ops vs i128");
            }
        }
        for s in [0usize, 1, 63, 64, 65, 100] {
            if BigInt::from(x) >> s != BigInt::from(x >> s) {
                ctx.machinery("reference self-check failed: BigInt >> vs i128");
            }
        }
    }
    let i3 = signed(&i3_mags());
    let n = i3.len() as u64;
    let i3r = &i3;
    ctx.sweep("closed.I3xI3.binops", n * n, |i, rec| {
        let (a, b) = (&i3r[(i / n) as usize], &i3r[(i % n) as usize]);
        binops(rec, a, b);
        rec.sample(|| format!("{} (&,|,^) {}", hex(a), hex(b)));
    });
    ctx.require_classes("closed.I3xI3.binops", &["neg&neg", "mixed-sign"]);

    // multi-word operands of different lengths (both on the heap): every length pair 1..=7, 33
    let blens: Vec<usize> = ctx.pick(vec![1, 2, 3, 4, 5, 7, 33], vec![1, 2, 3, 4, 5, 6, 7, 9, 17, 33, 34, 65]);
    let bpats: Vec<&'static str> = ctx.pick(vec!["ones", "top1", "alt", "sparse", "lcgA", "lcgSeed"], PATTERNS.to_vec());
    let bvals: Vec<BigInt> = shapes(&blens, &bpats, ctx.seed).into_iter().flat_map(|s| [BigInt::from(s.v.clone()), -BigInt::from(s.v)]).collect();
    let nbv = bvals.len() as u64;
    let bvr = &bvals;
    ctx.sweep("shape.binops", nbv * nbv, |i, rec| {
        let (a, b) = (&bvr[(i / nbv) as usize], &bvr[(i % nbv) as usize]);
        binops(rec, a, b);
        let (la, lb) = (word_len(a.magnitude()), word_len(b.magnitude()));
        if la >= 3 && lb >= 3 && la != lb {
            rec.hit("both-heap-different-lengths");
        }
        rec.sample(|| format!("{} (&,|,^) {}", hex(a), hex(b)));
    });
    ctx.require_classes("shape.binops", &["both-heap-different-lengths", "neg&neg", "mixed-sign"]);

    // values for unary/positional sweeps
    let mut vals = i3.clone();
    let lens: Vec<usize> = ctx.pick(vec![4, 5, 33], vec![4, 5, 6, 8, 17, 33, 65]);
    for s in shapes(&lens, &PATTERNS, ctx.seed) {
        vals.push(BigInt::from(s.v.clone()));
        vals.push(-BigInt::from(s.v));
    }
    // values with many low zero words / low ones
    for k in [64u64, 128, 192, 256] {
        for t in [1u64, 3, u64::MAX] {
            let v = BigInt::from(BigUint::from(t) << k);
            vals.push(-v.clone());
            vals.push(&v - BigInt::one());
            vals.push(-(&v - BigInt::one()));
            vals.push(v);
        }
    }
    let nv = vals.len() as u64;
    let vr = &vals;
    ctx.sweep("unary", nv, |i, rec| {
        unary(rec, &vr[i as usize]);
        rec.sample(|| format!("unary functions of {}", hex(&vr[i as usize])));
    });
    let mut pos: Vec<usize> = vec![0, 1, 2, 31, 32, 33, 63, 64, 65, 95, 96, 127, 128, 129, 130, 191, 192, 193, 255, 256, 257, 320, 640, 2111, 2112, 2113, 4160];
    if !ctx.quick() {
        pos.extend((3..31).step_by(3));
        pos.extend([66, 100, 126, 160, 190, 194, 254, 258, 319, 321, 383, 384, 385, 1000, 1087, 1088, 1089, 4159, 4161, 10000]);
        pos.sort();
        pos.dedup();
    }
    let np = pos.len() as u64;
    ctx.bound("positions", serde_json::json!(pos));
    let pr = &pos;
    ctx.sweep("positional", nv * np, |i, rec| {
        let (a, k) = (&vr[(i / np) as usize], pr[(i % np) as usize]);
        positional(rec, a, k);
        rec.sample(|| format!("{} at bit/shift {}", hex(a), k));
    });
    ctx.require_classes("positional", &["negative-shr-floor-correction"]);

    // astronomically large positions / right-shift counts (no allocation involved): the result is
    // all sign bits
    let huge: Vec<usize> = vec![1 << 32, (1 << 32) + 1, (1 << 32) + 64, (1 << 32) + 127, 1 << 40, (1usize << 63) - 1, 1 << 63, usize::MAX - 1, usize::MAX];
    let nh = huge.len() as u64;
    let hr = &huge;
    ctx.sweep("huge.positions", nv * nh, |i, rec| {
        let (a, k) = (&vr[(i / nh) as usize], hr[(i % nh) as usize]);
        let ia = ref_to_i(a);
        let class = format!("{}{},huge-count", if neg(a) { "-" } else { "+" }, size_class(word_len(a.magnitude())));
        let class = class.as_str();
        let c = |op: &'static str| move || format!("{} {} {}", hex(a), op, k);
        let fill = if neg(a) { -BigInt::one() } else { BigInt::zero() };
        expect_i(rec, P, "IBig::shr", class, guard(|| &ia >> k), &fill, c(">>"));
        expect_i(rec, P, "IBig::shr(val)", class, guard(|| ia.clone() >> k), &fill, c(">>"));
        expect_i(rec, P, "IBig::shr_assign", class, guard(|| { let mut t = ia.clone(); t >>= k; t }), &fill, c(">>="));
        expect_eq(rec, P, "IBig::bit", class, guard(|| ia.bit(k)), &neg(a), c("bit"));
        if !neg(a) {
            let ua = ref_to_u(a.magnitude());
            expect_u(rec, P, "UBig::shr", class, guard(|| &ua >> k), &BigUint::zero(), c(">>"));
            expect_u(rec, P, "UBig::shr(val)", class, guard(|| ua.clone() >> k), &BigUint::zero(), c(">>"));
            expect_u(rec, P, "UBig::shr_assign", class, guard(|| { let mut t = ua.clone(); t >>= k; t }), &BigUint::zero(), c(">>="));
            expect_eq(rec, P, "UBig::bit", class, guard(|| ua.bit(k)), &false, c("bit"));
            expect_u(rec, P, "UBig::clear_bit", class, guard(|| { let mut t = ua.clone(); t.clear_bit(k); t }), a.magnitude(), c("clear_bit"));
            expect_u(rec, P, "UBig::clear_high_bits", class, guard(|| { let mut t = ua.clone(); t.clear_high_bits(k); t }), a.magnitude(), c("clear_high_bits"));
            rec.step();
            match guard(|| ua.clone().split_bits(k)) {
                Ok((lo, hi)) => {
                    if u_to_ref(&lo) != *a.magnitude() || !hi.is_zero() {
                        rec.fail(format!("{}|UBig::split_bits|wrong-value|{}", P, class), c("split_bits")(), format!("lo={} hi={}", hexu(&u_to_ref(&lo)), hexu(&u_to_ref(&hi))), "lo = self, hi = 0");
                    }
                }
                Err(p) => rec.fail(format!("{}|UBig::split_bits|panic|{}", P, class), c("split_bits")(), p, "lo = self, hi = 0"),
            }
        }
        rec.nontrivial();
        rec.sample(|| format!("{} at position / right shift {}", hex(a), k));
    });

    ctx.sweep("ones", 301, |i, rec| {
        let n = i as usize;
        let want = (BigUint::one() << n) - 1u32;
        expect_u(rec, P, "UBig::ones", if n == 128 { "n=2words" } else if n % 64 == 0 { "aligned" } else { "other" }, guard(|| UBig::ones(n)), &want, || format!("ones({})", n));
        // and its use as an operand afterwards (representation must be canonical for what follows)
        if let Ok(o) = guard(|| UBig::ones(n)) {
            let w = ref_to_u(&want);
            expect_eq(rec, P, "UBig::ones then ==", "use", guard(|| o == w && w == o), &true, || format!("ones({}) == 2^{}-1", n, n));
            expect_eq(rec, P, "UBig::ones then cmp", "use", guard(|| o.cmp(&w)), &std::cmp::Ordering::Equal, || format!("ones({}).cmp(2^{}-1)", n, n));
            expect_u(rec, P, "UBig::ones then +1", "use", guard(|| o.clone() + UBig::ONE), &(&want + 1u32), || format!("ones({}) + 1", n));
            expect_u(rec, P, "UBig::ones then &", "use", guard(|| &o & &w), &want, || format!("ones({}) & same", n));
        }
        if n >= 2 {
            rec.nontrivial();
        }
        rec.sample(|| format!("ones({})", n));
    });
    let _ = IBig::ZERO;
}
