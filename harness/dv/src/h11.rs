//! refreal (DESIGN §3.5) — rigorous enclosures of exp, exp_m1, ln, ln_1p and x^y at rational
//! arguments.  Fixed-point interval arithmetic on `BigInt` with outward rounding, Taylor / atanh
//! series with explicit remainder bounds, results as pairs of exact fractions (lo <= value <= hi).
//! Nothing here uses dashu.  The enclosures keep *relative* accuracy for tiny and huge arguments:
//! small arguments are factored out exactly (expm1 x = x*T(x), atanh z = z*A(z^2)), negative
//! exponentials are exact reciprocals of the positive ones.

use crate::fref::{ExactReal, Rat};
use num_bigint::{BigInt, Sign as NSign};
use num_integer::Integer;
use num_traits::{One, Signed, Zero};
use std::cell::{Cell, RefCell};
use std::cmp::Ordering;
use std::collections::BTreeMap;

// ---------------------------------------------------------------------------------------------
// fixed-point intervals: value in [lo, hi] * 2^-w

fn floor_shr(x: &BigInt, w: u64) -> BigInt {
    if x.sign() != NSign::Minus {
        x >> w
    } else {
        // floor(-a / 2^w) = -ceil(a / 2^w)
        let a: BigInt = -x;
        let up: BigInt = (a + ((BigInt::one() << w) - 1)) >> w;
        -up
    }
}
fn ceil_shr(x: &BigInt, w: u64) -> BigInt {
    -floor_shr(&-x, w)
}
fn ceil_div(n: &BigInt, d: &BigInt) -> BigInt {
    -((-n).div_floor(d))
}

#[derive(Clone, Debug)]
struct Iv {
    lo: BigInt,
    hi: BigInt,
}

impl Iv {
    fn one(w: u64) -> Iv {
        let o = BigInt::one() << w;
        Iv { lo: o.clone(), hi: o }
    }
    /// q.d > 0
    fn from_rat(q: &Rat, w: u64) -> Iv {
        let n = &q.n << w;
        Iv { lo: n.div_floor(&q.d), hi: ceil_div(&n, &q.d) }
    }
    fn mul(&self, o: &Iv, w: u64) -> Iv {
        if self.lo.sign() != NSign::Minus && o.lo.sign() != NSign::Minus {
            return Iv { lo: floor_shr(&(&self.lo * &o.lo), w), hi: ceil_shr(&(&self.hi * &o.hi), w) };
        }
        let p = [&self.lo * &o.lo, &self.lo * &o.hi, &self.hi * &o.lo, &self.hi * &o.hi];
        let mn = p.iter().min().unwrap();
        let mx = p.iter().max().unwrap();
        Iv { lo: floor_shr(mn, w), hi: ceil_shr(mx, w) }
    }
    fn div_u(&self, k: u64) -> Iv {
        let k = BigInt::from(k);
        Iv { lo: self.lo.div_floor(&k), hi: ceil_div(&self.hi, &k) }
    }
    fn add(&self, o: &Iv) -> Iv {
        Iv { lo: &self.lo + &o.lo, hi: &self.hi + &o.hi }
    }
    fn mag(&self) -> BigInt {
        self.lo.abs().max(self.hi.abs())
    }
    fn widen(&mut self, by: &BigInt) {
        self.lo -= by;
        self.hi += by;
    }
}

/// unnormalised fraction (no gcd), d > 0
fn rq(n: BigInt, d: BigInt) -> Rat {
    if d.sign() == NSign::Minus {
        Rat { n: -n, d: -d }
    } else {
        Rat { n, d }
    }
}
fn rmul(a: &Rat, b: &Rat) -> Rat {
    rq(&a.n * &b.n, &a.d * &b.d)
}
fn radd(a: &Rat, b: &Rat) -> Rat {
    rq(&a.n * &b.d + &b.n * &a.d, &a.d * &b.d)
}
fn rint(i: i64) -> Rat {
    Rat { n: BigInt::from(i), d: BigInt::one() }
}
/// s * base^e without any gcd (Rat::new on a small numerator over a huge power is very slow)
pub fn scaled_raw(s: &BigInt, base: u32, e: i64) -> Rat {
    if e >= 0 {
        Rat { n: s * crate::fref::pow_b(base, e as u64), d: BigInt::one() }
    } else {
        Rat { n: s.clone(), d: crate::fref::pow_b(base, (-e) as u64) }
    }
}
/// floor(log_base |q|) for q != 0 (q need not be normalised); no gcd, no radix conversion
pub fn floor_log_raw(q: &Rat, base: u32) -> i64 {
    assert!(!q.n.is_zero());
    let a = Rat { n: q.n.abs(), d: q.d.clone() };
    let mut k = ((a.n.bits() as f64 - a.d.bits() as f64) / (base as f64).log2()).floor() as i64;
    let one = BigInt::one();
    loop {
        if a.cmp(&scaled_raw(&one, base, k)) == Ordering::Less {
            k -= 1;
        } else if a.cmp(&scaled_raw(&one, base, k + 1)) != Ordering::Less {
            k += 1;
        } else {
            return k;
        }
    }
}
/// interval [lo,hi] times the exact factor z
fn scale(lo: &Rat, hi: &Rat, z: &Rat) -> (Rat, Rat) {
    if z.is_neg() {
        (rmul(hi, z), rmul(lo, z))
    } else {
        (rmul(lo, z), rmul(hi, z))
    }
}

// ---------------------------------------------------------------------------------------------
// series

/// T(t) = sum_{i>=0} t^i/(i+1)!  (= (e^t - 1)/t), for |t| <= 1/2, any sign
fn series_t(t: &Iv, w: u64) -> Iv {
    let mut term = Iv::one(w); // i = 0
    let mut sum = term.clone();
    let unit = BigInt::one();
    let mut i: u64 = 1;
    loop {
        term = term.mul(t, w).div_u(i + 1);
        sum = sum.add(&term);
        if term.mag() <= unit {
            break;
        }
        i += 1;
    }
    // remainder after term N: sum_{i>N} |t|^i/(i+1)! <= 2 |t|^(N+1)/(N+2)! <= |term_N| for |t| <= 1/2
    let m = term.mag() + 1;
    sum.widen(&m);
    sum
}

/// A(u) = sum_{i>=0} u^i/(2i+1)  (= atanh(z)/z with u = z^2), for 0 <= u <= 1/2
fn series_a(u: &Iv, w: u64) -> Iv {
    let mut pow = Iv::one(w);
    let mut sum = pow.clone();
    let unit = BigInt::one();
    let mut i: u64 = 1;
    loop {
        pow = pow.mul(u, w);
        sum = sum.add(&pow.div_u(2 * i + 1));
        if pow.hi <= unit {
            break;
        }
        i += 1;
    }
    // remainder after term N: sum_{i>N} u^i/(2i+1) <= u^(N+1)/((2N+3)(1-u)) <= u^N  (u <= 1/2)
    sum.hi += &pow.hi + 1;
    sum
}

/// smallest k >= 0 guaranteeing |x| / 2^k < 1/2
fn halvings(ax: &Rat) -> u64 {
    let k = ax.n.bits() as i64 - ax.d.bits() as i64 + 2;
    k.max(0) as u64
}

/// enclosure of e^x, relative accuracy about 2^-w
pub fn exp_enc(x: &Rat, w: u64) -> (Rat, Rat) {
    if x.is_zero() {
        return (rint(1), rint(1));
    }
    let ax = x.abs();
    let k = halvings(&ax);
    let ww = w + k + 8;
    let t = Iv::from_rat(&rq(ax.n.clone(), &ax.d << k), ww);
    debug_assert!(t.hi <= (BigInt::one() << (ww - 1)));
    // e^t = 1 + t*T(t)
    let mut e = Iv::one(ww).add(&t.mul(&series_t(&t, ww), ww));
    for _ in 0..k {
        e = e.mul(&e, ww);
    }
    let scale = BigInt::one() << ww;
    if x.is_neg() {
        (rq(scale.clone(), e.hi), rq(scale, e.lo))
    } else {
        (rq(e.lo, scale.clone()), rq(e.hi, scale))
    }
}

/// enclosure of e^x - 1
pub fn expm1_enc(x: &Rat, w: u64) -> (Rat, Rat) {
    if x.is_zero() {
        return (rint(0), rint(0));
    }
    let ax = x.abs();
    if &ax.n * 2 <= ax.d {
        // |x| <= 1/2: x * T(x) keeps the relative accuracy for tiny x
        let t = Iv::from_rat(x, w);
        let s = series_t(&t, w);
        let sc = BigInt::one() << w;
        return scale(&rq(s.lo, sc.clone()), &rq(s.hi, sc), x);
    }
    let (lo, hi) = exp_enc(x, w + 4);
    (radd(&lo, &rint(-1)), radd(&hi, &rint(-1)))
}

thread_local! {
    static LN2: RefCell<BTreeMap<u64, (Rat, Rat)>> = const { RefCell::new(BTreeMap::new()) };
}

/// 2*z*A(z^2) = 2 atanh(z) = ln((1+z)/(1-z)), |z| <= 1/3
fn two_atanh(z: &Rat, w: u64) -> (Rat, Rat) {
    if z.is_zero() {
        return (rint(0), rint(0));
    }
    let u = Iv::from_rat(&rmul(z, z), w);
    let a = series_a(&u, w);
    let sc = BigInt::one() << w;
    let z2 = rq(&z.n * 2, z.d.clone());
    scale(&rq(a.lo, sc.clone()), &rq(a.hi, sc), &z2)
}

pub fn ln2_enc(w: u64) -> (Rat, Rat) {
    LN2.with(|m| {
        if let Some(v) = m.borrow().get(&w) {
            return v.clone();
        }
        let v = two_atanh(&Rat::new(BigInt::one(), BigInt::from(3)), w);
        m.borrow_mut().insert(w, v.clone());
        v
    })
}

/// enclosure of ln x, x > 0; absolute accuracy about 2^-w * max(1, |ln x|), relative accuracy
/// about 2^-w when x is in [3/4, 3/2) (no cancellation: x = m * 2^s with m in [3/4, 3/2))
pub fn ln_enc(x: &Rat, w: u64) -> (Rat, Rat) {
    assert!(x.sgn() > 0, "ln_enc of a non-positive number");
    if x.n == x.d {
        return (rint(0), rint(0));
    }
    let mut s = x.n.bits() as i64 - x.d.bits() as i64;
    let three = BigInt::from(3);
    let m = loop {
        let m = if s >= 0 { rq(x.n.clone(), &x.d << (s as u64)) } else { rq(&x.n << ((-s) as u64), x.d.clone()) };
        // m >= 3/2 ?  m < 3/4 ?
        if &m.n * 2 >= &m.d * &three {
            s += 1;
        } else if &m.n * 4 < &m.d * &three {
            s -= 1;
        } else {
            break m;
        }
    };
    let z = Rat::new(&m.n - &m.d, &m.n + &m.d); // |z| <= 1/5
    let ww = w + 8 + (s.unsigned_abs().max(1)).ilog2() as u64;
    let (mlo, mhi) = two_atanh(&z, ww);
    if s == 0 {
        return (mlo, mhi);
    }
    let (l2lo, l2hi) = ln2_enc(ww);
    let (slo, shi) = scale(&l2lo, &l2hi, &rint(s));
    (radd(&mlo, &slo), radd(&mhi, &shi))
}

pub fn ln1p_enc(x: &Rat, w: u64) -> (Rat, Rat) {
    ln_enc(&x.add(&Rat::from_i(1)), w)
}

/// enclosure of x^y = exp(y ln x), x > 0
pub fn pow_enc(x: &Rat, y: &Rat, w: u64) -> (Rat, Rat) {
    let extra = y.n.bits().saturating_sub(y.d.bits()) + 12;
    let (llo, lhi) = ln_enc(x, w + extra);
    let (plo, phi) = scale(&llo, &lhi, y);
    let lo = exp_enc(&plo, w + 4).0;
    let hi = exp_enc(&phi, w + 4).1;
    (lo, hi)
}

// ---------------------------------------------------------------------------------------------
// exact real numbers defined by a function and rational arguments

#[derive(Clone, Copy, PartialEq, Eq, Debug)]
pub enum Func {
    Exp,
    Expm1,
    Ln,
    Ln1p,
    Pow,
}
impl Func {
    pub fn name(self) -> &'static str {
        match self {
            Func::Exp => "exp",
            Func::Expm1 => "exp_m1",
            Func::Ln => "ln",
            Func::Ln1p => "ln_1p",
            Func::Pow => "powf",
        }
    }
}

/// b-th root of a non-negative integer if it is a perfect power
fn exact_root(n: &BigInt, b: u32) -> Option<BigInt> {
    let r = n.nth_root(b);
    if num_traits::Pow::pow(r.clone(), b) == *n {
        Some(r)
    } else {
        None
    }
}

/// x^y when it is rational (x > 0 rational, y rational): y = a/b reduced, x a perfect b-th power
pub fn rational_power(x: &Rat, y: &Rat) -> Option<Rat> {
    let y = Rat::new(y.n.clone(), y.d.clone());
    let x = Rat::new(x.n.clone(), x.d.clone());
    let a = i64::try_from(&y.n).ok()?;
    if y.d.is_one() {
        return Some(x.powi(a));
    }
    if x.n == x.d {
        return Some(Rat::from_i(1));
    }
    let b = u32::try_from(&y.d).ok()?;
    let rn = exact_root(&x.n, b)?;
    let rd = exact_root(&x.d, b)?;
    Some(Rat::new(rn, rd).powi(a))
}

pub const MAX_LEVEL: usize = 6;

/// f(x) (or x^y) as an exact real: either a known rational or a transcendental / irrational value
/// given by enclosures that are refined on demand (working precision w0 * 2^level bits)
pub struct Real {
    pub f: Func,
    pub x: Rat,
    pub y: Rat,
    exact: Option<Rat>,
    w0: u64,
    levels: RefCell<Vec<(Rat, Rat)>>,
    undecided: Cell<bool>,
    deepest: Cell<usize>,
    flog: Cell<Option<(u32, i64)>>,
    /// Some((B, k)): the real stands for f(x) / B^k (huge arguments of exp: the value itself has
    /// billions of digits, its quotient by a power of the base is enclosed instead; the judged
    /// result is scaled by the same power, ulps are invariant under that)
    pub scale: Option<(u32, i64)>,
}

impl Real {
    /// exp(x) / B^k (f = Exp) or (exp(x) - 1) / B^k (f = Expm1, x > 0), k = floor(x / ln B) +- 1
    pub fn exp_scaled(f: Func, x: Rat, base: u32, w0: u64) -> Real {
        assert!(matches!(f, Func::Exp) || (matches!(f, Func::Expm1) && x.sgn() > 0));
        let (_, l_hi) = ln_enc(&Rat::from_i(base as i64), 128 + x.n.bits());
        let k = x.div(&l_hi).floor();
        let k = i64::try_from(&k).expect("scaled exponent fits i64");
        Real { f, x, y: Rat::zero(), exact: None, w0, levels: RefCell::new(vec![]), undecided: Cell::new(false), deepest: Cell::new(0), flog: Cell::new(None), scale: Some((base, k)) }
    }
    fn scaled_enclosure(&self, base: u32, k: i64, w: u64) -> (Rat, Rat) {
        let w2 = w + self.x.n.bits() + 64;
        let (l_lo, l_hi) = ln_enc(&Rat::from_i(base as i64), w2);
        let kr = Rat::from_i(k);
        let (a, b) = (kr.mul(&l_lo), kr.mul(&l_hi));
        let (mn, mx) = if a.cmp(&b) == Ordering::Greater { (b, a) } else { (a, b) };
        let (t_lo, t_hi) = (self.x.sub(&mx), self.x.sub(&mn));
        let (lo, hi) = (exp_enc(&t_lo, w).0, exp_enc(&t_hi, w).1);
        if matches!(self.f, Func::Expm1) {
            // (e^x - 1) / B^k = e^t - B^-k, and 0 < B^-k < 2^-w
            assert!(k as u64 > 2 * w, "exp_m1 scaling needs a large k");
            (lo.sub(&rq(BigInt::one(), BigInt::one() << w)), hi)
        } else {
            (lo, hi)
        }
    }
}

impl Real {
    /// Exp/Expm1: any x; Ln: x > 0; Ln1p: x > -1; Pow: x > 0 (y any)
    pub fn new(f: Func, x: Rat, y: Rat, w0: u64) -> Real {
        let exact = match f {
            Func::Exp if x.is_zero() => Some(Rat::from_i(1)),
            Func::Expm1 | Func::Ln1p if x.is_zero() => Some(Rat::zero()),
            Func::Ln if x == Rat::from_i(1) => Some(Rat::zero()),
            Func::Pow => rational_power(&x, &y),
            _ => None,
        };
        Real { f, x, y, exact, w0, levels: RefCell::new(vec![]), undecided: Cell::new(false), deepest: Cell::new(0), flog: Cell::new(None), scale: None }
    }
    pub fn rational(q: Rat) -> Real {
        Real { f: Func::Pow, x: Rat::zero(), y: Rat::zero(), exact: Some(q), w0: 64, levels: RefCell::new(vec![]), undecided: Cell::new(false), deepest: Cell::new(0), flog: Cell::new(None), scale: None }
    }
    pub fn exact(&self) -> Option<&Rat> {
        self.exact.as_ref()
    }
    /// some comparison could not be decided within MAX_LEVEL refinements (machinery problem)
    pub fn undecided(&self) -> bool {
        self.undecided.get()
    }
    pub fn deepest_level(&self) -> usize {
        self.deepest.get()
    }
    pub fn enclosure(&self, level: usize) -> (Rat, Rat) {
        while self.levels.borrow().len() <= level {
            let l = self.levels.borrow().len();
            let w = self.w0 << l;
            let e = match self.f {
                _ if self.scale.is_some() => {
                    let (b, k) = self.scale.unwrap();
                    self.scaled_enclosure(b, k, w)
                }
                Func::Exp => exp_enc(&self.x, w),
                Func::Expm1 => expm1_enc(&self.x, w),
                Func::Ln => ln_enc(&self.x, w),
                Func::Ln1p => ln1p_enc(&self.x, w),
                Func::Pow => pow_enc(&self.x, &self.y, w),
            };
            self.levels.borrow_mut().push(e);
            if l > self.deepest.get() {
                self.deepest.set(l);
            }
        }
        self.levels.borrow()[level].clone()
    }
}

impl Real {
    fn floor_log_uncached(&self, base: u32) -> i64 {
        if let Some(e) = &self.exact {
            return floor_log_raw(e, base);
        }
        for l in 0..MAX_LEVEL {
            let (lo, hi) = self.enclosure(l);
            if lo.sgn() * hi.sgn() <= 0 {
                continue;
            }
            let (a, b) = (floor_log_raw(&lo, base), floor_log_raw(&hi, base));
            if a == b {
                return a;
            }
            // the enclosure straddles a power of the base: decide against it
            let k = a.max(b);
            let bk = scaled_raw(&BigInt::from(lo.sgn()), base, k);
            let c = self.cmp_rat(&bk);
            if self.undecided.get() {
                return k;
            }
            // |x| >= base^k  <=>  x >= bk (positive) or x <= bk (negative)
            let ge = if lo.sgn() > 0 { c != Ordering::Less } else { c != Ordering::Greater };
            return if ge { k } else { k - 1 };
        }
        self.undecided.set(true);
        0
    }
}

impl ExactReal for Real {
    fn cmp_rat(&self, q: &Rat) -> Ordering {
        if let Some(e) = &self.exact {
            return e.cmp(q);
        }
        for l in 0..MAX_LEVEL {
            let (lo, hi) = self.enclosure(l);
            if q.cmp(&lo) == Ordering::Less {
                return Ordering::Greater;
            }
            if q.cmp(&hi) == Ordering::Greater {
                return Ordering::Less;
            }
        }
        self.undecided.set(true);
        Ordering::Equal
    }
    fn floor_log(&self, base: u32) -> i64 {
        if let Some((b, k)) = self.flog.get() {
            if b == base {
                return k;
            }
        }
        let k = self.floor_log_uncached(base);
        if !self.undecided.get() {
            self.flog.set(Some((base, k)));
        }
        k
    }
    fn is_zero(&self) -> bool {
        match &self.exact {
            Some(e) => e.is_zero(),
            None => false,
        }
    }
    fn describe(&self) -> String {
        if let Some(e) = &self.exact {
            return e.show();
        }
        let (lo, hi) = self.enclosure(0);
        let mid = approx(&rq(&lo.n * &hi.d + &hi.n * &lo.d, &lo.d * &hi.d * 2));
        match self.f {
            Func::Pow => format!("({})^({}) ~ {}", self.x.show(), self.y.show(), mid),
            f if self.scale.is_some() => format!("{}({}) ~ {} * {}^{}", f.name(), self.x.show(), mid, self.scale.unwrap().0, self.scale.unwrap().1),
            f => format!("{}({}) ~ {}", f.name(), self.x.show(), mid),
        }
    }
}

/// decimal rendering of a fraction with ~25 significant digits (for messages only)
pub fn approx(q: &Rat) -> String {
    if q.is_zero() {
        return "0".into();
    }
    let e = floor_log_raw(q, 10);
    // q / 10^(e-24), truncated: 25 digits
    let m = if e - 24 >= 0 { &q.n / (&q.d * crate::fref::pow_b(10, (e - 24) as u64)) } else { (&q.n * crate::fref::pow_b(10, (24 - e) as u64)) / &q.d };
    let s = m.abs().to_string();
    format!("{}{}.{}e{}", if q.is_neg() { "-" } else { "" }, &s[..1], &s[1..], e)
}

/// f64 value of a fraction (for the self-check against libm only)
pub fn to_f64(q: &Rat) -> f64 {
    if q.is_zero() {
        return 0.0;
    }
    let e = floor_log_raw(q, 2);
    let m = if e - 60 >= 0 { &q.n / (&q.d << ((e - 60) as u64)) } else { (&q.n << ((60 - e) as u64)) / &q.d };
    let mf = m.to_string().parse::<f64>().unwrap();
    mf * 2f64.powi((e - 60) as i32)
}
