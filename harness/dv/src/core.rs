//! Exploration engine: sharded exhaustive sweeps over indexable universes, finding signatures,
//! known-finding matching, replay files, evidence (DESIGN §3.1, §3.3, §3.6).

use serde_json::{json, Value};
use std::collections::{BTreeMap, BTreeSet};
use std::io::{BufRead, Write};
use std::panic::{catch_unwind, AssertUnwindSafe};
use std::sync::atomic::{AtomicBool, AtomicU64, Ordering};
use std::sync::Mutex;
use std::time::{Duration, Instant};

/// root of the verification tree (evidence/, replays/, known_findings.jsonl); `./check` sets
/// DV_ROOT to its own directory so that a snapshot run writes into the snapshot
pub fn verif_root() -> String {
    std::env::var("DV_ROOT").unwrap_or_else(|_| "/verif".to_string())
}

#[derive(Clone, Copy, PartialEq, Eq, Debug)]
pub enum Tier {
    Quick,
    Thorough,
}

#[derive(Clone, Debug)]
pub enum Mode {
    Run,
    /// run only `sweep`, indices [lo, hi), single-threaded, results as JSON lines on stdout
    Worker { sweep: String, lo: u64, hi: u64, verbose: bool },
    /// re-execute one case of one sweep and print what happens
    Replay { sweep: String, index: u64, payload: Option<String> },
}

#[derive(Clone, Debug)]
pub struct Finding {
    pub sig: String,
    pub sweep: String,
    pub index: u64,
    pub payload: Option<String>,
    pub case: String,
    pub observed: String,
    pub expected: String,
}

/// Per-thread recorder handed to every case.
#[derive(Default)]
pub struct Rec {
    pub findings: Vec<Finding>,
    pub classes: BTreeMap<String, u64>,
    pub transitions: u64,
    pub validated: u64,
    pub nontrivial: u64,
    pub samples: Vec<String>,
    cur_sweep: String,
    cur_index: u64,
    cur_payload: Option<String>,
    replay_sweep: Option<String>,
    sample_every: u64,
}

impl Rec {
    pub fn new(sweep: &str) -> Self {
        Rec { cur_sweep: sweep.to_string(), sample_every: 0, ..Default::default() }
    }
    pub fn set_case(&mut self, index: u64, payload: Option<String>) {
        self.cur_index = index;
        self.cur_payload = payload;
        self.replay_sweep = None;
    }
    /// findings of the current case are replayed through sweep `sweep` with this payload
    /// (used by the history explorer: the payload is the operation path)
    pub fn replay_as(&mut self, sweep: &str, payload: String) {
        self.replay_sweep = Some(sweep.to_string());
        self.cur_payload = Some(payload);
    }
    /// names the running case (`class` goes into the signature of a hang / abort finding)
    pub fn label(&mut self, class: &str, text: &str) {
        if let Ok(mut l) = LABEL.lock() {
            *l = Some((class.to_string(), text.to_string()));
        }
        if ANNOUNCE.load(Ordering::Relaxed) {
            let so = std::io::stdout();
            let mut l = so.lock();
            let _ = writeln!(l, "{}", json!({"t":"label","class":class,"text":text}));
            let _ = l.flush();
        }
    }
    pub fn payload(&self) -> Option<&str> {
        self.cur_payload.as_deref()
    }
    #[inline]
    pub fn hit(&mut self, class: &str) {
        if let Some(c) = self.classes.get_mut(class) {
            *c += 1;
        } else {
            self.classes.insert(class.to_string(), 1);
        }
    }
    /// one operation applied and compared with the reference
    #[inline]
    pub fn step(&mut self) {
        self.transitions += 1;
        self.validated += 1;
    }
    #[inline]
    pub fn steps(&mut self, n: u64) {
        self.transitions += n;
        self.validated += n;
    }
    #[inline]
    pub fn nontrivial(&mut self) {
        self.nontrivial += 1;
    }
    pub fn wants_sample(&self) -> bool {
        self.samples.len() < 3 && self.sample_every != 0 && self.cur_index % self.sample_every == 0
    }
    pub fn sample(&mut self, s: impl FnOnce() -> String) {
        if self.wants_sample() {
            let t = s();
            self.samples.push(t);
        }
    }
    /// Report a violation of the property for the current case.
    pub fn fail(&mut self, sig: impl Into<String>, case: impl Into<String>, observed: impl Into<String>, expected: impl Into<String>) {
        let sig = sig.into();
        // keep the first (smallest) few cases of each signature per thread
        if self.findings.iter().filter(|f| f.sig == sig).count() >= 3 {
            self.hit(&format!("finding:{}", sig));
            return;
        }
        self.hit(&format!("finding:{}", sig));
        self.findings.push(Finding {
            sig,
            sweep: self.replay_sweep.clone().unwrap_or_else(|| self.cur_sweep.clone()),
            index: self.cur_index,
            payload: self.cur_payload.clone(),
            case: trunc(&case.into(), 1500),
            observed: trunc(&observed.into(), 1500),
            expected: trunc(&expected.into(), 1500),
        });
    }
}

pub fn trunc(s: &str, n: usize) -> String {
    if s.len() <= n {
        s.to_string()
    } else {
        let mut k = n / 2;
        while !s.is_char_boundary(k) {
            k -= 1;
        }
        let mut j = s.len() - n / 2;
        while !s.is_char_boundary(j) {
            j += 1;
        }
        format!("{}…[{} bytes]…{}", &s[..k], s.len(), &s[j..])
    }
}

// ---------------------------------------------------------------------------------------------
// panic capture

thread_local! {
    static LAST_PANIC: std::cell::RefCell<String> = const { std::cell::RefCell::new(String::new()) };
}

/// The case a thread is executing in-process through code that can end in a *non-unwinding*
/// panic (the standard library's checks of unsafe preconditions - `copy_nonoverlapping`,
/// `from_raw_parts`, `unchecked_*` - under debug assertions, or a panic inside a destructor during
/// unwinding).  Such a panic aborts the process, so `catch_unwind` never sees it; the panic hook
/// turns it into the verdict of the armed case instead of an engine crash.
pub struct FatalCase {
    pub sweep: String,
    pub payload: Option<String>,
    pub site: String,
    pub case: String,
}
thread_local! {
    static FATAL: std::cell::RefCell<Option<FatalCase>> = const { std::cell::RefCell::new(None) };
}
thread_local! {
    /// (sweep name, index + 1) of the case an in-process sweep thread is running (0 = none)
    static CUR_SWEEP: std::cell::RefCell<String> = const { std::cell::RefCell::new(String::new()) };
    static CUR_INDEX: std::cell::Cell<u64> = const { std::cell::Cell::new(0) };
}
static FATAL_INDEX: AtomicU64 = AtomicU64::new(0);
static RUNINFO: Mutex<Option<(String, Tier, u64, String, bool)>> = Mutex::new(None);

pub fn arm_fatal(c: FatalCase) {
    let _ = FATAL.try_with(|f| *f.borrow_mut() = Some(c));
}
pub fn disarm_fatal() {
    let _ = FATAL.try_with(|f| *f.borrow_mut() = None);
}

fn fatal_verdict(msg: &str) {
    let mut armed = FATAL.try_with(|f| f.borrow_mut().take()).ok().flatten();
    if armed.is_none() {
        // not armed by the case itself: the sweep runner's own record of the running case
        let idx = CUR_INDEX.try_with(|c| c.get()).unwrap_or(0);
        let name = CUR_SWEEP.try_with(|c| c.borrow().clone()).unwrap_or_default();
        if idx != 0 && !name.is_empty() {
            armed = Some(FatalCase { sweep: name.clone(), payload: None, site: name.clone(), case: format!("sweep {} index {}", name, idx - 1) });
            FATAL_INDEX.store(idx - 1, Ordering::Relaxed);
        }
    }
    let info = RUNINFO.lock().ok().and_then(|g| g.clone());
    let (Some(c), Some((prop, tier, seed, config, in_worker))) = (armed, info) else { return };
    if in_worker {
        return; // the parent of an isolated sweep reports the death of its child
    }
    let f = Finding {
        sig: format!("{}|{}|non-unwinding-panic", prop, c.site),
        sweep: c.sweep,
        index: FATAL_INDEX.load(Ordering::Relaxed),
        payload: c.payload,
        case: trunc(&c.case, 1500),
        observed: format!("process-aborting panic: {}", trunc(msg, 600)),
        expected: "no violated unsafe precondition / no panic inside a destructor".into(),
    };
    let path = write_replay(&prop, tier, seed, &config, &f);
    println!("VIOLATION property={} replay={}", prop, path);
    println!("  signature: {}\n  case: {}\n  observed: {}", f.sig, f.case, f.observed);
    eprintln!("non-unwinding panic in an in-process case; evidence not rewritten");
    let _ = std::io::stdout().flush();
    std::process::exit(1);
}

pub fn install_panic_hook() {
    std::panic::set_hook(Box::new(|info| {
        let msg = if let Some(s) = info.payload().downcast_ref::<&str>() {
            s.to_string()
        } else if let Some(s) = info.payload().downcast_ref::<String>() {
            s.clone()
        } else {
            "<non-string panic>".to_string()
        };
        let loc = info.location().map(|l| format!("{}:{}", l.file(), l.line())).unwrap_or_default();
        let _ = LAST_PANIC.try_with(|p| *p.borrow_mut() = format!("{} @ {}", msg, loc));
        // `PanicHookInfo::can_unwind` is unstable; the non-unwinding panics of the standard library
        // are recognised by their fixed messages
        if msg.starts_with("unsafe precondition(s) violated") || msg.contains("panic in a destructor during cleanup") || msg.contains("panic in a function that cannot unwind") {
            fatal_verdict(&format!("{} @ {}", msg, loc));
        }
    }));
}

/// Run `f`, returning Err(panic message @ location) if it panicked.
pub fn guard<T>(f: impl FnOnce() -> T) -> Result<T, String> {
    match catch_unwind(AssertUnwindSafe(f)) {
        Ok(v) => Ok(v),
        Err(_) => Err(LAST_PANIC.with(|p| p.borrow().clone())),
    }
}

/// Is this panic message one of the library's own debug assertions / overflow checks / index
/// or unwrap failures, i.e. never a *documented* panic?
pub fn is_internal_panic(msg: &str) -> bool {
    let m = msg;
    m.contains("assertion") || m.contains("attempt to") || m.contains("index out of")
        || m.contains("out of range") || m.contains("called `Option::unwrap()`")
        || m.contains("called `Result::unwrap()`") || m.contains("unreachable")
        || m.contains("slice") || m.contains("overflow when") || m.contains("capacity overflow")
        || m.contains("unwrap_err") || m.contains("range end") || m.contains("range start")
}

// ---------------------------------------------------------------------------------------------

pub struct SweepStat {
    pub name: String,
    pub cases: u64,
    pub done: u64,
    pub transitions: u64,
    pub validated: u64,
    pub nontrivial: u64,
    pub classes: BTreeMap<String, u64>,
    pub samples: Vec<String>,
    pub wall_s: f64,
    pub exhaustive: bool,
    pub states: u64,
    pub extra: BTreeMap<String, Value>,
}

pub struct Ctx {
    pub prop: &'static str,
    pub tier: Tier,
    pub seed: u64,
    pub mode: Mode,
    pub config: String,
    pub threads: usize,
    pub start: Instant,
    pub sweeps: Vec<SweepStat>,
    pub findings: Vec<Finding>,
    pub machinery: Vec<String>,
    pub assumptions: Vec<String>,
    pub rule: String,
    pub bounds: BTreeMap<String, Value>,
    pub case_horizon: Duration,
    pub budget: Duration,
    /// binary used for the children of isolated sweeps (default: this executable); C16/C19 point
    /// it at a build of the same program in another configuration
    pub worker_exe: Option<std::path::PathBuf>,
}

struct Watch {
    cur: Vec<(AtomicU64, AtomicU64)>, // (case index + 1 or 0, start ms)
}

impl Ctx {
    pub fn new(prop: &'static str, tier: Tier, seed: u64, mode: Mode) -> Self {
        let config = {
            let mut c = String::new();
            c += if cfg!(debug_assertions) { "mon" } else { "rel" };
            if dashu_int::Word::BITS == 32 {
                c += "+w32";
            }
            if !cfg!(feature = "dstd") {
                c += "+nostd";
            }
            c
        };
        let threads = std::env::var("DV_THREADS").ok().and_then(|s| s.parse().ok()).unwrap_or_else(|| {
            std::thread::available_parallelism().map(|n| n.get()).unwrap_or(8).min(16)
        });
        if let Ok(mut g) = RUNINFO.lock() {
            *g = Some((prop.to_string(), tier, seed, config.clone(), matches!(mode, Mode::Worker { .. })));
        }
        Ctx {
            prop,
            tier,
            seed,
            mode,
            config,
            threads,
            start: Instant::now(),
            sweeps: vec![],
            findings: vec![],
            machinery: vec![],
            assumptions: vec![],
            rule: String::new(),
            bounds: BTreeMap::new(),
            case_horizon: Duration::from_secs(if tier == Tier::Quick { 10 } else { 60 }),
            budget: Duration::from_secs(if tier == Tier::Quick { 600 } else { 6 * 3600 }),
            worker_exe: None,
        }
    }
    pub fn quick(&self) -> bool {
        self.tier == Tier::Quick
    }
    pub fn pick<T>(&self, q: T, t: T) -> T {
        if self.quick() {
            q
        } else {
            t
        }
    }
    pub fn machinery(&mut self, msg: impl Into<String>) {
        let m = msg.into();
        eprintln!("MACHINERY: {}", m);
        self.machinery.push(m);
    }
    pub fn bound(&mut self, k: &str, v: impl Into<Value>) {
        self.bounds.insert(k.to_string(), v.into());
    }
    pub fn assume(&mut self, s: &str) {
        self.assumptions.push(s.to_string());
    }

    /// Require that every listed outcome class was observed at least once in the named sweep
    /// (vacuity guard, DESIGN §3.1).  Only meaningful in Run mode.
    pub fn require_classes(&mut self, sweep: &str, classes: &[&str]) {
        if !matches!(self.mode, Mode::Run) {
            return;
        }
        let mut missing = vec![];
        if let Some(s) = self.sweeps.iter().find(|s| s.name == sweep) {
            for c in classes {
                if s.classes.get(*c).copied().unwrap_or(0) == 0 {
                    missing.push(c.to_string());
                }
            }
        } else {
            missing.push(format!("<sweep {} not run>", sweep));
        }
        if !missing.is_empty() {
            self.machinery(format!("vacuity: sweep {} never reached classes {:?}", sweep, missing));
        }
    }

    /// Exhaustively run `f(i, rec)` for every i in 0..n, in parallel, in index order per shard.
    /// `states` is the number of distinct states (operand tuples) the index space stands for.
    pub fn sweep<F>(&mut self, name: &str, n: u64, f: F)
    where
        F: Fn(u64, &mut Rec) + Sync,
    {
        self.sweep_opt(name, n, false, f)
    }

    /// Same, but every shard runs in a child process so that a hang, abort, stack overflow or
    /// allocation failure of one case is an *observation* (DESIGN §3.3).
    pub fn sweep_isolated<F>(&mut self, name: &str, n: u64, f: F)
    where
        F: Fn(u64, &mut Rec) + Sync,
    {
        self.sweep_opt(name, n, true, f)
    }

    fn sweep_opt<F>(&mut self, name: &str, n: u64, isolated: bool, f: F)
    where
        F: Fn(u64, &mut Rec) + Sync,
    {
        let t0 = Instant::now();
        match self.mode.clone() {
            Mode::Replay { sweep, index, payload } => {
                if sweep != name {
                    return;
                }
                let mut rec = Rec::new(name);
                rec.set_case(index, payload);
                println!("replaying sweep={} index={} config={}", name, index, self.config);
                let r = guard(|| f(index, &mut rec));
                if let Err(p) = r {
                    println!("case panicked outside the check's own guard: {}", p);
                    rec.fail(format!("{}|harness|escaped-panic", self.prop), format!("index {}", index), p, "no panic");
                }
                let faults = crate::alloc::take_faults();
                if faults != 0 {
                    println!("allocator monitor: {}", crate::alloc::fault_names(faults));
                }
                if rec.findings.is_empty() {
                    println!("REPLAY-OK: the case satisfies the property on this tree");
                }
                for fd in &rec.findings {
                    println!("REPLAY-VIOLATION signature={}\n  case: {}\n  observed: {}\n  expected: {}", fd.sig, fd.case, fd.observed, fd.expected);
                }
                self.findings.extend(rec.findings);
                return;
            }
            Mode::Worker { sweep, lo, hi, verbose } => {
                if sweep != name {
                    return;
                }
                self.run_worker(name, lo, hi.min(n), verbose, &f);
                return;
            }
            Mode::Run => {}
        }
        let mut stat = SweepStat {
            name: name.to_string(),
            cases: n,
            done: 0,
            transitions: 0,
            validated: 0,
            nontrivial: 0,
            classes: BTreeMap::new(),
            samples: vec![],
            wall_s: 0.0,
            exhaustive: true,
            states: n,
            extra: BTreeMap::new(),
        };
        if n == 0 {
            self.machinery(format!("sweep {} has an empty universe", name));
            self.sweeps.push(stat);
            return;
        }
        let recs = if isolated { self.run_isolated(name, n, &mut stat) } else { self.run_threads(name, n, &f, &mut stat) };
        for mut r in recs {
            stat.transitions += r.transitions;
            stat.validated += r.validated;
            stat.nontrivial += r.nontrivial;
            for (k, v) in r.classes {
                *stat.classes.entry(k).or_insert(0) += v;
            }
            if stat.samples.len() < 4 {
                stat.samples.append(&mut r.samples);
            }
            self.findings.append(&mut r.findings);
        }
        stat.samples.truncate(4);
        stat.wall_s = t0.elapsed().as_secs_f64();
        eprintln!(
            "[{}] sweep {:<28} cases={:<10} transitions={:<11} nontrivial={:<10} {:.1}s{}",
            self.prop,
            name,
            stat.done,
            stat.transitions,
            stat.nontrivial,
            stat.wall_s,
            if stat.exhaustive { "" } else { "  (CAPPED)" }
        );
        self.sweeps.push(stat);
    }

    fn run_threads<F>(&mut self, name: &str, n: u64, f: &F, stat: &mut SweepStat) -> Vec<Rec>
    where
        F: Fn(u64, &mut Rec) + Sync,
    {
        let threads = self.threads.max(1).min(n as usize).max(1);
        // interleaved chunks so that every thread sees small and large cases
        let chunk: u64 = ((n / (threads as u64 * 64)).max(1)).min(4096);
        let next = AtomicU64::new(0);
        let done = AtomicU64::new(0);
        let stop = AtomicBool::new(false);
        let watch = Watch { cur: (0..threads).map(|_| (AtomicU64::new(0), AtomicU64::new(0))).collect() };
        let start = Instant::now();
        let horizon = self.case_horizon;
        let deadline = self.start + self.budget;
        let sample_every = (n / 3).max(1) + (self.seed % 7);
        let out: Mutex<Vec<Rec>> = Mutex::new(vec![]);
        let hang: Mutex<Option<(u64, f64)>> = Mutex::new(None);
        let prop = self.prop;
        std::thread::scope(|s| {
            for t in 0..threads {
                let (next, done, stop, watch, out) = (&next, &done, &stop, &watch, &out);
                std::thread::Builder::new()
                    .stack_size(64 << 20)
                    .spawn_scoped(s, move || {
                        let mut rec = Rec::new(name);
                        rec.sample_every = sample_every;
                        CUR_SWEEP.with(|c| *c.borrow_mut() = name.to_string());
                        loop {
                            if stop.load(Ordering::Relaxed) {
                                break;
                            }
                            let lo = next.fetch_add(chunk, Ordering::Relaxed);
                            if lo >= n {
                                break;
                            }
                            let hi = (lo + chunk).min(n);
                            for i in lo..hi {
                                watch.cur[t].1.store(start.elapsed().as_millis() as u64, Ordering::Relaxed);
                                watch.cur[t].0.store(i + 1, Ordering::Relaxed);
                                rec.set_case(i, None);
                                CUR_INDEX.with(|c| c.set(i + 1));
                                if let Err(p) = guard(|| f(i, &mut rec)) {
                                    rec.fail(format!("{}|{}|escaped-panic|{}", prop, name, panic_class(&p)), format!("sweep {} index {}", name, i), p, "no panic outside documented preconditions");
                                }
                                let faults = crate::alloc::take_faults();
                                if faults != 0 {
                                    rec.fail(format!("{}|{}|memory|{}", prop, name, crate::alloc::fault_names(faults)), format!("sweep {} index {}", name, i), crate::alloc::fault_names(faults), "no allocator-monitor fault");
                                }
                            }
                            watch.cur[t].0.store(0, Ordering::Relaxed);
                            CUR_INDEX.with(|c| c.set(0));
                            done.fetch_add(hi - lo, Ordering::Relaxed);
                        }
                        watch.cur[t].0.store(0, Ordering::Relaxed);
                        out.lock().unwrap().push(rec);
                    })
                    .unwrap();
            }
            // watchdog (this thread)
            loop {
                std::thread::sleep(Duration::from_millis(50));
                let fin = done.load(Ordering::Relaxed) >= n || next.load(Ordering::Relaxed) >= n && watch.cur.iter().all(|c| c.0.load(Ordering::Relaxed) == 0);
                if fin {
                    break;
                }
                if stop.load(Ordering::Relaxed) && watch.cur.iter().all(|c| c.0.load(Ordering::Relaxed) == 0) {
                    // budget exhausted: the workers have left (reported as a capped sweep below)
                    std::thread::sleep(Duration::from_millis(200));
                    if watch.cur.iter().all(|c| c.0.load(Ordering::Relaxed) == 0) {
                        break;
                    }
                }
                let now = start.elapsed().as_millis() as u64;
                for c in &watch.cur {
                    let i = c.0.load(Ordering::Relaxed);
                    let t = c.1.load(Ordering::Relaxed);
                    if i != 0 && now.saturating_sub(t) > horizon.as_millis() as u64 {
                        // re-read to make sure it is the same case
                        if c.0.load(Ordering::Relaxed) == i && c.1.load(Ordering::Relaxed) == t {
                            *hang.lock().unwrap() = Some((i - 1, (now - t) as f64 / 1000.0));
                        }
                    }
                }
                if hang.lock().unwrap().is_some() {
                    break;
                }
                if Instant::now() > deadline {
                    stop.store(true, Ordering::Relaxed);
                }
            }
            if let Some((i, secs)) = *hang.lock().unwrap() {
                // A non-isolated case did not return within the horizon: report it and leave; the
                // stuck thread cannot be cancelled.
                let mut rec = Rec::new(name);
                rec.set_case(i, None);
                rec.fail(format!("{}|{}|hang", prop, name), format!("sweep {} index {}", name, i), format!("no return after {:.0}s", secs), "returns in bounded time");
                let f = rec.findings.pop().unwrap();
                let path = write_replay(prop, self.tier, self.seed, &self.config, &f);
                println!("VIOLATION property={} replay={}", prop, path);
                println!("  signature: {}\n  case: {}\n  observed: {}", f.sig, f.case, f.observed);
                eprintln!("hang in non-isolated sweep; evidence not rewritten");
                std::process::exit(1);
            }
        });
        stat.done = done.load(Ordering::Relaxed).min(n);
        if stat.done < n {
            stat.exhaustive = false;
            self.machinery(format!("sweep {} stopped by the wall-clock budget after {} of {} cases", name, stat.done, n));
        }
        out.into_inner().unwrap()
    }

    fn run_worker<F>(&mut self, name: &str, lo: u64, hi: u64, verbose: bool, f: &F)
    where
        F: Fn(u64, &mut Rec) + Sync,
    {
        // a worker is one of up to `threads` sibling processes: cap its memory so that a runaway case
        // ends in an allocation failure of this process (reported as that case's abort)
        crate::alloc::set_cap(3 << 30);
        ANNOUNCE.store(verbose, Ordering::Relaxed);
        // watchdog: abort the process when one case exceeds the horizon
        static CUR: AtomicU64 = AtomicU64::new(0);
        static CUR_T: AtomicU64 = AtomicU64::new(0);
        let start = Instant::now();
        let horizon = self.case_horizon.as_millis() as u64;
        std::thread::spawn(move || loop {
            std::thread::sleep(Duration::from_millis(50));
            let i = CUR.load(Ordering::Relaxed);
            let t = CUR_T.load(Ordering::Relaxed);
            let now = start.elapsed().as_millis() as u64;
            if i != 0 && now.saturating_sub(t) > horizon && CUR.load(Ordering::Relaxed) == i && CUR_T.load(Ordering::Relaxed) == t {
                let so = std::io::stdout();
                let mut so = so.lock();
                let lab = LABEL.try_lock().ok().and_then(|l| l.clone());
                let _ = writeln!(so, "{}", json!({"t":"hang","index":i-1,"secs":(now - t) as f64/1000.0,"class":lab.as_ref().map(|l| l.0.clone()),"text":lab.as_ref().map(|l| l.1.clone())}));
                let _ = so.flush();
                std::process::exit(97);
            }
        });
        let mut rec = Rec::new(name);
        rec.sample_every = ((hi - lo) / 2).max(1);
        let prop = self.prop;
        let so = std::io::stdout();
        for i in lo..hi {
            if verbose {
                let mut l = so.lock();
                let _ = writeln!(l, "{}", json!({"t":"at","index":i}));
                let _ = l.flush();
            }
            CUR_T.store(start.elapsed().as_millis() as u64, Ordering::Relaxed);
            CUR.store(i + 1, Ordering::Relaxed);
            rec.set_case(i, None);
            if let Ok(mut l) = LABEL.lock() {
                *l = None;
            }
            if let Err(p) = guard(|| f(i, &mut rec)) {
                rec.fail(format!("{}|{}|escaped-panic|{}", prop, name, panic_class(&p)), format!("sweep {} index {}", name, i), p, "no panic outside documented preconditions");
            }
            let faults = crate::alloc::take_faults();
            if faults != 0 {
                rec.fail(format!("{}|{}|memory|{}", prop, name, crate::alloc::fault_names(faults)), format!("sweep {} index {}", name, i), crate::alloc::fault_names(faults), "no allocator-monitor fault");
            }
            CUR.store(0, Ordering::Relaxed);
            if !rec.findings.is_empty() {
                let mut l = so.lock();
                for fd in rec.findings.drain(..) {
                    let _ = writeln!(l, "{}", json!({"t":"finding","sig":fd.sig,"index":fd.index,"case":fd.case,"observed":fd.observed,"expected":fd.expected}));
                }
            }
        }
        let mut l = so.lock();
        let _ = writeln!(
            l,
            "{}",
            json!({"t":"done","lo":lo,"hi":hi,"transitions":rec.transitions,"validated":rec.validated,"nontrivial":rec.nontrivial,"classes":rec.classes,"samples":rec.samples})
        );
        let _ = l.flush();
    }

    fn run_isolated(&mut self, name: &str, n: u64, stat: &mut SweepStat) -> Vec<Rec> {
        let exe = self.worker_exe.clone().unwrap_or_else(|| std::env::current_exe().expect("current_exe"));
        let threads = self.threads.max(1);
        let shard = (n / (threads as u64 * 4)).max(1).min(1 << 20);
        let shards: Vec<(u64, u64)> = (0..n).step_by(shard as usize).map(|lo| (lo, (lo + shard).min(n))).collect();
        let queue = Mutex::new(shards.into_iter().rev().collect::<Vec<_>>());
        let out: Mutex<Vec<Rec>> = Mutex::new(vec![]);
        let done = AtomicU64::new(0);
        let mach: Mutex<Vec<String>> = Mutex::new(vec![]);
        let prop = self.prop;
        let tier = self.tier;
        let seed = self.seed;
        let deadline = self.start + self.budget;
        std::thread::scope(|s| {
            for _ in 0..threads {
                s.spawn(|| {
                    let mut rec = Rec::new(name);
                    loop {
                        let job = queue.lock().unwrap().pop();
                        let (mut lo, hi) = match job {
                            Some(j) => j,
                            None => break,
                        };
                        if Instant::now() > deadline {
                            continue;
                        }
                        // run [lo,hi); on abnormal death find the case, record it, continue after it
                        let mut verbose = false;
                        let mut deaths = 0;
                        while lo < hi {
                            let r = run_child(&exe, prop, tier, seed, name, lo, hi, verbose, &mut rec);
                            match r {
                                ChildEnd::Done => {
                                    done.fetch_add(hi - lo, Ordering::Relaxed);
                                    break;
                                }
                                ChildEnd::Hang(i, secs, lab) => {
                                    rec.set_case(i, None);
                                    match lab {
                                        Some((class, text)) => rec.fail(format!("{}|{}|hang|{}", prop, name, class), format!("{} (sweep {} index {})", text, name, i), format!("no return after {:.0}s", secs), "returns in bounded time"),
                                        None => rec.fail(format!("{}|{}|hang", prop, name), format!("sweep {} index {}", name, i), format!("no return after {:.0}s", secs), "returns in bounded time"),
                                    }
                                    done.fetch_add(i + 1 - lo, Ordering::Relaxed);
                                    lo = i + 1;
                                }
                                ChildEnd::Died(status, last_at, last_label) => {
                                    deaths += 1;
                                    if deaths > 200 {
                                        mach.lock().unwrap().push(format!("sweep {}: too many child deaths in shard ending {}", name, hi));
                                        break;
                                    }
                                    if verbose {
                                        if let Some(i) = last_at {
                                            rec.set_case(i, None);
                                            match last_label {
                                                Some((class, text)) => rec.fail(format!("{}|{}|abort|{}|{}", prop, name, status, class), format!("{} (sweep {} index {})", text, name, i), format!("process died: {} (signal 6 = abort, e.g. allocation failure under the 3 GiB cap of a worker)", status), "returns or panics (no abort, stack overflow or memory exhaustion)"),
                                                None => rec.fail(format!("{}|{}|abort|{}", prop, name, status), format!("sweep {} index {}", name, i), format!("process died: {}", status), "returns or panics (no abort, stack overflow or memory exhaustion)"),
                                            }
                                            done.fetch_add(i + 1 - lo, Ordering::Relaxed);
                                            lo = i + 1;
                                            verbose = false;
                                        } else {
                                            mach.lock().unwrap().push(format!("sweep {}: child died before its first case ({})", name, status));
                                            break;
                                        }
                                    } else {
                                        // deterministic re-run announcing each case before it starts
                                        verbose = true;
                                        // drop partial results of the failed attempt: findings are re-reported
                                    }
                                }
                            }
                        }
                    }
                    out.lock().unwrap().push(rec);
                });
            }
        });
        for m in mach.into_inner().unwrap() {
            self.machinery(m);
        }
        stat.done = done.load(Ordering::Relaxed).min(n);
        if stat.done < n {
            stat.exhaustive = false;
            self.machinery(format!("isolated sweep {} completed {} of {} cases", name, stat.done, n));
        }
        out.into_inner().unwrap()
    }

    // -----------------------------------------------------------------------------------------

    /// Finish the run: match findings with known_findings.jsonl, write replays + evidence, print
    /// verdict lines and return the process exit code.
    pub fn finish(mut self) -> i32 {
        match self.mode {
            Mode::Worker { .. } => return 0,
            Mode::Replay { .. } => {
                return if self.findings.is_empty() { 0 } else { 1 };
            }
            Mode::Run => {}
        }
        let known = load_known(self.prop);
        // group findings by signature, smallest (sweep order, index) first
        let mut by_sig: BTreeMap<String, Vec<Finding>> = BTreeMap::new();
        for f in self.findings.drain(..) {
            by_sig.entry(f.sig.clone()).or_default().push(f);
        }
        let mut violations = 0;
        let mut known_hit = vec![];
        let mut viol_list = vec![];
        for (sig, mut fs) in by_sig {
            fs.sort_by(|a, b| (a.sweep.as_str(), a.index).cmp(&(b.sweep.as_str(), b.index)));
            let f = &fs[0];
            if let Some(k) = known.iter().find(|k| k.status == "known" && sig_matches(&k.signature, &sig)) {
                println!("KNOWN-FINDING: property={} {} [signature {}; e.g. {}]", self.prop, k.what, sig, trunc(&f.case, 200));
                known_hit.push(json!({"signature": sig, "what": k.what, "example": f.case}));
            } else {
                violations += 1;
                let path = write_replay(self.prop, self.tier, self.seed, &self.config, f);
                println!("VIOLATION property={} replay={}", self.prop, path);
                println!("  signature: {}\n  case: {}\n  observed: {}\n  expected: {}", sig, f.case, f.observed, f.expected);
                viol_list.push(json!({"signature": sig, "case": f.case, "observed": f.observed, "expected": f.expected, "replay": path}));
            }
        }
        let exhaustive = self.sweeps.iter().all(|s| s.exhaustive) && !self.sweeps.is_empty();
        let states: u64 = self.sweeps.iter().map(|s| s.states).sum();
        let cases: u64 = self.sweeps.iter().map(|s| s.done).sum();
        let transitions: u64 = self.sweeps.iter().map(|s| s.transitions).sum();
        let validated: u64 = self.sweeps.iter().map(|s| s.validated).sum();
        let nontrivial: u64 = self.sweeps.iter().map(|s| s.nontrivial).sum();
        let mut samples: Vec<Value> = vec![];
        for s in &self.sweeps {
            for x in s.samples.iter().take(2) {
                samples.push(json!(format!("{}: {}", s.name, x)));
            }
        }
        if samples.is_empty() {
            samples.push(json!("(no sample recorded)"));
        }
        samples.truncate(24);
        let sweeps_json: Vec<Value> = self
            .sweeps
            .iter()
            .map(|s| {
                let mut classes = s.classes.clone();
                classes.retain(|k, _| !k.starts_with("finding:"));
                let mut o = json!({"name": s.name, "cases": s.cases, "completed": s.done, "states": s.states, "transitions": s.transitions,
                    "compared_with_reference": s.validated, "nontrivial": s.nontrivial, "exhaustive": s.exhaustive,
                    "outcome_histogram": classes, "wall_s": (s.wall_s*100.0).round()/100.0});
                for (k, v) in &s.extra {
                    o[k] = v.clone();
                }
                o
            })
            .collect();
        let wall = self.start.elapsed().as_secs_f64();
        let ev = json!({
            "property_id": self.prop,
            "tier": if self.tier == Tier::Quick {"quick"} else {"thorough"},
            "seed": self.seed,
            "level": "model_checking",
            "coverage": {
                "states": states.max(1),
                "transitions": transitions.max(1),
                "traces_validated_against_impl": validated,
                "samples": samples,
                "evaluations": cases.max(1),
                "distinct_nontrivial": nontrivial,
                "rule": self.rule,
                "exhaustive": exhaustive,
                "bounds": self.bounds,
                "sweeps": sweeps_json,
                "build_config": self.config,
                "known_findings_observed": known_hit,
                "violations_reported": viol_list,
                "machinery_problems": self.machinery,
                "explanation": "states = operand tuples / pool states enumerated; transitions = operations of the real implementation executed on them; traces_validated_against_impl = transitions whose result was compared with the independent reference model"
            },
            "assumptions": self.assumptions,
            "wall_s": (wall*100.0).round()/100.0,
            "violations": violations
        });
        let path = format!("{}/evidence/{}.json", verif_root(), self.prop);
        let _ = std::fs::create_dir_all(format!("{}/evidence", verif_root()));
        let tmp = format!("{}.tmp{}", path, std::process::id());
        std::fs::write(&tmp, serde_json::to_string_pretty(&ev).unwrap()).expect("write evidence");
        std::fs::rename(&tmp, &path).expect("rename evidence");
        eprintln!(
            "[{}] tier={:?} config={} states={} transitions={} validated={} nontrivial={} violations={} known={} wall={:.1}s",
            self.prop, self.tier, self.config, states, transitions, validated, nontrivial, violations, ev["coverage"]["known_findings_observed"].as_array().unwrap().len(), wall
        );
        if violations > 0 {
            1
        } else if !self.machinery.is_empty() {
            2
        } else {
            0
        }
    }
}

pub fn panic_class(p: &str) -> String {
    // file:line is unstable across edits; keep the message head only
    let head = p.split(" @ ").next().unwrap_or(p);
    let head: String = head.chars().filter(|c| !c.is_ascii_digit()).take(60).collect();
    head.trim().replace('|', "/")
}

/// label of the case that is running now (class for the signature, text for the report); a worker's
/// watchdog reports it when the case does not return
static LABEL: Mutex<Option<(String, String)>> = Mutex::new(None);
/// set in a worker that announces every case (re-run after an abnormal death): labels are printed too
static ANNOUNCE: AtomicBool = AtomicBool::new(false);

enum ChildEnd {
    Done,
    Hang(u64, f64, Option<(String, String)>),
    Died(String, Option<u64>, Option<(String, String)>),
}

#[allow(clippy::too_many_arguments)]
fn run_child(exe: &std::path::Path, prop: &str, tier: Tier, seed: u64, sweep: &str, lo: u64, hi: u64, verbose: bool, rec: &mut Rec) -> ChildEnd {
    let mut cmd = std::process::Command::new(exe);
    cmd.arg(prop.to_lowercase())
        .arg("--tier")
        .arg(if tier == Tier::Quick { "quick" } else { "thorough" })
        .arg("--seed")
        .arg(seed.to_string())
        .arg("--worker")
        .arg(sweep)
        .arg(lo.to_string())
        .arg(hi.to_string());
    if verbose {
        cmd.arg("--verbose");
    }
    cmd.stdout(std::process::Stdio::piped()).stderr(std::process::Stdio::null()).stdin(std::process::Stdio::null());
    cmd.env("DV_THREADS", "1");
    let mut child = match cmd.spawn() {
        Ok(c) => c,
        Err(e) => return ChildEnd::Died(format!("spawn failed: {}", e), None, None),
    };
    let so = child.stdout.take().unwrap();
    let mut last_at = None;
    let mut last_label: Option<(String, String)> = None;
    let mut hang = None;
    let mut finished = false;
    let mut local = Rec::new(sweep);
    for line in std::io::BufReader::new(so).lines() {
        let line = match line {
            Ok(l) => l,
            Err(_) => break,
        };
        let v: Value = match serde_json::from_str(&line) {
            Ok(v) => v,
            Err(_) => continue,
        };
        match v["t"].as_str().unwrap_or("") {
            "at" => {
                last_at = v["index"].as_u64();
                last_label = None;
            }
            "label" => last_label = v["class"].as_str().map(|c| (c.to_string(), v["text"].as_str().unwrap_or("").to_string())),
            "hang" => hang = Some((v["index"].as_u64().unwrap_or(lo), v["secs"].as_f64().unwrap_or(0.0), v["class"].as_str().map(|c| (c.to_string(), v["text"].as_str().unwrap_or("").to_string())))),
            "finding" => {
                local.set_case(v["index"].as_u64().unwrap_or(0), None);
                local.fail(v["sig"].as_str().unwrap_or("?"), v["case"].as_str().unwrap_or(""), v["observed"].as_str().unwrap_or(""), v["expected"].as_str().unwrap_or(""));
            }
            "done" => {
                finished = true;
                local.transitions += v["transitions"].as_u64().unwrap_or(0);
                local.validated += v["validated"].as_u64().unwrap_or(0);
                local.nontrivial += v["nontrivial"].as_u64().unwrap_or(0);
                if let Some(o) = v["classes"].as_object() {
                    for (k, c) in o {
                        if !k.starts_with("finding:") {
                            *local.classes.entry(k.clone()).or_insert(0) += c.as_u64().unwrap_or(0);
                        }
                    }
                }
                if let Some(a) = v["samples"].as_array() {
                    for s in a {
                        if local.samples.len() < 3 {
                            local.samples.push(s.as_str().unwrap_or("").to_string());
                        }
                    }
                }
            }
            _ => {}
        }
    }
    let status = child.wait();
    let merge = |rec: &mut Rec, local: Rec, upto: Option<u64>| {
        rec.transitions += local.transitions;
        rec.validated += local.validated;
        rec.nontrivial += local.nontrivial;
        for (k, v) in local.classes {
            *rec.classes.entry(k).or_insert(0) += v;
        }
        for s in local.samples {
            if rec.samples.len() < 3 {
                rec.samples.push(s);
            }
        }
        for f in local.findings {
            if upto.map_or(true, |u| f.index <= u) {
                let dup = rec.findings.iter().any(|g| g.sig == f.sig && g.index == f.index);
                if !dup {
                    rec.set_case(f.index, None);
                    rec.fail(f.sig, f.case, f.observed, f.expected);
                }
            }
        }
    };
    if finished {
        merge(rec, local, None);
        return ChildEnd::Done;
    }
    if let Some((i, secs, lab)) = hang {
        merge(rec, local, Some(i));
        return ChildEnd::Hang(i, secs, lab);
    }
    let st = match status {
        Ok(s) => {
            use std::os::unix::process::ExitStatusExt;
            if let Some(sig) = s.signal() {
                format!("signal {}", sig)
            } else {
                format!("exit {}", s.code().unwrap_or(-1))
            }
        }
        Err(e) => format!("wait failed: {}", e),
    };
    if verbose {
        merge(rec, local, last_at);
    }
    ChildEnd::Died(st, last_at, last_label)
}

// ---------------------------------------------------------------------------------------------
// known findings, replays

pub struct Known {
    pub status: String,
    pub property: String,
    pub signature: String,
    pub what: String,
}

pub fn load_known(prop: &str) -> Vec<Known> {
    let mut v = vec![];
    if let Ok(f) = std::fs::File::open(format!("{}/known_findings.jsonl", verif_root())) {
        for line in std::io::BufReader::new(f).lines().map_while(Result::ok) {
            let line = line.trim();
            if line.is_empty() || line.starts_with('#') {
                continue;
            }
            if let Ok(j) = serde_json::from_str::<Value>(line) {
                if j["property"].as_str() == Some(prop) {
                    v.push(Known {
                        status: j["status"].as_str().unwrap_or("").to_string(),
                        property: prop.to_string(),
                        signature: j["signature"].as_str().unwrap_or("").to_string(),
                        what: j["what"].as_str().unwrap_or("").to_string(),
                    });
                }
            }
        }
    }
    v
}

/// exact match only: signatures are narrow on purpose
fn sig_matches(known: &str, sig: &str) -> bool {
    known == sig
}

fn fnv(s: &str) -> u64 {
    let mut h: u64 = 0xcbf29ce484222325;
    for b in s.bytes() {
        h ^= b as u64;
        h = h.wrapping_mul(0x100000001b3);
    }
    h
}

pub fn write_replay(prop: &str, tier: Tier, seed: u64, config: &str, f: &Finding) -> String {
    let _ = std::fs::create_dir_all(format!("{}/replays", verif_root()));
    let path = format!("{}/replays/{}-{:012x}.json", verif_root(), prop, fnv(&f.sig) & 0xffff_ffff_ffff);
    let j = json!({
        "property": prop, "signature": f.sig, "sweep": f.sweep, "index": f.index, "payload": f.payload,
        "tier": if tier == Tier::Quick {"quick"} else {"thorough"}, "seed": seed, "build_config": config,
        "case": f.case, "observed": f.observed, "expected": f.expected,
        "how_to_replay": format!("./check {} --replay {}", prop, path)
    });
    let _ = std::fs::write(&path, serde_json::to_string_pretty(&j).unwrap());
    path
}

pub fn dedup_count<T: Ord>(it: impl Iterator<Item = T>) -> usize {
    it.collect::<BTreeSet<_>>().len()
}
