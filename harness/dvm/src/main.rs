//! dvm <cover-file> [max-paths]: each line is "start,op,op,..." (indices into the FULL alphabet).
//! Rebuilds the start pool, applies the operations to real values and drops everything.  Meant to
//! be run under Miri (`cargo +nightly miri run -p dvm -- file`): any undefined behaviour, leak or
//! out-of-bounds access on one of these executions aborts the run with Miri's report.
#[path = "../../dv/src/uni.rs"]
#[allow(dead_code)]
mod uni;
#[path = "../../dv/src/ops.rs"]
#[allow(dead_code)]
mod ops;

fn main() {
    let args: Vec<String> = std::env::args().collect();
    let text = std::fs::read_to_string(&args[1]).expect("cover file");
    // the cover file's first line names the alphabet its op indices refer to
    let full = text.lines().next().map(|l| l.trim() == "# alphabet full").unwrap_or(false);
    let max: usize = args.get(2).and_then(|s| s.parse().ok()).unwrap_or(usize::MAX);
    let ops = ops::alphabet(full);
    let starts = ops::start_pools();
    let mut n = 0;
    for line in text.lines().take(max) {
        let nums: Vec<usize> = line.split(',').filter_map(|s| s.trim().parse().ok()).collect();
        if nums.is_empty() {
            continue;
        }
        println!("dvm: at {}", line.trim());
        let mut mirror = starts[nums[0]].clone();
        let mut pool = ops::build_pool(&mirror);
        for &o in &nums[1..] {
            let op = ops[o];
            if ops::apply_ref(&mut mirror, op, 64).is_err() {
                break;
            }
            ops::apply_real(&mut pool, op);
        }
        // the values must still be what the reference says
        assert_eq!(uni::i_to_ref(&pool.i[0]), mirror.i[0]);
        assert_eq!(uni::i_to_ref(&pool.i[1]), mirror.i[1]);
        assert_eq!(uni::u_to_ref(&pool.u), mirror.u);
        drop(pool);
        n += 1;
    }
    println!("dvm: replayed {} paths", n);
}
