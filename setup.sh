#!/bin/bash
# builds the harness (default `mon` configuration) offline from files on disk
set -e
cd "$(dirname "$0")/harness"
export CARGO_NET_OFFLINE=true
cp /repo/Cargo.lock Cargo.lock
cargo build --release --offline
# secondary configuration used by C16/C19 (release profile: no debug assertions, no overflow checks)
cargo build --profile rel --features lite --offline
