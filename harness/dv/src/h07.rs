//! Helpers of check C07: reference models for digit strings, `Formatter::pad_integral`, the
//! documented parser grammar; enumeration of format specs and of strings over an alphabet.

use crate::core::{trunc, Rec};
use crate::uni::WBITS;
use dashu_base::ParseError;
use dashu_int::Word;
use num_bigint::{BigInt, BigUint, Sign as NSign};
use std::fmt::{Binary, Display, LowerHex, Octal, UpperHex};

const P: &str = "C07";

pub fn is_neg(x: &BigInt) -> bool {
    x.sign() == NSign::Minus
}

/// `digits_per_word` as radix.rs documents it: the largest k with radix^k <= Word::MAX (for a
/// radix 2^j: WORD_BITS / j), for a word of `wbits` bits.
pub fn dpw(r: u32, wbits: usize) -> usize {
    if r.is_power_of_two() {
        return wbits / r.trailing_zeros() as usize;
    }
    let max: u128 = (1u128 << wbits) - 1;
    let (mut k, mut p) = (0usize, 1u128);
    while p * (r as u128) <= max {
        p *= r as u128;
        k += 1;
    }
    k
}

pub fn rclass(r: u32) -> &'static str {
    match r {
        2 => "r2",
        8 => "r8",
        10 => "r10",
        16 => "r16",
        _ if r.is_power_of_two() => "pow2",
        _ => "nonpow2",
    }
}

/// which formatter path a value of `words` words / `n` digits takes (fmt/non_power_two.rs:
/// word, double word, medium (<= 16 groups), large = divide and conquer with k radix powers)
pub fn fmt_class(words: usize, n: usize, r: u32) -> String {
    let d = dpw(r, WBITS);
    if words <= 1 {
        "word".into()
    } else if words == 2 {
        "dword".into()
    } else if r.is_power_of_two() {
        "large-pow2".into()
    } else if words * (d + 1) <= 16 * d {
        "medium".into()
    } else if n <= 16 * d {
        "large:top-only".into()
    } else {
        let mut k = 1;
        while (16 * d) << k <= n - 1 {
            k += 1;
        }
        format!("large:dc{}", k)
    }
}

/// which parser path a body of `n` bytes takes (parse/non_power_two.rs: word, chunk (<= 256
/// groups), divide and conquer with k radix powers)
pub fn parse_class(n: usize, r: u32) -> String {
    let d = dpw(r, WBITS);
    if n <= d {
        "word".into()
    } else if r.is_power_of_two() {
        "large-pow2".into()
    } else if n <= 256 * d {
        "chunk".into()
    } else {
        let mut k = 1;
        while 256 * d <= (n - 1) >> k {
            k += 1;
        }
        format!("dc{}", k)
    }
}

fn show_text(s: &str) -> String {
    if s.len() <= 160 {
        format!("{:?}", s)
    } else {
        format!("{:?} (len {})", trunc(s, 120), s.len())
    }
}

pub fn expect_text(rec: &mut Rec, site: &str, class: &str, got: Result<String, String>, want: &str, case: impl FnOnce() -> String) -> bool {
    rec.step();
    match got {
        Ok(g) => {
            if g != want {
                let at = g.bytes().zip(want.bytes()).position(|(a, b)| a != b).unwrap_or(g.len().min(want.len()));
                let win = |s: &str| {
                    let lo = at.saturating_sub(12);
                    let hi = (at + 12).min(s.len());
                    if s.is_char_boundary(lo) && s.is_char_boundary(hi) {
                        s[lo..hi].to_string()
                    } else {
                        String::new()
                    }
                };
                rec.fail(
                    format!("{}|{}|wrong-text|{}", P, site, class),
                    case(),
                    format!("{}; first difference at byte {}: …{}…", show_text(&g), at, win(&g)),
                    format!("{}; there: …{}…", show_text(want), win(want)),
                );
                return false;
            }
            true
        }
        Err(p) => {
            rec.fail(format!("{}|{}|panic|{}", P, site, class), case(), format!("panic: {}", p), show_text(want));
            false
        }
    }
}

/// `_` between groups of `every` digits counted from the right (never leading/trailing/doubled)
pub fn with_underscores(digits: &str, every: usize) -> String {
    let n = digits.len();
    let mut out = String::with_capacity(n + n / every + 1);
    for (i, c) in digits.chars().enumerate() {
        if i > 0 && (n - i) % every == 0 {
            out.push('_');
        }
        out.push(c);
    }
    out
}

/// splitmix64
pub struct Mix(pub u64);
impl Mix {
    #[allow(clippy::should_implement_trait)]
    pub fn next(&mut self) -> u64 {
        self.0 = self.0.wrapping_add(0x9E37_79B9_7F4A_7C15);
        let mut z = self.0;
        z = (z ^ (z >> 30)).wrapping_mul(0xBF58_476D_1CE4_E5B9);
        z = (z ^ (z >> 27)).wrapping_mul(0x94D0_49BB_1331_11EB);
        z ^ (z >> 31)
    }
}

/// schoolbook radix conversion on u32 limbs (second, trivially auditable digit reference)
pub fn slow_digits(m: &BigUint, r: u32) -> String {
    let mut limbs: Vec<u32> = m.to_u32_digits();
    let mut out: Vec<u8> = vec![];
    while !limbs.is_empty() {
        let mut rem: u64 = 0;
        for l in limbs.iter_mut().rev() {
            let cur = (rem << 32) | *l as u64;
            *l = (cur / r as u64) as u32;
            rem = cur % r as u64;
        }
        while limbs.last() == Some(&0) {
            limbs.pop();
        }
        out.push(std::char::from_digit(rem as u32, r).unwrap() as u8);
    }
    if out.is_empty() {
        out.push(b'0');
    }
    out.reverse();
    String::from_utf8(out).unwrap()
}

pub fn words_u128(w: &[Word]) -> Option<u128> {
    let mut v: u128 = 0;
    for (i, &x) in w.iter().enumerate() {
        if x != 0 {
            if (i + 1) * WBITS > 128 {
                return None;
            }
            v |= (x as u128) << (i * WBITS);
        }
    }
    Some(v)
}

// ---------------------------------------------------------------------------------------------
// format specs

#[derive(Clone, Copy, Debug)]
pub struct Spec {
    /// "[fill]align" part: "", "<", "^", ">", "*<", "*^", "*>"
    pub a: &'static str,
    pub plus: bool,
    pub alt: bool,
    pub zero: bool,
    pub w: Option<usize>,
    /// "", "b", "o", "x", "X"
    pub ty: &'static str,
}

impl Spec {
    pub fn show(&self) -> String {
        format!(
            "{{:{}{}{}{}{}{}}}",
            self.a,
            if self.plus { "+" } else { "" },
            if self.alt { "#" } else { "" },
            if self.zero { "0" } else { "" },
            self.w.map(|w| w.to_string()).unwrap_or_default(),
            self.ty
        )
    }
}

macro_rules! lay {
    ($out:ident, $x:expr, $w:expr, $ty:literal) => { lay!(@a $out, $x, $w, $ty; "", "<", "^", ">", "*<", "*^", "*>") };
    (@a $out:ident, $x:expr, $w:expr, $ty:literal; $($a:literal),*) => { $( lay!(@p $out, $x, $w, $ty, $a; "", "+"); )* };
    (@p $out:ident, $x:expr, $w:expr, $ty:literal, $a:literal; $($p:literal),*) => { $( lay!(@h $out, $x, $w, $ty, $a, $p; "", "#"); )* };
    (@h $out:ident, $x:expr, $w:expr, $ty:literal, $a:literal, $p:literal; $($h:literal),*) => { $( lay!(@z $out, $x, $w, $ty, $a, $p, $h; "", "0"); )* };
    (@z $out:ident, $x:expr, $w:expr, $ty:literal, $a:literal, $p:literal, $h:literal; $($z:literal),*) => { $(
        {
            let spec = Spec { a: $a, plus: !$p.is_empty(), alt: !$h.is_empty(), zero: !$z.is_empty(), w: $w, ty: $ty };
            let text = match $w {
                None => format!(concat!("{:", $a, $p, $h, $z, $ty, "}"), $x),
                Some(w) => format!(concat!("{:", $a, $p, $h, $z, "1$", $ty, "}"), $x, w),
            };
            $out.push((spec, text));
        }
    )* };
}

/// the value printed with every combination of fill/align, `+`, `#`, `0` and each width, Display only
pub fn layouts_display<T: Display>(x: &T, widths: &[Option<usize>]) -> Vec<(Spec, String)> {
    let mut out = Vec::with_capacity(56 * widths.len());
    for &w in widths {
        lay!(out, x, w, "");
    }
    out
}

macro_rules! lean {
    ($out:ident, $x:expr, $w:expr, $ty:literal) => {
        lay!(@z $out, $x, $w, $ty, "", "", ""; "");
        lay!(@z $out, $x, $w, $ty, "<", "", ""; "");
        lay!(@z $out, $x, $w, $ty, "*^", "+", ""; "");
        lay!(@z $out, $x, $w, $ty, ">", "", "#"; "");
        lay!(@z $out, $x, $w, $ty, "", "+", ""; "0");
        lay!(@z $out, $x, $w, $ty, "", "", "#"; "0");
    };
}

/// six representative flag combinations (plain, left, starred centre with +, right with #, +0, #0)
/// for values whose rendering is too long for the full 56-combination table
pub fn layouts_lean_display<T: Display>(x: &T, widths: &[Option<usize>]) -> Vec<(Spec, String)> {
    let mut out = Vec::with_capacity(6 * widths.len());
    for &w in widths {
        lean!(out, x, w, "");
    }
    out
}

/// the lean table for one of the radix traits ("" Display, "b", "o", "x", "X")
pub fn layouts_lean_trait<T: Display + Binary + Octal + LowerHex + UpperHex>(x: &T, widths: &[Option<usize>], ty: &str) -> Vec<(Spec, String)> {
    let mut out = Vec::with_capacity(6 * widths.len());
    for &w in widths {
        match ty {
            "" => { lean!(out, x, w, ""); }
            "b" => { lean!(out, x, w, "b"); }
            "o" => { lean!(out, x, w, "o"); }
            "x" => { lean!(out, x, w, "x"); }
            _ => { lean!(out, x, w, "X"); }
        }
    }
    out
}

/// ... for Display, Binary, Octal, LowerHex, UpperHex
pub fn layouts_all<T: Display + Binary + Octal + LowerHex + UpperHex>(x: &T, widths: &[Option<usize>]) -> Vec<(Spec, String)> {
    let mut out = Vec::with_capacity(280 * widths.len());
    for &w in widths {
        lay!(out, x, w, "");
        lay!(out, x, w, "b");
        lay!(out, x, w, "o");
        lay!(out, x, w, "x");
        lay!(out, x, w, "X");
    }
    out
}

/// `Formatter::pad_integral` as documented in std::fmt ("Fill/Alignment", "Sign/#/0", "Width"):
/// sign, then prefix (only with `#`), then digits; with `0` the padding zeros go after sign and
/// prefix and fill/alignment are ignored; otherwise the fill goes around the whole text, numbers
/// being right-aligned by default; centre puts the odd fill character on the right.
pub fn pad_integral(s: &Spec, nonneg: bool, prefix: &str, digits: &str) -> String {
    let sign = if !nonneg {
        "-"
    } else if s.plus {
        "+"
    } else {
        ""
    };
    let prefix = if s.alt { prefix } else { "" };
    let width = sign.len() + prefix.len() + digits.chars().count();
    let (fill, align) = match s.a {
        "" => (' ', '>'),
        "<" => (' ', '<'),
        "^" => (' ', '^'),
        ">" => (' ', '>'),
        "*<" => ('*', '<'),
        "*^" => ('*', '^'),
        "*>" => ('*', '>'),
        _ => unreachable!(),
    };
    let body = |zeros: usize| format!("{}{}{}{}", sign, prefix, "0".repeat(zeros), digits);
    match s.w {
        None => body(0),
        Some(min) if width >= min => body(0),
        Some(min) if s.zero => body(min - width),
        Some(min) => {
            let pad = min - width;
            let (pre, post) = match align {
                '<' => (0, pad),
                '>' => (pad, 0),
                _ => (pad / 2, (pad + 1) / 2),
            };
            format!("{}{}{}", fill.to_string().repeat(pre), body(0), fill.to_string().repeat(post))
        }
    }
}

pub fn pad_mode(s: &Spec, content: usize) -> &'static str {
    match s.w {
        None => "nowidth",
        Some(m) if content >= m => "fits",
        Some(_) if s.zero => "zero",
        Some(_) => match s.a {
            "" => "default",
            "<" | "*<" => "left",
            "^" | "*^" => "center",
            _ => "right",
        },
    }
}

// ---------------------------------------------------------------------------------------------
// the documented parser grammar

#[derive(Clone, Copy, Debug, PartialEq)]
pub enum Verdict {
    /// sign? prefix? digit (digit | '_' digit)*  — must be accepted with this magnitude
    Accept(u128),
    /// digits and underscores, at least one digit, but an underscore leads, trails or is doubled:
    /// acceptance is not specified; if accepted the value must be this
    Lenient(u128),
    /// must be rejected; Some(kind) where the documentation of ParseError names the kind
    Reject(Option<ParseError>),
}

impl Verdict {
    pub fn class(&self) -> &'static str {
        match self {
            Verdict::Accept(_) => "valid",
            Verdict::Lenient(_) => "odd-underscores",
            Verdict::Reject(Some(ParseError::NoDigits)) => "empty",
            Verdict::Reject(Some(_)) => "invalid-char",
            Verdict::Reject(None) => "underscores-only",
        }
    }
}

fn digit_val(c: char) -> Option<u32> {
    match c {
        '0'..='9' => Some(c as u32 - '0' as u32),
        'a'..='z' => Some(c as u32 - 'a' as u32 + 10),
        'A'..='Z' => Some(c as u32 - 'A' as u32 + 10),
        _ => None,
    }
}

fn body_verdict(body: &str, r: u32) -> Verdict {
    if body.is_empty() {
        return Verdict::Reject(Some(ParseError::NoDigits));
    }
    let (mut val, mut nd, mut strict, mut prev_us) = (0u128, 0usize, true, true);
    for c in body.chars() {
        if c == '_' {
            if prev_us {
                strict = false; // leading or doubled
            }
            prev_us = true;
            continue;
        }
        match digit_val(c) {
            Some(d) if d < r => {
                val = val * r as u128 + d as u128;
                nd += 1;
                prev_us = false;
            }
            _ => return Verdict::Reject(Some(ParseError::InvalidDigit)),
        }
    }
    if prev_us {
        strict = false; // trailing
    }
    if nd == 0 {
        Verdict::Reject(None)
    } else if strict {
        Verdict::Accept(val)
    } else {
        Verdict::Lenient(val)
    }
}

/// (negative?, radix used, verdict) for `s` under the documented grammar: optional `+` (and `-`
/// for IBig), then — for the *_with_radix_* functions — an optional `0b`/`0o`/`0x`, then digits.
pub fn verdict(s: &str, r: u32, minus_ok: bool, prefix: bool) -> (bool, u32, Verdict) {
    let (neg, rest) = if minus_ok && s.starts_with('-') {
        (true, &s[1..])
    } else if let Some(t) = s.strip_prefix('+') {
        (false, t)
    } else {
        (false, s)
    };
    let (radix, body) = if prefix {
        if let Some(b) = rest.strip_prefix("0b") {
            (2, b)
        } else if let Some(b) = rest.strip_prefix("0o") {
            (8, b)
        } else if let Some(b) = rest.strip_prefix("0x") {
            (16, b)
        } else {
            (r, rest)
        }
    } else {
        (r, rest)
    };
    (neg, radix, body_verdict(body, radix))
}

/// number of strings of length <= maxlen over k symbols
pub fn count_strings(k: u64, maxlen: u32) -> u64 {
    (0..=maxlen).map(|l| k.pow(l)).sum()
}

/// the i-th string (shortest first) over the alphabet
pub fn nth_string(mut i: u64, alpha: &[char]) -> String {
    let k = alpha.len() as u64;
    let (mut len, mut block) = (0usize, 1u64);
    while i >= block {
        i -= block;
        block *= k;
        len += 1;
    }
    let mut cs = vec![' '; len];
    for j in (0..len).rev() {
        cs[j] = alpha[(i % k) as usize];
        i /= k;
    }
    cs.into_iter().collect()
}
