#!/usr/bin/env python3
"""Regenerates /verif/MANIFEST.json from tools/checks.json (per-property texts) + properties.jsonl."""
import json, os, subprocess
here = os.path.dirname(os.path.abspath(__file__))
root = os.path.dirname(here)
props = [json.loads(l) for l in open(os.path.join(root, 'properties.jsonl'))]
checks = json.load(open(os.path.join(here, 'checks.json')))
hook_commits = checks.get('_hook_commits', [])
m = {
 "version": 1,
 "setup_cmd": "cd /verif && ./setup.sh",
 "hooks": {
  "guard": "--cfg dashu_verif",
  "enable": "rustflags = [\"--cfg\", \"dashu_verif\"] in /verif/harness/.cargo/config.toml (applies to the harness build only; /repo's own builds never see it)",
  "baseline_off_cmd": "cd /repo && cargo test --workspace --no-fail-fast --offline",
  "source_commits": hook_commits,
  "add_only": True
 },
 "engines": [
  {"name": "dv", "path": "harness/dv", "serves_properties": [p for p in checks if not p.startswith('_')],
   "kind_free_text": "bounded exhaustive explorer (explicit enumeration of closed/shape universes and BFS over value-pool histories) executing the real dashu code against reference models (num_bigint, exact rationals, interval enclosures), with a tracking allocator and the library's own debug assertions as state monitors"}
 ],
 "checks": [],
 "notes": "All checks are subcommands of one binary rebuilt from /repo's working tree by ./check. exit 0 = held (KNOWN-FINDING lines for recorded defects), 1 = VIOLATION, 2 = machinery problem. See DESIGN.md.",
 "not_applicable": []
}
for p in props:
    pid = p['id']
    c = checks.get(pid)
    if not c:
        m["not_applicable"].append({"property_id": pid, "reason": "check not built yet (work in progress; DESIGN.md section 5 describes the planned bounded exhaustive check)"})
        continue
    m["checks"].append({
        "property_id": pid,
        "quick_cmd": f"./check {pid} --tier quick",
        "thorough_cmd": f"./check {pid} --tier thorough",
        "evidence_file": f"/verif/evidence/{pid}.json",
        "replay_cmd_template": f"./check {pid} --replay {{path}}",
        "engine": "dv",
        "level_claimed": {"category": "model_checking", "text": c["text"], "design_ref": c.get("design_ref", f"DESIGN.md section 5, {pid}")},
        "level_note": c["note"],
        "technique": c["technique"],
    })
json.dump(m, open(os.path.join(root, 'MANIFEST.json'), 'w'), indent=1)
print("checks:", len(m["checks"]), "not_applicable:", len(m["not_applicable"]))
