#!/bin/bash
# lane.sh setup <k>          : /tmp/lane/<k>/{repo (worktree of /repo HEAD), verif (copy of /verif, path deps -> that worktree)}
# lane.sh sync <k>           : refresh the lane's harness sources/tools/known findings from /verif
# lane.sh try <k> <seed> <checks...> : apply seeded/<seed>/patch.diff in the lane's worktree, run the checks there, undo
# lane.sh run <k> <check> [args]     : run a check in the lane on its clean worktree
# lane.sh drop <k>           : remove the lane
# Lanes are scratch copies for triage and long explorations that must not occupy /repo; the official
# procedure for a seeded change is tools/try_seed.sh (apply to /repo, run ./check, undo).
cmd=$1; k=$2; shift 2
L=/tmp/lane/$k
case $cmd in
setup)
  mkdir -p /tmp/lane; [ -d $L/repo ] || git -C /repo worktree add -q --detach $L/repo HEAD
  mkdir -p $L/verif; $0 sync $k ;;
sync)
  git -C $L/repo checkout -q -- . ; git -C $L/repo checkout -q --detach $(git -C /repo rev-parse HEAD)
  rsync -a --delete --exclude 'target*' --exclude 'gen' --exclude '.git' --exclude 'evidence' --exclude 'replays' /verif/ $L/verif/
  mkdir -p $L/verif/evidence $L/verif/replays
  sed -i "s#/repo/#$L/repo/#g" $L/verif/harness/dv/Cargo.toml $L/verif/harness/dvx/Cargo.toml $L/verif/harness/dvm/Cargo.toml
  sed -i "s#--repo /repo#--repo $L/repo#; s#cp /repo/Cargo.lock#cp $L/repo/Cargo.lock#" $L/verif/check $L/verif/setup.sh ;;
try)
  s=$1; shift
  git -C $L/repo checkout -q -- . ; git -C $L/repo apply /verif/seeded/$s/patch.diff || { echo "$s: patch does not apply"; exit 2; }
  for c in "$@"; do
    out=$(cd $L/verif && DV_REPO=$L/repo ./check $c --tier ${TIER:-quick} 2>&1); code=$?
    nv=$(echo "$out" | grep -c "^VIOLATION")
    first=$(echo "$out" | grep -A1 "^VIOLATION" | grep signature | head -3 | sed 's/  signature: //' | tr '\n' ';')
    echo "$s $c exit=$code violations=$nv  $first"
    [ $code = 2 ] && echo "$out" | grep -E "MACHINERY|error" | head -5
  done
  git -C $L/repo checkout -q -- . ;;
run)
  c=$1; shift; cd $L/verif && DV_REPO=$L/repo ./check $c "$@" ;;
drop)
  git -C /repo worktree remove --force $L/repo; rm -rf $L ;;
esac
