//! C03 — Context add/sub/mul/div/sqrt/sqr/cubic/inv honour the rounding contract of the mode.
//! All operand tuples of F(B,P,E) that fit the precision, all six modes; oracle: exact rationals
//! (sqrt judged through exact comparisons of squares).

use crate::core::{guard, Ctx, Rec};
use crate::for_all_modes;
use crate::fref::*;
use crate::h::unflatten;
use dashu_base::Approximation;
use dashu_float::{Context, FBig, Repr};
use dashu_int::Word;
use num_bigint::BigInt;
use num_traits::Zero;

const P: &str = "C03";

struct Val<const B: Word> {
    s: BigInt,
    e: i64,
    digits: usize,
    rat: Rat,
    repr: Repr<B>,
}

fn vals<const B: Word>(u: &[(BigInt, i64)]) -> Vec<Val<B>> {
    u.iter()
        .map(|(s, e)| Val { s: s.clone(), e: *e, digits: digits_b(s, B as u32), rat: Rat::scaled(s, B as u32, *e), repr: mk_repr::<B>(s, *e) })
        .collect()
}

fn check<R: ModeTag, const B: Word>(rec: &mut Rec, op: &str, case: &dyn Fn() -> String, p: usize, x: &dyn ExactReal, got: Result<Approximation<FBig<R, B>, dashu_float::round::Rounding>, String>) {
    rec.step();
    match got {
        Ok(a) => {
            let flag = flag_of(&a);
            let v = match &a {
                Approximation::Exact(v) => v,
                Approximation::Inexact(v, _) => v,
            };
            if v.repr().is_infinite() {
                rec.fail(format!("{}|Context::{}|infinite-result|B{},{}", P, op, B, R::MODE.name()), case(), "infinite", x.describe());
                return;
            }
            let r = fval(v.repr());
            match judge(x, &r, flag, p, R::MODE) {
                Ok(class) => rec.hit(class),
                Err((kind, why)) => rec.fail(format!("{}|Context::{}|{}|B{},{},p{}", P, op, kind, B, R::MODE.name(), if p <= 3 { "<=3" } else { ">3" }), case(), format!("{} flag {:?}: {}", r.show(), flag, why), format!("exact {} rounded to {} digits in mode {}", x.describe(), p, R::MODE.name())),
            }
            if v.precision() != p {
                rec.fail(format!("{}|Context::{}|result-precision|B{}", P, op, B), case(), format!("result carries precision {}", v.precision()), format!("{}", p));
            }
        }
        Err(pm) => rec.fail(format!("{}|Context::{}|panic|B{},{}", P, op, B, R::MODE.name()), case(), pm, format!("exact {} rounded to {} digits", x.describe(), p)),
    }
}

/// which adjustment flags an inexact result can carry in each mode (vacuity guard)
fn inexact_classes(m: Mode) -> &'static [&'static str] {
    match m {
        Mode::Zero => &["inexact-noop"],
        Mode::Away => &["inexact-addone", "inexact-subone"],
        Mode::Up => &["inexact-addone", "inexact-noop"],
        Mode::Down => &["inexact-subone", "inexact-noop"],
        _ => &["inexact-addone", "inexact-subone", "inexact-noop"],
    }
}

fn binary<R: ModeTag, const B: Word>(ctx: &mut Ctx, va: &[Val<B>], vb: &[Val<B>], precs: &[usize], tag: &str) {
    let (na, nb, np) = (va.len() as u64, vb.len() as u64, precs.len() as u64);
    let name = format!("binary.B{}.{}.{}", B, R::MODE.name(), tag);
    ctx.sweep(&name, na * nb * np, |i, rec| {
        let [ia, ib, ip] = unflatten(i, [na, nb, np]);
        let (a, b, p) = (&va[ia], &vb[ib], precs[ip]);
        if a.digits > p || b.digits > p {
            rec.hit("skipped:operand-longer-than-precision");
            return;
        }
        let c = Context::<R>::new(p);
        let desc = |op: &'static str| move || format!("base {} p={} {}: {}e{} {} {}e{}", B, p, R::MODE.name(), a.s, a.e, op, b.s, b.e);
        check::<R, B>(rec, "add", &desc("+"), p, &a.rat.add(&b.rat), guard(|| c.add(&a.repr, &b.repr)));
        check::<R, B>(rec, "sub", &desc("-"), p, &a.rat.sub(&b.rat), guard(|| c.sub(&a.repr, &b.repr)));
        check::<R, B>(rec, "mul", &desc("*"), p, &a.rat.mul(&b.rat), guard(|| c.mul(&a.repr, &b.repr)));
        if !b.s.is_zero() {
            check::<R, B>(rec, "div", &desc("/"), p, &a.rat.div(&b.rat), guard(|| c.div(&a.repr, &b.repr)));
        } else {
            rec.step();
            match guard(|| c.div(&a.repr, &b.repr)) {
                Err(m) if !crate::core::is_internal_panic(&m) => rec.hit("div-by-zero-panics"),
                Err(m) => rec.fail(format!("{}|Context::div|internal-panic|by-zero", P), desc("/")(), m, "documented divide-by-zero panic"),
                Ok(_) => rec.fail(format!("{}|Context::div|missing-panic|by-zero", P), desc("/")(), "returned a value", "panic"),
            }
        }
        // the FBig operators at the same precision must give the Context value
        if ip == 0 && !a.s.is_zero() && !b.s.is_zero() {
            let (fa, fb) = (FBig::<R, B>::from_repr(a.repr.clone(), c), FBig::<R, B>::from_repr(b.repr.clone(), c));
            let pairs: [(&str, Result<FBig<R, B>, String>, Result<FBig<R, B>, String>); 4] = [
                ("add", guard(|| &fa + &fb), guard(|| c.add(&a.repr, &b.repr).value())),
                ("sub", guard(|| &fa - &fb), guard(|| c.sub(&a.repr, &b.repr).value())),
                ("mul", guard(|| &fa * &fb), guard(|| c.mul(&a.repr, &b.repr).value())),
                ("div", guard(|| &fa / &fb), guard(|| c.div(&a.repr, &b.repr).value())),
            ];
            for (op, o, m) in pairs {
                rec.step();
                let same = match (&o, &m) {
                    (Ok(x), Ok(y)) => fval(x.repr()).rat() == fval(y.repr()).rat(),
                    (Err(_), Err(_)) => true,
                    _ => false,
                };
                if !same {
                    rec.fail(format!("{}|FBig::{}|operator-differs-from-context|B{}", P, op, B), desc("op")(), format!("{:?}", o.map(|v| fval(v.repr()).show())), format!("{:?}", m.map(|v| fval(v.repr()).show())));
                }
            }
        }
        // alignment classes of the addition algorithm, from (ediff, digits, p)
        if !a.s.is_zero() && !b.s.is_zero() {
            let ed = (a.e - b.e).abs() as usize;
            rec.hit(if ed == 0 { "align:equal-exponent" } else if ed > p + 2 + 2 { "align:far-apart" } else if ed > p { "align:beyond-precision" } else { "align:overlap" });
            let sum = a.rat.add(&b.rat);
            if sum.is_zero() {
                rec.hit("cancel-to-zero");
            }
            rec.nontrivial();
        }
        rec.sample(|| desc("(+,-,*,/)")());
    });
    ctx.require_classes(&name, &["exact", "align:equal-exponent", "align:overlap", "align:beyond-precision", "cancel-to-zero", "div-by-zero-panics"]);
    ctx.require_classes(&name, inexact_classes(R::MODE));
}

fn unary<R: ModeTag, const B: Word>(ctx: &mut Ctx, va: &[Val<B>], precs: &[usize]) {
    let (na, np) = (va.len() as u64, precs.len() as u64);
    let name = format!("unary.B{}.{}", B, R::MODE.name());
    ctx.sweep(&name, na * np, |i, rec| {
        let [ia, ip] = unflatten(i, [na, np]);
        let (a, p) = (&va[ia], precs[ip]);
        if a.digits > p {
            rec.hit("skipped:operand-longer-than-precision");
            return;
        }
        let c = Context::<R>::new(p);
        let desc = |op: &'static str| move || format!("base {} p={} {}: {}({}e{})", B, p, R::MODE.name(), op, a.s, a.e);
        check::<R, B>(rec, "sqr", &desc("sqr"), p, &a.rat.mul(&a.rat), guard(|| c.sqr(&a.repr)));
        check::<R, B>(rec, "cubic", &desc("cubic"), p, &a.rat.mul(&a.rat).mul(&a.rat), guard(|| c.cubic(&a.repr)));
        if !a.s.is_zero() {
            check::<R, B>(rec, "inv", &desc("inv"), p, &Rat::from_i(1).div(&a.rat), guard(|| c.inv(&a.repr)));
        }
        if !a.rat.is_neg() {
            check::<R, B>(rec, "sqrt", &desc("sqrt"), p, &SqrtOf(a.rat.clone()), guard(|| c.sqrt(&a.repr)));
            rec.hit(if (a.digits as i64 + a.e) % 2 == 0 { "sqrt:even-magnitude" } else { "sqrt:odd-magnitude" });
        } else {
            rec.step();
            match guard(|| c.sqrt(&a.repr)) {
                Err(m) if !crate::core::is_internal_panic(&m) => rec.hit("sqrt-negative-panics"),
                Err(m) => rec.fail(format!("{}|Context::sqrt|internal-panic|negative", P), desc("sqrt")(), m, "documented panic"),
                Ok(_) => rec.fail(format!("{}|Context::sqrt|missing-panic|negative", P), desc("sqrt")(), "returned a value", "panic"),
            }
        }
        if !a.s.is_zero() {
            rec.nontrivial();
        }
        rec.sample(|| desc("(sqr,cubic,inv,sqrt)")());
    });
    ctx.require_classes(&name, &["exact", "sqrt:even-magnitude", "sqrt:odd-magnitude", "sqrt-negative-panics"]);
    ctx.require_classes(&name, inexact_classes(R::MODE));
}

fn base_run<R: ModeTag, const B: Word>(ctx: &mut Ctx, big: &(u32, i64), small: &(u32, i64), precs: &[usize], full: bool) {
    let va = vals::<B>(&f_universe(B as u32, big.0, big.1));
    if full {
        binary::<R, B>(ctx, &va, &va, precs, "full");
    } else {
        let vb = vals::<B>(&f_universe(B as u32, small.0, small.1));
        binary::<R, B>(ctx, &va, &vb, precs, "AxS");
        binary::<R, B>(ctx, &vb, &va, precs, "SxA");
    }
    // unary ops over a wider exponent range and all digit counts
    let vu = vals::<B>(&f_universe(B as u32, big.0 + if B == 2 { 2 } else { 1 }, big.1 + 2));
    let mut up = precs.to_vec();
    up.push(precs.last().unwrap() + 1);
    up.push(precs.last().unwrap() + 2);
    unary::<R, B>(ctx, &vu, &up);
}

/// long significands (beyond any closed universe): digit patterns x exponent gaps around the
/// precision x precisions around the digit count, add/sub/mul/div in both operand orders
fn shape_ops<R: ModeTag, const B: Word>(ctx: &mut Ctx, lens: &[usize]) {
    let b = BigInt::from(B);
    let mut sigs: Vec<(String, BigInt)> = vec![];
    for &l in lens {
        let top: BigInt = num_traits::Pow::pow(b.clone(), (l - 1) as u32);
        let full: BigInt = &top * &b - BigInt::from(1); // all digits B-1
        sigs.push((format!("{}d:max", l), full.clone()));
        sigs.push((format!("{}d:min+1", l), &top + BigInt::from(1)));
        sigs.push((format!("{}d:alt", l), &full / (&b + BigInt::from(1))));
        sigs.push((format!("{}d:max-1", l), &full - BigInt::from(1)));
        if l >= 3 {
            sigs.push((format!("{}d:half", l), &full / BigInt::from(2) + BigInt::from(1)));
        }
    }
    sigs.retain(|(_, s)| !(s % &b).is_zero() && !s.is_zero());
    let smalls: Vec<BigInt> = vec![BigInt::from(1), BigInt::from(B - 1), &b * &b - BigInt::from(1), &b + BigInt::from(1)];
    let gaps: [i64; 12] = [0, 1, 2, -1, -2, 3, 5, 8, 13, 21, 40, 90];
    let (ns, nm, ng) = (sigs.len() as u64, smalls.len() as u64, gaps.len() as u64);
    let name = format!("shape.B{}.{}", B, R::MODE.name());
    let (sr, mr) = (&sigs, &smalls);
    ctx.sweep(&name, ns * nm * ng * 4 * 5, |i, rec| {
        let [si, mi, gi, sg, pi] = crate::h::unflatten(i, [ns, nm, ng, 4, 5]);
        let (tag, s1) = &sr[si];
        let l = digits_b(s1, B as u32);
        let s2 = &mr[mi];
        // gap g: the small operand's top digit sits g + (its own digits) places below ... relative
        // to the last digit of the long operand (negative: overlaps)
        let g = gaps[gi];
        let p = [l, l + 1, l + 2, l + 8, 2 * l + 1][pi];
        if digits_b(s2, B as u32) > p {
            rec.hit("skipped:operand-longer-than-precision");
            return; // the property's premise: operands fit the precision
        }
        let e2 = -(g + p as i64 - l as i64) - digits_b(s2, B as u32) as i64;
        let (a_s, b_s) = (if sg & 1 == 1 { -s1.clone() } else { s1.clone() }, if sg & 2 == 2 { -s2.clone() } else { s2.clone() });
        let (ra, rb) = (mk_repr::<B>(&a_s, 0), mk_repr::<B>(&b_s, e2));
        let (xa, xb) = (Rat::int(a_s.clone()), Rat::scaled(&b_s, B as u32, e2));
        let c = Context::<R>::new(p);
        let bs_txt = b_s.to_string();
        let bs_ref = &bs_txt;
        let desc = |op: &'static str| move || format!("base {} p={} {}: ({} sign {}) {} ({}e{})", B, p, R::MODE.name(), tag, sg & 1, op, bs_ref, e2);
        check::<R, B>(rec, "add", &desc("+"), p, &xa.add(&xb), guard(|| c.add(&ra, &rb)));
        check::<R, B>(rec, "add", &desc("(rev)+"), p, &xa.add(&xb), guard(|| c.add(&rb, &ra)));
        check::<R, B>(rec, "sub", &desc("-"), p, &xa.sub(&xb), guard(|| c.sub(&ra, &rb)));
        check::<R, B>(rec, "sub", &desc("(rev)-"), p, &xb.sub(&xa), guard(|| c.sub(&rb, &ra)));
        if gi < 4 {
            check::<R, B>(rec, "mul", &desc("*"), p, &xa.mul(&xb), guard(|| c.mul(&ra, &rb)));
            check::<R, B>(rec, "div", &desc("/"), p, &xa.div(&xb), guard(|| c.div(&ra, &rb)));
            check::<R, B>(rec, "div", &desc("(rev)/"), p, &xb.div(&xa), guard(|| c.div(&rb, &ra)));
        }
        rec.hit(if e2.unsigned_abs() as usize > p + 2 { "tiny-operand-beyond-precision" } else { "overlapping-operands" });
        rec.nontrivial();
        rec.sample(|| desc("(+,-,*,/)")());
    });
    ctx.require_classes(&name, &["tiny-operand-beyond-precision", "overlapping-operands", "exact"]);
    ctx.require_classes(&name, inexact_classes(R::MODE));
}

/// long x long: every ordered pair of the long-significand patterns (digit counts from the list,
/// both operands with exponent 0 and with the second one shifted), precision = the longer digit
/// count (+0, +1, +8): mul, div, add, sub; and sqr / cubic / inv / sqrt of every pattern.  Digit
/// counts estimated from bit lengths (digits_ub/digits_lb) are off by one next to a power of the
/// base, the integer kernels below (Karatsuba sqrt, long division) switch with the word count.
fn shape_pairs<R: ModeTag, const B: Word>(ctx: &mut Ctx, lens: &[usize]) {
    let b = BigInt::from(B);
    let mut sigs: Vec<(String, BigInt)> = vec![];
    for &l in lens {
        let top: BigInt = num_traits::Pow::pow(b.clone(), (l - 1) as u32);
        let full: BigInt = &top * &b - BigInt::from(1);
        sigs.push((format!("{}d:max", l), full.clone()));
        sigs.push((format!("{}d:min+1", l), &top + BigInt::from(1)));
        sigs.push((format!("{}d:max-1", l), &full - BigInt::from(1)));
        if l >= 3 {
            sigs.push((format!("{}d:half", l), &full / BigInt::from(2) + BigInt::from(1)));
            // t^2 - 1 patterns in the top half: (B^(l/2) - 1) * B^(l - l/2) + 1
            let h: BigInt = num_traits::Pow::pow(b.clone(), (l / 2) as u32);
            let lo: BigInt = num_traits::Pow::pow(b.clone(), (l - l / 2) as u32);
            sigs.push((format!("{}d:top-half-max", l), (&h - BigInt::from(1)) * &lo + BigInt::from(1)));
        }
    }
    sigs.retain(|(_, s)| !(s % &b).is_zero() && !s.is_zero());
    let ns = sigs.len() as u64;
    let name = format!("shape.pairs.B{}.{}", B, R::MODE.name());
    let sr = &sigs;
    ctx.sweep(&name, ns * ns * 3, |i, rec| {
        let [ia, ib, pi] = crate::h::unflatten(i, [ns, ns, 3]);
        let ((ta, sa), (tb, sb)) = (&sr[ia], &sr[ib]);
        let (la, lb) = (digits_b(sa, B as u32), digits_b(sb, B as u32));
        let p = la.max(lb) + [0usize, 1, 8][pi];
        let e2 = -((ib % 3) as i64) * (lb as i64 / 2);
        let (ra, rb) = (mk_repr::<B>(sa, 0), mk_repr::<B>(&-sb.clone(), e2));
        let (xa, xb) = (Rat::int(sa.clone()), Rat::scaled(&-sb.clone(), B as u32, e2));
        let c = Context::<R>::new(p);
        let desc = |op: &'static str| move || format!("base {} p={} {}: ({}) {} (-({})e{})", B, p, R::MODE.name(), ta, op, tb, e2);
        check::<R, B>(rec, "mul", &desc("*"), p, &xa.mul(&xb), guard(|| c.mul(&ra, &rb)));
        check::<R, B>(rec, "div", &desc("/"), p, &xa.div(&xb), guard(|| c.div(&ra, &rb)));
        check::<R, B>(rec, "add", &desc("+"), p, &xa.add(&xb), guard(|| c.add(&ra, &rb)));
        check::<R, B>(rec, "sub", &desc("-"), p, &xa.sub(&xb), guard(|| c.sub(&ra, &rb)));
        rec.hit(if la < lb { "dividend-shorter" } else if la == lb { "same-length" } else { "dividend-longer" });
        if ib == 0 {
            // unary operations of the first operand, also as the square root of a shifted value
            let ud = |op: &'static str| move || format!("base {} p={} {}: {}({})", B, p, R::MODE.name(), op, ta);
            check::<R, B>(rec, "sqr", &ud("sqr"), p, &xa.mul(&xa), guard(|| c.sqr(&ra)));
            check::<R, B>(rec, "cubic", &ud("cubic"), p, &xa.mul(&xa).mul(&xa), guard(|| c.cubic(&ra)));
            check::<R, B>(rec, "inv", &ud("inv"), p, &Rat::from_i(1).div(&xa), guard(|| c.inv(&ra)));
            check::<R, B>(rec, "sqrt", &ud("sqrt"), p, &SqrtOf(xa.clone()), guard(|| c.sqrt(&ra)));
            let r1 = mk_repr::<B>(sa, 1);
            check::<R, B>(rec, "sqrt", &ud("sqrt(B*)"), p, &SqrtOf(Rat::scaled(sa, B as u32, 1)), guard(|| c.sqrt(&r1)));
            rec.hit("unary");
        }
        rec.nontrivial();
        rec.sample(|| desc("(*,/,+,-)")());
    });
    ctx.require_classes(&name, &["dividend-shorter", "same-length", "dividend-longer", "unary"]);
    ctx.require_classes(&name, inexact_classes(R::MODE));
}

pub fn run(ctx: &mut Ctx) {
    ctx.rule = "for every base, mode and precision p in the listed sets: all ordered operand pairs (a, b) from the closed universes F(B,P,E) = { s*B^e : |s| < B^P, |e| <= E } whose digit counts fit p (quick: one operand ranges over the full exponent range, the other over |e| <= 1, both orders) through Context::{add,sub,mul,div}, and all single operands through sqr/cubic/inv/sqrt; plus shape universes of long significands (digit counts up to 257 bits / 78 decimal digits quick, 1025 / 309 thorough; patterns all-max, min+1, max-1, half, top-half-max): long x short with every exponent gap around the precision, and all ordered long x long pairs with the unary operations; each (value, flag) judged against the exact rational result (sqrt: exact comparison of squares) by the rounding contract of the property. non-trivial = both operands non-zero".into();
    ctx.assume("exact rational arithmetic on num_bigint::BigInt is the reference; the contract judged is exactly the property statement (ties in half modes are not judged beyond <= 1/2 ulp)");
    // self-check of the judge on hand-computed cases
    {
        let x = Rat::new(BigInt::from(1234), BigInt::from(1000)); // 1.234
        let ok = judge(&x, &FVal { sig: BigInt::from(12), exp: -1, base: 10 }, Flag::Inexact(dashu_float::round::Rounding::NoOp), 2, Mode::Zero).is_ok()
            && judge(&x, &FVal { sig: BigInt::from(13), exp: -1, base: 10 }, Flag::Inexact(dashu_float::round::Rounding::AddOne), 2, Mode::Up).is_ok()
            && judge(&x, &FVal { sig: BigInt::from(13), exp: -1, base: 10 }, Flag::Inexact(dashu_float::round::Rounding::AddOne), 2, Mode::HalfEven).is_err()
            && judge(&x, &FVal { sig: BigInt::from(12), exp: -1, base: 10 }, Flag::Exact, 2, Mode::Zero).is_err()
            && judge(&x, &FVal { sig: BigInt::from(14), exp: -1, base: 10 }, Flag::Inexact(dashu_float::round::Rounding::AddOne), 2, Mode::Up).is_err()
            && judge(&SqrtOf(Rat::from_i(2)), &FVal { sig: BigInt::from(14), exp: -1, base: 10 }, Flag::Inexact(dashu_float::round::Rounding::NoOp), 2, Mode::Zero).is_ok()
            && judge(&SqrtOf(Rat::from_i(2)), &FVal { sig: BigInt::from(15), exp: -1, base: 10 }, Flag::Inexact(dashu_float::round::Rounding::AddOne), 2, Mode::HalfAway).is_err()
            && representable(&Rat::new(BigInt::from(5), BigInt::from(4)), 2, 3)
            && !representable(&Rat::new(BigInt::from(1), BigInt::from(3)), 10, 5);
        if !ok {
            ctx.machinery("rounding-contract judge failed its self-check");
        }
    }
    let quick = ctx.quick();
    // base 2
    let p2: Vec<usize> = if quick { vec![1, 2, 3, 4, 5] } else { vec![1, 2, 3, 4, 5, 6, 7, 8] };
    let (big2, small2) = if quick { ((4u32, 7i64), (4u32, 1i64)) } else { ((6u32, 9i64), (6u32, 1i64)) };
    for_all_modes!(base_run, 2, (ctx, &big2, &small2, &p2, !quick && false));
    // base 10
    let p10: Vec<usize> = if quick { vec![1, 2, 3] } else { vec![1, 2, 3, 4] };
    let (big10, small10) = if quick { ((2u32, 4i64), (2u32, 1i64)) } else { ((2u32, 5i64), (2u32, 2i64)) };
    for_all_modes!(base_run, 10, (ctx, &big10, &small10, &p10, false));
    if !quick {
        // full products on smaller closed universes (no exponent restriction on either operand)
        let b2 = (4u32, 7i64);
        for_all_modes!(base_run, 2, (ctx, &b2, &b2, &p2, true));
        let b10 = (2u32, 4i64);
        for_all_modes!(base_run, 10, (ctx, &b10, &b10, &p10, true));
        let p3: Vec<usize> = vec![1, 2, 3, 4, 5];
        let (big3, small3) = ((3u32, 6i64), (3u32, 1i64));
        for_all_modes!(base_run, 3, (ctx, &big3, &small3, &p3, false));
        let p16: Vec<usize> = vec![1, 2, 3, 4];
        let (big16, small16) = ((2u32, 5i64), (2u32, 1i64));
        for_all_modes!(base_run, 16, (ctx, &big16, &small16, &p16, false));
        let p36: Vec<usize> = vec![1, 2, 3];
        let (big36, small36) = ((1u32, 4i64), (1u32, 2i64));
        for_all_modes!(base_run, 36, (ctx, &big36, &small36, &p36, false));
    } else {
        // one odd base and one power-of-two base with a tiny universe also in the quick tier
        let p3: Vec<usize> = vec![1, 2, 3];
        let (big3, small3) = ((2u32, 4i64), (2u32, 1i64));
        for_all_modes!(base_run, 3, (ctx, &big3, &small3, &p3, false));
        let p16: Vec<usize> = vec![1, 2];
        let (big16, small16) = ((1u32, 4i64), (1u32, 1i64));
        for_all_modes!(base_run, 16, (ctx, &big16, &small16, &p16, false));
    }
    // long significands
    let l2: Vec<usize> = if quick { vec![1, 2, 3, 8, 19, 20, 21, 33, 64, 65] } else { vec![1, 2, 3, 5, 8, 13, 19, 20, 21, 24, 32, 33, 53, 63, 64, 65, 70, 128, 129] };
    for_all_modes!(shape_ops, 2, (ctx, &l2));
    let l10: Vec<usize> = if quick { vec![1, 2, 5, 9, 10, 19, 20, 21] } else { vec![1, 2, 3, 5, 9, 10, 11, 19, 20, 21, 38, 39, 40] };
    for_all_modes!(shape_ops, 10, (ctx, &l10));
    if !quick {
        let l3: Vec<usize> = vec![1, 2, 5, 20, 40, 41];
        for_all_modes!(shape_ops, 3, (ctx, &l3));
        let l16: Vec<usize> = vec![1, 2, 8, 16, 17];
        for_all_modes!(shape_ops, 16, (ctx, &l16));
    }
    // long x long pairs and unary operations on long significands
    let q2: Vec<usize> = if quick { vec![3, 20, 21, 64, 65, 96, 160, 192, 257] } else { vec![3, 8, 19, 20, 21, 24, 33, 53, 64, 65, 96, 128, 129, 160, 192, 193, 224, 256, 257, 288, 384, 449, 513, 1025] };
    for_all_modes!(shape_pairs, 2, (ctx, &q2));
    let q10: Vec<usize> = if quick { vec![3, 6, 7, 8, 19, 20, 78] } else { vec![3, 5, 6, 7, 8, 9, 10, 19, 20, 21, 38, 39, 58, 59, 78, 116, 155, 309] };
    for_all_modes!(shape_pairs, 10, (ctx, &q10));
    if !quick {
        let q3: Vec<usize> = vec![3, 13, 14, 40, 41, 81, 122, 163];
        for_all_modes!(shape_pairs, 3, (ctx, &q3));
        let q16: Vec<usize> = vec![3, 5, 6, 16, 17, 48, 65];
        for_all_modes!(shape_pairs, 16, (ctx, &q16));
    }
    ctx.bound("bases", serde_json::json!(if quick { vec![2, 10, 3, 16] } else { vec![2, 10, 3, 16, 36] }));
}
