//! C18 — rational approximation functions return the optimal fraction they promise:
//! `RBig::{simplest_in, next_up, next_down, nearest, is_simpler_than, simplest_from_f32,
//! simplest_from_f64, simplest_from_float}`.
//!
//! Oracles (none shares code with dashu):
//! * `brute_simplest` — the definition: scan denominators 1, 2, 3, … and take the first one that has
//!   an integer numerator inside the interval (then the numerator of smallest magnitude);
//! * `fast_simplest` — an independent continued-fraction recursion on `BigInt` with open/closed
//!   end points, used where the scan is infeasible (tiny / huge floats, multi-word end points); it
//!   is compared with the scan in the self-check and in every case where the scan is feasible;
//! * Farey neighbours — scan of all denominators <= limit (floor/ceil per denominator);
//! * IEEE rounding interval — written from the neighbouring floats (mid points, closed iff the
//!   significand is even), self-checked against the hardware f64 -> f32 cast;
//! * `refround` — the definition of the six rounding modes on an exact fraction; a candidate
//!   "converts back" iff `refround(candidate) == f`.

use crate::core::{guard, is_internal_panic, Ctx, Rec};
use crate::h::unflatten;
use crate::uni::*;
use dashu_base::{Approximation, Sign};
use dashu_float::round::{mode, ErrorBounds};
use dashu_float::{Context, FBig, Repr};
use dashu_int::Word;
use dashu_ratio::RBig;
use num_bigint::BigInt;
use num_integer::Integer;
use num_traits::{One, Signed, ToPrimitive, Zero};
use std::cmp::Ordering;

const P: &str = "C18";

// ---------------------------------------------------------------------------------------------
// small exact fractions on i128 (closed universes, brute-force scans)

#[derive(Clone, Copy, Debug, PartialEq, Eq)]
struct Q {
    n: i128,
    d: i128,
}

fn gcd128(a: i128, b: i128) -> i128 {
    let (mut a, mut b) = (a.abs(), b.abs());
    while b != 0 {
        let t = a % b;
        a = b;
        b = t;
    }
    a
}

fn mul(a: i128, b: i128) -> i128 {
    a.checked_mul(b).expect("reference overflow (i128)")
}

impl Q {
    fn new(n: i128, d: i128) -> Q {
        assert!(d != 0);
        let g = gcd128(n, d).max(1);
        let s = if d < 0 { -1 } else { 1 };
        Q { n: s * n / g, d: s * d / g }
    }
    fn int(n: i128) -> Q {
        Q { n, d: 1 }
    }
    fn cmp(&self, o: &Q) -> Ordering {
        mul(self.n, o.d).cmp(&mul(o.n, self.d))
    }
    fn lt(&self, o: &Q) -> bool {
        self.cmp(o) == Ordering::Less
    }
    fn neg(&self) -> Q {
        Q { n: -self.n, d: self.d }
    }
    fn sub(&self, o: &Q) -> Q {
        Q::new(mul(self.n, o.d) - mul(o.n, self.d), mul(self.d, o.d))
    }
    fn add(&self, o: &Q) -> Q {
        Q::new(mul(self.n, o.d) + mul(o.n, self.d), mul(self.d, o.d))
    }
    fn big(&self) -> BQ {
        BQ { n: BigInt::from(self.n), d: BigInt::from(self.d) }
    }
    fn show(&self) -> String {
        if self.d == 1 {
            format!("{}", self.n)
        } else {
            format!("{}/{}", self.n, self.d)
        }
    }
}

fn div_floor(a: i128, b: i128) -> i128 {
    // b > 0
    let q = a / b;
    if a % b != 0 && a < 0 {
        q - 1
    } else {
        q
    }
}
fn div_ceil(a: i128, b: i128) -> i128 {
    -div_floor(-a, b)
}

/// all reduced n/d with |n| <= nmax, 1 <= d <= dmax
fn qset(nmax: i128, dmax: i128) -> Vec<Q> {
    let mut v = vec![];
    for d in 1..=dmax {
        for n in -nmax..=nmax {
            if gcd128(n, d) == 1 {
                v.push(Q { n, d });
            }
        }
    }
    // simplest first (denominator, |numerator|, positive first): the first failing case of a
    // sweep is then also the simplest one
    v.sort_by_key(|q| (q.d, q.n.abs(), q.n < 0));
    v
}

/// The definition: the first denominator d (ascending, d <= dmax) for which an integer n lies in
/// the interval lo <(=) n/d <(=) hi; among those n the one of smallest magnitude (n and -n can only
/// both be inside together with 0, so the "positive first" rule never decides inside an interval).
fn brute_simplest(lo: &Q, hi: &Q, il: bool, ih: bool, dmax: i128) -> Option<Q> {
    for d in 1..=dmax {
        let a = mul(lo.n, d);
        let b = mul(hi.n, d);
        let nlo = if il { div_ceil(a, lo.d) } else { div_floor(a, lo.d) + 1 };
        let nhi = if ih { div_floor(b, hi.d) } else { div_ceil(b, hi.d) - 1 };
        if nlo <= nhi {
            let n = if nlo <= 0 && 0 <= nhi {
                0
            } else if nlo > 0 {
                nlo
            } else {
                nhi
            };
            return Some(Q::new(n, d));
        }
    }
    None
}

// ---------------------------------------------------------------------------------------------
// exact fractions on BigInt + the fast reference

#[derive(Clone, Debug, PartialEq, Eq)]
struct BQ {
    n: BigInt,
    d: BigInt,
}

impl BQ {
    fn new(n: BigInt, d: BigInt) -> BQ {
        assert!(!d.is_zero());
        let g = n.gcd(&d);
        let (mut n, mut d) = (n / &g, d / &g);
        if d.is_negative() {
            n = -n;
            d = -d;
        }
        BQ { n, d }
    }
    fn cmp(&self, o: &BQ) -> Ordering {
        (&self.n * &o.d).cmp(&(&o.n * &self.d))
    }
    fn neg(&self) -> BQ {
        BQ { n: -&self.n, d: self.d.clone() }
    }
    fn small(&self) -> Option<Q> {
        Some(Q { n: self.n.to_i128()?, d: self.d.to_i128()? })
    }
    fn show(&self) -> String {
        let f = |x: &BigInt| if x.bits() > 200 { hex(x) } else { x.to_string() };
        if self.d.is_one() {
            f(&self.n)
        } else {
            format!("{}/{}", f(&self.n), f(&self.d))
        }
    }
    /// lo <(=) self <(=) hi
    fn within(&self, lo: &BQ, hi: &BQ, il: bool, ih: bool) -> bool {
        let a = self.cmp(lo);
        let b = self.cmp(hi);
        (a == Ordering::Greater || il && a == Ordering::Equal) && (b == Ordering::Less || ih && b == Ordering::Equal)
    }
}

/// simplest fraction in a non-empty interval of non-negative numbers, hi = None means +infinity
fn pos_simplest(lo: &BQ, hi: Option<&BQ>, il: bool, ih: bool) -> BQ {
    let fl = lo.n.div_floor(&lo.d);
    let lo_int = lo.d.is_one();
    // smallest integer inside the lower bound
    let n = if il && lo_int { fl.clone() } else { &fl + 1 };
    let inside = match hi {
        None => true,
        Some(h) => {
            let c = (&n * &h.d).cmp(&h.n);
            c == Ordering::Less || ih && c == Ordering::Equal
        }
    };
    if inside {
        return BQ { n, d: BigInt::one() };
    }
    // no integer inside: fl <= lo < hi <= fl + 1; x = fl + 1/y with y in [1/(hi-fl), 1/(lo-fl)]
    let h = hi.unwrap();
    // (all fractions stay reduced: subtracting an integer and taking the reciprocal keep gcd = 1)
    let a = BQ { n: &lo.n - &fl * &lo.d, d: lo.d.clone() };
    let b = BQ { n: &h.n - &fl * &h.d, d: h.d.clone() };
    let ylo = BQ { n: b.d, d: b.n };
    let yhi = if a.n.is_zero() { None } else { Some(BQ { n: a.d, d: a.n }) };
    let y = pos_simplest(&ylo, yhi.as_ref(), ih, il);
    // x = fl + q/p
    BQ { n: &fl * &y.n + &y.d, d: y.n }
}

/// simplest fraction in the interval (lo < hi, or lo == hi with both ends closed)
fn fast_simplest(lo: &BQ, hi: &BQ, il: bool, ih: bool) -> BQ {
    let zero = BQ { n: BigInt::zero(), d: BigInt::one() };
    if zero.within(lo, hi, il, ih) {
        return zero;
    }
    if !hi.n.is_positive() {
        pos_simplest(&hi.neg(), Some(&lo.neg()), ih, il).neg()
    } else {
        pos_simplest(lo, Some(hi), il, ih)
    }
}

// ---------------------------------------------------------------------------------------------
// dashu <-> reference

fn to_rbig(q: &BQ) -> RBig {
    RBig::from_parts(ref_to_i(&q.n), ref_to_u(q.d.magnitude()))
}

fn from_rbig(r: &RBig) -> BQ {
    BQ { n: i_to_ref(r.numerator()), d: BigInt::from(u_to_ref(r.denominator())) }
}

fn panic_kind(p: &str) -> &'static str {
    if is_internal_panic(p) {
        "internal-panic"
    } else {
        "panic"
    }
}

// ---------------------------------------------------------------------------------------------
// Farey neighbours by scanning every denominator <= limit

fn farey_up(x: &Q, limit: i128) -> Q {
    let mut best: Option<Q> = None;
    for d in 1..=limit {
        let c = Q::new(div_floor(mul(x.n, d), x.d) + 1, d);
        if best.map_or(true, |b| c.lt(&b)) {
            best = Some(c);
        }
    }
    best.unwrap()
}

fn farey_down(x: &Q, limit: i128) -> Q {
    let mut best: Option<Q> = None;
    for d in 1..=limit {
        let c = Q::new(div_ceil(mul(x.n, d), x.d) - 1, d);
        if best.map_or(true, |b| b.lt(&c)) {
            best = Some(c);
        }
    }
    best.unwrap()
}

// ---------------------------------------------------------------------------------------------
// the documented simplicity order

fn simpler(a: &Q, b: &Q) -> bool {
    // smaller denominator first, then smaller numerator magnitude, then positive before negative
    (a.d, a.n.abs(), a.n < 0) < (b.d, b.n.abs(), b.n < 0)
}

// ---------------------------------------------------------------------------------------------
// IEEE binary formats: decoding and the round-to-nearest-even interval of a finite value

#[derive(Clone, Copy)]
struct Fmt {
    name: &'static str,
    mbits: u32, // significand bits including the hidden one
    ebits: u32,
}
const F32: Fmt = Fmt { name: "f32", mbits: 24, ebits: 8 };
const F64: Fmt = Fmt { name: "f64", mbits: 53, ebits: 11 };

enum Dec {
    Nan,
    Inf,
    Fin { neg: bool, m: u64, e: i64 }, // value = (-1)^neg * m * 2^e
}

impl Fmt {
    fn bias(&self) -> i64 {
        (1i64 << (self.ebits - 1)) - 1
    }
    fn emin(&self) -> i64 {
        1 - self.bias() - (self.mbits as i64 - 1)
    }
    fn decode(&self, bits: u64) -> Dec {
        let fb = self.mbits - 1;
        let frac = bits & ((1u64 << fb) - 1);
        let ex = ((bits >> fb) & ((1u64 << self.ebits) - 1)) as i64;
        let neg = (bits >> (fb + self.ebits)) & 1 == 1;
        if ex == (1i64 << self.ebits) - 1 {
            return if frac == 0 { Dec::Inf } else { Dec::Nan };
        }
        if ex == 0 {
            Dec::Fin { neg, m: frac, e: self.emin() }
        } else {
            Dec::Fin { neg, m: frac | (1u64 << fb), e: ex - self.bias() - fb as i64 }
        }
    }
    /// rounding interval of the positive value m * 2^e (m != 0): the mid points to the two
    /// neighbouring values of the format; both ends belong to it iff m is even (ties to even).
    /// Below a power of two the spacing halves, so the lower mid point is closer.
    fn interval(&self, m: u64, e: i64) -> (BQ, BQ, bool) {
        let k = |c: BigInt, e2: i64| -> BQ {
            if e2 >= 0 {
                BQ::new(c << (e2 as usize), BigInt::one())
            } else {
                BQ::new(c, BigInt::one() << ((-e2) as usize))
            }
        };
        let m_b = BigInt::from(m);
        let lo = if m == 1u64 << (self.mbits - 1) && e > self.emin() { k(&m_b * 4 - 1, e - 2) } else { k(&m_b * 2 - 1, e - 1) };
        let hi = k(&m_b * 2 + 1, e - 1);
        (lo, hi, m % 2 == 0)
    }
}

// ---------------------------------------------------------------------------------------------
// refround: the six rounding modes on an exact fraction (from the mode descriptions in
// float/src/round.rs docs: toward 0, away from 0, toward +inf, toward -inf, nearest ties-even,
// nearest ties-away).  Returns the rounded value with `p` significant base-`b` digits.

const MODES: [&str; 6] = ["Zero", "Away", "Down", "Up", "HalfAway", "HalfEven"];

fn refround(x: &Q, b: i128, p: u32, mode: usize) -> Q {
    if x.n == 0 {
        return Q::int(0);
    }
    let neg = x.n < 0;
    let (mut num, mut den) = (x.n.abs(), x.d);
    let (hi, lo) = (b.pow(p), b.pow(p - 1));
    let mut e: i32 = 0;
    // scale so that lo <= num/den < hi
    while num >= mul(den, hi) {
        den = mul(den, b);
        e += 1;
    }
    while num < mul(den, lo) {
        num = mul(num, b);
        e -= 1;
    }
    let (q, r) = (num / den, num % den);
    let up = if r == 0 {
        false
    } else {
        match mode {
            0 => false,
            1 => true,
            2 => neg,
            3 => !neg,
            4 => 2 * r >= den,
            5 => 2 * r > den || 2 * r == den && q % 2 == 1,
            _ => unreachable!(),
        }
    };
    let q = if up { q + 1 } else { q };
    let v = if e >= 0 { Q::new(mul(q, b.pow(e as u32)), 1) } else { Q::new(q, b.pow((-e) as u32)) };
    if neg {
        v.neg()
    } else {
        v
    }
}

/// simplest fraction among those that `refround` maps to f (f has <= p digits, so f itself does):
/// denominators ascending, for each denominator every numerator within +-2 ulp of f is converted.
fn brute_round_simplest(f: &Q, ulp: &Q, b: i128, p: u32, mode: usize) -> Q {
    let w = Q::new(mul(ulp.n, 2), ulp.d);
    let (lo, hi) = (f.sub(&w), f.add(&w));
    for d in 1..=f.d {
        let nlo = div_floor(mul(lo.n, d), lo.d);
        let nhi = div_ceil(mul(hi.n, d), hi.d);
        let mut best: Option<i128> = None;
        for n in nlo..=nhi {
            if refround(&Q::new(n, d), b, p, mode) == *f && best.map_or(true, |m| (n.abs(), n < 0) < (m.abs(), m < 0)) {
                best = Some(n);
            }
        }
        if let Some(n) = best {
            return Q::new(n, d);
        }
    }
    unreachable!("f itself converts back to f")
}

/// Same answer as `brute_round_simplest`, derived analytically: the set { x : refround(x) = f } is
/// an interval whose end points are among { neighbour below, midpoint below, f, midpoint above,
/// neighbour above }; which of them, and whether they belong to the set, is decided by probing
/// `refround` itself, then the continued-fraction reference picks the simplest fraction inside.
/// Used for significands that are too long for the denominator scan; on the closed universes both
/// oracles are computed and must agree (machinery error otherwise).
fn fast_round_simplest(f: &Q, ulp: &Q, b: i128, p: u32, mode: usize) -> BQ {
    let rep = |x: &Q| refround(x, b, p, mode) == *x;
    let fine = Q::new(ulp.n, mul(ulp.d, b)); // spacing on the zero side of a power of the base
    let up = { let c = f.add(&fine); if rep(&c) && c != *f { c } else { f.add(ulp) } };
    let down = { let c = f.sub(&fine); if rep(&c) && c != *f { c } else { f.sub(ulp) } };
    let two = Q::int(2);
    let mid = |a: &Q, c: &Q| Q::new(mul(a.n, c.d) + mul(c.n, a.d), mul(mul(a.d, c.d), two.n));
    let (mdown, mup) = (mid(&down, f), mid(f, &up));
    let goes = |x: &Q| refround(x, b, p, mode) == *f;
    // a point strictly inside (a, c), close to a
    let just_above = |a: &Q, c: &Q| { let d = c.sub(a); a.add(&Q::new(d.n, mul(d.d, 1000))) };
    let just_below = |a: &Q, c: &Q| { let d = c.sub(a); c.sub(&Q::new(d.n, mul(d.d, 1000))) };
    let (lo, il) = if goes(&just_above(&down, &mdown)) {
        (down.clone(), false)
    } else if goes(&just_above(&mdown, f)) {
        (mdown.clone(), goes(&mdown))
    } else {
        (f.clone(), true)
    };
    let (hi, ih) = if goes(&just_below(&mup, &up)) {
        (up.clone(), false)
    } else if goes(&just_below(f, &mup)) {
        (mup.clone(), goes(&mup))
    } else {
        (f.clone(), true)
    };
    fast_simplest(&lo.big(), &hi.big(), il, ih)
}

// ---------------------------------------------------------------------------------------------
// dashu calls for FBig<R, B>

fn sff<R: ErrorBounds, const B: Word>(s: &BigInt, e: isize, p: usize, inf: Option<bool>) -> Result<Option<RBig>, String> {
    let repr = match inf {
        Some(false) => Repr::<B>::infinity(),
        Some(true) => Repr::<B>::neg_infinity(),
        None => Repr::<B>::new(ref_to_i(s), e),
    };
    guard(|| {
        let f = FBig::<R, B>::from_repr(repr, Context::<R>::new(p));
        RBig::simplest_from_float(&f)
    })
}

/// Informational only (never a verdict): does dashu's own correctly rounded conversion
/// `RBig::to_float(p)` take `q` to s * B^e?  Ties the reference `refround` to the library's rounding.
fn tff<R: ErrorBounds, const B: Word>(s: &BigInt, e: isize, p: usize, q: &RBig) -> Result<bool, String> {
    guard(|| q.to_float::<R, B>(p).value().into_repr() == Repr::<B>::new(ref_to_i(s), e))
}

macro_rules! by_base_mode {
    ($base:expr, $m:expr, $f:ident, $($a:expr),*) => {{
        macro_rules! by_mode {
            ($b:literal) => {
                match $m {
                    0 => $f::<mode::Zero, $b>($($a),*),
                    1 => $f::<mode::Away, $b>($($a),*),
                    2 => $f::<mode::Down, $b>($($a),*),
                    3 => $f::<mode::Up, $b>($($a),*),
                    4 => $f::<mode::HalfAway, $b>($($a),*),
                    _ => $f::<mode::HalfEven, $b>($($a),*),
                }
            };
        }
        match $base {
            2 => by_mode!(2),
            3 => by_mode!(3),
            10 => by_mode!(10),
            16 => by_mode!(16),
            _ => panic!("base {} not instantiated", $base),
        }
    }};
}

fn call_float(base: u32, m: usize, s: &BigInt, e: isize, p: usize, inf: Option<bool>) -> Result<Option<RBig>, String> {
    by_base_mode!(base, m, sff, s, e, p, inf)
}

fn probe_to_float(base: u32, m: usize, s: &BigInt, e: isize, p: usize, q: &RBig) -> Result<bool, String> {
    by_base_mode!(base, m, tff, s, e, p, q)
}

// ---------------------------------------------------------------------------------------------
// one IEEE case (shared by the f32 and f64 sweeps)

fn ieee_case(rec: &mut Rec, fmt: &Fmt, bits: u64, got: Result<Option<RBig>, String>, scan_max: i128) {
    let site = if fmt.mbits == 24 { "RBig::simplest_from_f32" } else { "RBig::simplest_from_f64" };
    let case = || format!("{} bits {:#x}", fmt.name, bits);
    rec.step();
    let (neg, m, e) = match fmt.decode(bits) {
        Dec::Nan | Dec::Inf => {
            rec.hit("nan-or-inf");
            match got {
                Ok(None) => {}
                Ok(Some(r)) => rec.fail(format!("{}|{}|wrong-value|nan-or-inf", P, site), case(), format!("Some({})", from_rbig(&r).show()), "None"),
                Err(p) => rec.fail(format!("{}|{}|{}|nan-or-inf", P, site, panic_kind(&p)), case(), p, "None"),
            }
            return;
        }
        Dec::Fin { neg, m, e } => (neg, m, e),
    };
    let mclass = if m == 0 {
        "zero"
    } else if m < 1u64 << (fmt.mbits - 1) {
        if m % 2 == 0 {
            "subnormal-even"
        } else {
            "subnormal-odd"
        }
    } else if m == 1u64 << (fmt.mbits - 1) {
        "pow2"
    } else if m % 2 == 0 {
        "even"
    } else {
        "odd"
    };
    let eclass = if e > 0 {
        "ulp>1"
    } else if e == 0 {
        "ulp=1"
    } else {
        "ulp<1"
    };
    let class = if m == 0 { "zero".to_string() } else { format!("{},{}", eclass, mclass) };
    rec.hit(&format!("significand:{}", mclass));
    if m != 0 {
        rec.hit(eclass);
    }
    // expected value
    let (want, lo, hi, incl) = if m == 0 {
        let z = BQ { n: BigInt::zero(), d: BigInt::one() };
        (z.clone(), z.clone(), z, true)
    } else {
        rec.nontrivial();
        let (lo, hi, incl) = fmt.interval(m, e);
        let (lo, hi) = if neg { (hi.neg(), lo.neg()) } else { (lo, hi) };
        let fast = fast_simplest(&lo, &hi, incl, incl);
        // the scan, where it is feasible: end points must leave room for the products in i128
        let fits = |q: &BQ| q.n.bits() <= 90 && q.d.bits() <= 100;
        if fits(&lo) && fits(&hi) {
            match brute_simplest(&lo.small().unwrap(), &hi.small().unwrap(), incl, incl, scan_max) {
                Some(b) => {
                    rec.hit("oracle:scan+fast");
                    if b.big() != fast {
                        rec.hit("ref-disagree");
                    }
                }
                None => rec.hit("oracle:fast-only(scan gave up)"),
            }
        } else {
            rec.hit("oracle:fast-only(end points too large)");
        }
        if incl && (fast == lo || fast == hi) {
            rec.hit("expected-is-closed-end-point");
        }
        (fast, lo, hi, incl)
    };
    match got {
        Ok(Some(r)) => {
            let o = from_rbig(&r);
            if o != want {
                let kind = if o.within(&lo, &hi, incl, incl) { "not-simplest" } else { "does-not-round-back" };
                rec.fail(
                    format!("{}|{}|{}|{}", P, site, kind, class),
                    format!("{} = {}{} * 2^{} (rounding interval {}{}, {}{})", case(), if neg { "-" } else { "" }, m, e, if incl { "[" } else { "(" }, lo.show(), hi.show(), if incl { "]" } else { ")" }),
                    format!("Some({})", o.show()),
                    format!("Some({})", want.show()),
                );
            }
        }
        Ok(None) => rec.fail(format!("{}|{}|wrong-value|{}", P, site, class), case(), "None", format!("Some({})", want.show())),
        Err(p) => rec.fail(format!("{}|{}|{}|{}", P, site, panic_kind(&p), class), case(), p, format!("Some({})", want.show())),
    }
}

fn digits_of(mut s: i128, b: i128) -> u32 {
    let mut k = 0;
    s = s.abs();
    while s > 0 {
        s /= b;
        k += 1;
    }
    k
}

fn bpow(b: i128, e: i32) -> Q {
    if e >= 0 {
        Q::int(b.pow(e as u32))
    } else {
        Q::new(1, b.pow((-e) as u32))
    }
}

// ---------------------------------------------------------------------------------------------

fn self_check(ctx: &mut Ctx) {
    // 1. fast reference == scan on every interval over Q(7,7), all four open/closed combinations,
    //    plus degenerate closed intervals
    let u = qset(7, 7);
    let mut n = 0u64;
    for a in &u {
        for b in &u {
            if !a.lt(b) {
                continue;
            }
            for fl in 0..4 {
                let (il, ih) = (fl & 1 == 1, fl & 2 == 2);
                let s = brute_simplest(a, b, il, ih, a.d + b.d + 1);
                let f = fast_simplest(&a.big(), &b.big(), il, ih);
                n += 1;
                if s.map(|s| s.big()) != Some(f.clone()) {
                    ctx.machinery(format!("reference self-check: scan {:?} != fast {} on {}{}, {}{}", s, f.show(), if il { "[" } else { "(" }, a.show(), b.show(), if ih { "]" } else { ")" }));
                    return;
                }
                // and the result is inside, and nothing simpler (by the documented order) is
                let s = s.unwrap();
                for c in &u {
                    let inside = c.big().within(&a.big(), &b.big(), il, ih);
                    if inside && simpler(c, &s) {
                        ctx.machinery(format!("reference self-check: {} is inside and simpler than {}", c.show(), s.show()));
                        return;
                    }
                }
            }
        }
        if fast_simplest(&a.big(), &a.big(), true, true) != a.big() {
            ctx.machinery("reference self-check: degenerate interval".to_string());
        }
    }
    // 2. Farey scan: neighbours satisfy b*c - a*d = 1 and agree with the sorted list of all fractions
    for lim in 1..=9i128 {
        let mut all: Vec<Q> = vec![];
        for d in 1..=lim {
            for nn in -3 * d..=3 * d {
                if gcd128(nn, d) == 1 {
                    all.push(Q { n: nn, d });
                }
            }
        }
        all.sort_by(|a, b| a.cmp(b));
        for x in qset(9, 11).iter().filter(|x| x.n.abs() < 2 * x.d) {
            let (dn, up) = (farey_down(x, lim), farey_up(x, lim));
            let l = all.iter().rev().find(|c| c.lt(x)).unwrap();
            let r = all.iter().find(|c| x.lt(c)).unwrap();
            n += 1;
            let adjacent = if x.d <= lim { true } else { up.n * dn.d - dn.n * up.d == 1 };
            if *l != dn || *r != up || !adjacent {
                ctx.machinery(format!("reference self-check: Farey neighbours of {} order {}: {} {} vs {} {}", x.show(), lim, dn.show(), up.show(), l.show(), r.show()));
                return;
            }
        }
    }
    // 3. IEEE interval against the hardware f64 -> f32 cast (correctly rounded, ties to even)
    let to_f64 = |q: &BQ| -> f64 {
        // end points are c * 2^j with c < 2^27: exact in f64
        let c = q.n.to_f64().unwrap();
        let d = q.d.to_f64().unwrap();
        c / d
    };
    let mut pats: Vec<u32> = vec![];
    for ex in [0u32, 1, 2, 3, 100, 126, 127, 128, 150, 151, 152, 200, 253, 254] {
        for fr in [0u32, 1, 2, 3, 0x400000, 0x7FFFFE, 0x7FFFFF, 0x2AAAAA, 0x555555] {
            pats.push(ex << 23 | fr);
        }
    }
    for bits in pats {
        if let Dec::Fin { m, e, .. } = F32.decode(bits as u64) {
            if m == 0 {
                continue;
            }
            let x = f32::from_bits(bits);
            // the decoder itself
            if (m as f64) * 2f64.powi(e as i32) != x as f64 {
                ctx.machinery(format!("reference self-check: decode of f32 {:#x}", bits));
                return;
            }
            let (lo, hi, incl) = F32.interval(m, e);
            let (l, h) = (to_f64(&lo), to_f64(&hi));
            let l_in = f64::from_bits(l.to_bits() + 1);
            let l_out = f64::from_bits(l.to_bits() - 1);
            let h_in = f64::from_bits(h.to_bits() - 1);
            let h_out = f64::from_bits(h.to_bits() + 1);
            n += 1;
            let ok = ((l as f32 == x) == incl) && ((h as f32 == x) == incl) && l_in as f32 == x && h_in as f32 == x && l_out as f32 != x && h_out as f32 != x;
            if !ok {
                ctx.machinery(format!("reference self-check: IEEE interval of f32 {:#x} disagrees with the hardware cast", bits));
                return;
            }
        }
    }
    // 4. refround: literal table written from the mode descriptions, and nearest-even against the
    //    hardware integer -> f32 cast
    let t: [(i128, i128, i128, u32, usize, i128, i128); 16] = [
        (125, 10, 10, 2, 5, 12, 1),
        (135, 10, 10, 2, 5, 14, 1),
        (125, 10, 10, 2, 4, 13, 1),
        (-125, 10, 10, 2, 4, -13, 1),
        (-125, 10, 10, 2, 5, -12, 1),
        (-19, 10, 10, 1, 0, -1, 1),
        (-19, 10, 10, 1, 1, -2, 1),
        (-19, 10, 10, 1, 2, -2, 1),
        (-19, 10, 10, 1, 3, -1, 1),
        (19, 10, 10, 1, 2, 1, 1),
        (19, 10, 10, 1, 3, 2, 1),
        (999, 1, 10, 2, 1, 1000, 1),
        (1, 3, 10, 3, 5, 333, 1000),
        (2, 3, 2, 3, 5, 5, 8),
        (7, 2, 3, 1, 4, 3, 1),
        (12345, 1, 10, 2, 0, 12000, 1),
    ];
    for (nn, dd, b, p, m, wn, wd) in t {
        n += 1;
        if refround(&Q::new(nn, dd), b, p, m) != Q::new(wn, wd) {
            ctx.machinery(format!("reference self-check: refround({}/{}, base {}, {} digits, {})", nn, dd, b, p, MODES[m]));
            return;
        }
    }
    for k in 0..200i128 {
        for base in [1i128 << 24, 1 << 25, (1 << 26) - 100, 123456789] {
            let v = base + k;
            n += 1;
            if refround(&Q::int(v), 2, 24, 5) != Q::int((v as f32) as i128) {
                ctx.machinery(format!("reference self-check: refround({}, 2, 24, HalfEven) vs hardware cast", v));
                return;
            }
        }
    }
    ctx.bound("reference_self_check_comparisons", n);
}

fn check_ref_agreement(ctx: &mut Ctx, sweep: &str) {
    let bad = ctx.sweeps.iter().find(|s| s.name == sweep).and_then(|s| s.classes.get("ref-disagree").copied()).unwrap_or(0);
    if bad != 0 {
        ctx.machinery(format!("sweep {}: the scan and the continued-fraction reference disagree on {} cases", sweep, bad));
    }
}

pub fn run(ctx: &mut Ctx) {
    ctx.rule = "closed universes walked completely: simplest_in on all ordered pairs (l, u) of Q(N,N) (reduced n/d, |n| <= N, d <= N; includes equal, swapped, negative, sign-straddling, zero and integer end points) plus multi-word end points; next_up/next_down/nearest on every x in Q(M,M) and x +- 1/997 with every limit 1..L and limits around 997; is_simpler_than on all ordered pairs of Q(K,K); simplest_from_f32/f64 on every float of a bit-pattern grid (sign x exponent x significand patterns incl. NaN/inf/zero/subnormal/powers of two/odd+even significands/values >= 2^24 resp. 2^53) and on all f32 (f64) in [2^-8, 2^8) ([2^-4, 2^4)) with <= 12 (8) significand bits and all f64 n/d, |n|,d <= D; simplest_from_float on every FBig s*B^e (|s| < B^P, B not dividing s, |e| <= E) x 6 rounding modes x precisions {digits, digits+2}, plus zero/infinite/unlimited-precision values. non-trivial = the answer is not forced by a shortcut (l != u and 0 not inside; denominator > limit or a neighbour is asked; floats: finite non-zero)".into();
    ctx.assume("simplicity order as documented at RBig::simplest_in: smaller denominator, then smaller |numerator|, then positive; inside an interval the first two criteria already single out one fraction");
    ctx.assume("nearest: the returned sign is sign(result - self), as in the doc example and rational/tests/simplify.rs (the prose says 'self - self.nearest()'); an exact tie between the two neighbours is not specified: either neighbour with its own sign is accepted");
    ctx.assume("simplest_from_f32/f64: a fraction 'converts back' iff it lies in the IEEE round-to-nearest-even interval of the value (mid points to both neighbouring floats, closed iff the significand is even; lower mid point at 1/4 ulp below powers of two)");
    ctx.assume("simplest_from_float: a fraction converts back iff rounding it to the float's precision (digits of the context; unlimited precision: only the value itself) in the float's rounding mode gives the float");
    ctx.assume("limit = 0 (documented nowhere, panics) is outside the property's quantifier (limits >= 1) and not enumerated");
    ctx.assume("histogram classes 'info:dashu to_float(expected) ...' are informational (no verdict): they compare the reference rounding `refround` with dashu's own RBig::to_float on the expected fraction; the few '!=' cases are double roundings inside RBig::to_float (e.g. 7/3 -> 2.5 at 4 bits, 5/11 -> 0.46 at 2 digits), which belong to C06");
    self_check(ctx);

    // ------------------------------------------------------------------ simplest_in, closed
    let nq = ctx.pick(12, 40);
    ctx.bound("simplest_in_Q(N,N)", nq as u64);
    let u = qset(nq, nq);
    let n = u.len() as u64;
    let ur = &u;
    ctx.sweep("simplest_in.pairs", n * n, |i, rec| {
        let (l, r) = (&ur[(i / n) as usize], &ur[(i % n) as usize]);
        let (lo, hi) = if r.lt(l) { (r, l) } else { (l, r) };
        let class = if lo == hi {
            "equal"
        } else if lo.n < 0 && hi.n > 0 {
            "straddle"
        } else if lo.n == 0 {
            "zero-lower-end"
        } else if hi.n == 0 {
            "zero-upper-end"
        } else if lo.n > 0 {
            "positive"
        } else {
            "negative"
        };
        rec.hit(class);
        if r.lt(l) {
            rec.hit("swapped");
        }
        if lo != hi && lo.d == 1 && hi.d == 1 {
            rec.hit("integer-end-points");
        }
        if lo != hi && !(lo.n < 0 && hi.n > 0) {
            rec.nontrivial();
        }
        let want = if lo == hi {
            *lo
        } else {
            let w = brute_simplest(lo, hi, false, false, lo.d + hi.d).expect("the mediant is inside");
            if fast_simplest(&lo.big(), &hi.big(), false, false) != w.big() {
                rec.hit("ref-disagree");
            }
            w
        };
        rec.hit(if want.d == 1 { "result-integer" } else if want.d > lo.d.max(hi.d) { "result-den-above-both" } else { "result-den-between" });
        let (a, b) = (to_rbig(&l.big()), to_rbig(&r.big()));
        let got = guard(|| RBig::simplest_in(a, b));
        let case = || format!("simplest_in({}, {})", l.show(), r.show());
        rec.step();
        match got {
            Ok(g) => {
                let o = from_rbig(&g);
                if o != want.big() {
                    let inside = if lo == hi { o == lo.big() } else { o.within(&lo.big(), &hi.big(), false, false) };
                    rec.fail(format!("{}|RBig::simplest_in|{}|{}", P, if inside { "not-simplest" } else { "not-in-interval" }, class), case(), o.show(), want.show());
                }
            }
            Err(p) => rec.fail(format!("{}|RBig::simplest_in|{}|{}", P, panic_kind(&p), class), case(), p, want.show()),
        }
        rec.sample(|| format!("{} -> {}", case(), want.show()));
    });
    ctx.require_classes("simplest_in.pairs", &["equal", "straddle", "zero-lower-end", "zero-upper-end", "positive", "negative", "swapped", "integer-end-points", "result-integer", "result-den-above-both", "result-den-between"]);
    check_ref_agreement(ctx, "simplest_in.pairs");

    // ------------------------------------------------------------------ simplest_in, multi-word end points
    let lens: Vec<usize> = ctx.pick(vec![1, 2, 3, 5], vec![1, 2, 3, 4, 5, 8, 24, 40]);
    let pats = ["ones", "top1p1", "alt", "lcgA", "lcgSeed"];
    ctx.bound("simplest_in_big_lengths_words", serde_json::json!(lens));
    let mut bigs: Vec<(BQ, BQ, String)> = vec![];
    for &len in &lens {
        for pat in pats {
            let q = BigInt::from(shape(len, pat, ctx.seed));
            let p = BigInt::from(shape(len, "lcgB", ctx.seed)) | BigInt::one();
            let x = BQ::new(p.clone(), q.clone());
            // (x, x + 1/(q*k)) for several k, a wide interval, and a pair of near-equal neighbours
            for (k, name) in [(BigInt::one(), "k=1"), (BigInt::from(3u8), "k=3"), (BigInt::from(3u8) << 64usize, "k=3*2^64"), (BigInt::from(shape(len + 1, "lcgA", ctx.seed)), "k=len+1 words")] {
                let y = BQ::new(&x.n * &k + 1, &x.d * &k);
                bigs.push((x.clone(), y, format!("{}w {} {}", len, pat, name)));
            }
            bigs.push((x.clone(), BQ::new(&p + 1, &q + 1), format!("{}w {} (p+1)/(q+1)", len, pat)));
            bigs.push((x.clone(), BQ::new(&p + 1, q.clone()), format!("{}w {} (p+1)/q", len, pat)));
        }
    }
    let nb = bigs.len() as u64;
    let br = &bigs;
    ctx.sweep("simplest_in.multiword", nb * 4, |i, rec| {
        let [bi, neg, swap] = unflatten(i, [nb, 2, 2]);
        let (x, y, name) = &br[bi];
        if x == y {
            return;
        }
        let (x, y) = if neg == 1 { (x.neg(), y.neg()) } else { (x.clone(), y.clone()) };
        let (l, r) = if swap == 1 { (y.clone(), x.clone()) } else { (x.clone(), y.clone()) };
        let (lo, hi) = if x.cmp(&y) == Ordering::Less { (x, y) } else { (y, x) };
        let want = fast_simplest(&lo, &hi, false, false);
        rec.nontrivial();
        rec.hit(if neg == 1 { "negative" } else { "positive" });
        rec.hit(if want.d.bits() > 64 { "result-multiword" } else { "result-one-word" });
        let (a, b) = (to_rbig(&l), to_rbig(&r));
        let got = guard(|| RBig::simplest_in(a, b));
        let case = || format!("simplest_in({}, {}) [{}]", l.show(), r.show(), name);
        let class = format!("multiword,{}", if neg == 1 { "negative" } else { "positive" });
        rec.step();
        match got {
            Ok(g) => {
                let o = from_rbig(&g);
                if o != want {
                    let inside = o.within(&lo, &hi, false, false);
                    rec.fail(format!("{}|RBig::simplest_in|{}|{}", P, if inside { "not-simplest" } else { "not-in-interval" }, class), case(), o.show(), want.show());
                }
            }
            Err(p) => rec.fail(format!("{}|RBig::simplest_in|{}|{}", P, panic_kind(&p), class), case(), p, want.show()),
        }
        rec.sample(|| format!("{} -> {}", case(), want.show()));
    });
    ctx.require_classes("simplest_in.multiword", &["negative", "positive", "result-multiword", "result-one-word"]);

    // ------------------------------------------------------------------ Farey neighbours
    let mq = ctx.pick(12, 32);
    let lmax: i128 = ctx.pick(14, 48);
    ctx.bound("farey_Q(M,M)", mq as u64);
    ctx.bound("farey_limits", format!("1..={} and 996, 997, 998, 2000, 12000", lmax));
    let mut xs: Vec<Q> = vec![];
    for x in qset(mq, mq) {
        xs.push(x);
        xs.push(x.add(&Q::new(1, 997)));
        xs.push(x.sub(&Q::new(1, 997)));
    }
    let mut limits: Vec<i128> = (1..=lmax).collect();
    limits.extend([996, 997, 998, 2000, 12000]);
    let (nx, nl) = (xs.len() as u64, limits.len() as u64);
    let (xr, lr) = (&xs, &limits);
    ctx.sweep("farey.next_up,next_down,nearest", nx * nl, |i, rec| {
        let (x, lim) = (&xr[(i / nl) as usize], lr[(i % nl) as usize]);
        let fits = x.d <= lim;
        let class = format!("{},{}", if lim == 1 { "limit=1" } else { "limit>1" }, if fits { "den<=limit" } else { "den>limit" });
        rec.hit(&class);
        rec.hit(if x.n < 0 { "x-negative" } else if x.n == 0 { "x-zero" } else { "x-positive" });
        if x.d == 1 {
            rec.hit("x-integer");
        }
        rec.nontrivial();
        let (up, down) = (farey_up(x, lim), farey_down(x, lim));
        let rx = to_rbig(&x.big());
        let rl = ref_to_u(BigInt::from(lim).magnitude());
        let case = |f: &str| format!("({}).{}(limit {})", x.show(), f, lim);
        for (name, want) in [("next_up", &up), ("next_down", &down)] {
            let got = guard(|| if name == "next_up" { rx.next_up(&rl) } else { rx.next_down(&rl) });
            rec.step();
            match got {
                Ok(g) => {
                    let o = from_rbig(&g);
                    if o != want.big() {
                        rec.fail(format!("{}|RBig::{}|wrong-value|{}", P, name, class), case(name), o.show(), want.show());
                    }
                }
                Err(p) => rec.fail(format!("{}|RBig::{}|{}|{}", P, name, panic_kind(&p), class), case(name), p, want.show()),
            }
        }
        // nearest
        let got = guard(|| rx.nearest(&rl));
        rec.step();
        let show = |a: &Approximation<RBig, Sign>| match a {
            Approximation::Exact(v) => format!("Exact({})", from_rbig(v).show()),
            Approximation::Inexact(v, s) => format!("Inexact({}, {:?})", from_rbig(v).show(), s),
        };
        let want_txt;
        let ok;
        match &got {
            Err(_) => {
                ok = false;
                want_txt = "a value".to_string();
            }
            Ok(g) => {
                if fits {
                    rec.hit("nearest-exact");
                    want_txt = format!("Exact({})", x.show());
                    ok = matches!(g, Approximation::Exact(v) if from_rbig(v) == x.big());
                } else {
                    let (du, dd) = (up.sub(x), x.sub(&down));
                    let is_up = matches!(g, Approximation::Inexact(v, Sign::Positive) if from_rbig(v) == up.big());
                    let is_down = matches!(g, Approximation::Inexact(v, Sign::Negative) if from_rbig(v) == down.big());
                    match du.cmp(&dd) {
                        Ordering::Less => {
                            rec.hit("nearest-up");
                            want_txt = format!("Inexact({}, Positive)", up.show());
                            ok = is_up;
                        }
                        Ordering::Greater => {
                            rec.hit("nearest-down");
                            want_txt = format!("Inexact({}, Negative)", down.show());
                            ok = is_down;
                        }
                        Ordering::Equal => {
                            rec.hit("unspecified:nearest-tie");
                            want_txt = format!("Inexact({}, Negative) or Inexact({}, Positive)", down.show(), up.show());
                            ok = is_up || is_down;
                        }
                    }
                }
            }
        }
        match &got {
            Ok(g) => {
                if !ok {
                    let kind = match g {
                        Approximation::Exact(_) => "wrong-value",
                        Approximation::Inexact(v, _) => {
                            let o = from_rbig(v);
                            if !fits && (o == up.big() || o == down.big()) {
                                "wrong-flag"
                            } else {
                                "wrong-value"
                            }
                        }
                    };
                    rec.fail(format!("{}|RBig::nearest|{}|{}", P, kind, class), case("nearest"), show(g), want_txt);
                }
            }
            Err(p) => rec.fail(format!("{}|RBig::nearest|{}|{}", P, panic_kind(p), class), case("nearest"), p.clone(), want_txt),
        }
        rec.sample(|| format!("{}: order-{} neighbours {} < x < {}", x.show(), lim, down.show(), up.show()));
    });
    ctx.require_classes(
        "farey.next_up,next_down,nearest",
        &["limit=1,den<=limit", "limit=1,den>limit", "limit>1,den<=limit", "limit>1,den>limit", "x-negative", "x-zero", "x-positive", "x-integer", "nearest-exact", "nearest-up", "nearest-down", "unspecified:nearest-tie"],
    );

    // ------------------------------------------------------------------ is_simpler_than
    let kq = ctx.pick(6, 20);
    ctx.bound("is_simpler_than_Q(K,K)", kq as u64);
    let sq = qset(kq, kq);
    let ns = sq.len() as u64;
    let sr = &sq;
    ctx.sweep("is_simpler_than.pairs", ns * ns, |i, rec| {
        let (a, b) = (&sr[(i / ns) as usize], &sr[(i % ns) as usize]);
        let want = simpler(a, b);
        let class = if a == b {
            "identical"
        } else if a.d != b.d {
            if (a.d < b.d) == (a.n.abs() <= b.n.abs()) {
                "den-differs,num-agrees"
            } else {
                "den-differs,num-opposes"
            }
        } else if a.n.abs() != b.n.abs() {
            "den-equal,num-differs"
        } else {
            "only-sign-differs"
        };
        rec.hit(class);
        rec.hit(if want { "simpler" } else { "not-simpler" });
        if a != b {
            rec.nontrivial();
        }
        let (ra, rb) = (to_rbig(&a.big()), to_rbig(&b.big()));
        let got = guard(|| ra.is_simpler_than(&rb));
        rec.step();
        let case = || format!("({}).is_simpler_than({})", a.show(), b.show());
        match got {
            Ok(g) => {
                if g != want {
                    rec.fail(format!("{}|RBig::is_simpler_than|wrong-value|{},expected-{}", P, class, want), case(), g.to_string(), want.to_string());
                }
            }
            Err(p) => rec.fail(format!("{}|RBig::is_simpler_than|{}|{}", P, panic_kind(&p), class), case(), p, want.to_string()),
        }
        rec.sample(|| format!("{} -> {}", case(), want));
    });
    ctx.require_classes("is_simpler_than.pairs", &["identical", "den-differs,num-agrees", "den-differs,num-opposes", "den-equal,num-differs", "only-sign-differs", "simpler", "not-simpler"]);

    // ------------------------------------------------------------------ f32
    let scan_max: i128 = ctx.pick(1 << 20, 1 << 22);
    ctx.bound("float_scan_max_denominator", scan_max as u64);
    // (a) all f32 with |x| in [2^-8, 2^8) whose significand has <= 12 bits
    // quick: |x| in [2^-8, 2^8); thorough: [2^-14, 2^26) (reaches the integers with ulp > 1)
    let (ex0, nex): (u32, u64) = ctx.pick((119, 16), (113, 40));
    ctx.bound("f32_short_significand_exponents", format!("2^{} .. 2^{}", ex0 as i64 - 127, ex0 as i64 - 127 + nex as i64));
    ctx.sweep("f32.short-significands", 2 * nex * 2048, |i, rec| {
        let [sg, ex, hi11] = unflatten(i, [2, nex, 2048]);
        let bits = (sg as u32) << 31 | (ex0 + ex as u32) << 23 | (hi11 as u32) << 12;
        let f = f32::from_bits(bits);
        let got = guard(|| RBig::simplest_from_f32(f));
        ieee_case(rec, &F32, bits as u64, got, scan_max);
        rec.sample(|| format!("simplest_from_f32({:?})", f));
    });
    ctx.require_classes("f32.short-significands", &["oracle:scan+fast", "significand:pow2", "significand:even", "ulp<1"]);
    check_ref_agreement(ctx, "f32.short-significands");
    // (b) bit-pattern grid: every exponent field (incl. 0 = subnormal/zero and 255 = inf/NaN)
    let mut fr32: Vec<u32> = vec![0, 1, 2, 3, 4, 5, 6, 0x400000, 0x400001, 0x3FFFFF, 0x7FFFFE, 0x7FFFFF, 0x2AAAAA, 0x555555, 0x123456, 0x490FDB];
    fr32.push((ctx.seed.wrapping_mul(0x9E37_79B9_7F4A_7C15) >> 41) as u32 & 0x7FFFFF);
    let nf = fr32.len() as u64;
    let fr = &fr32;
    ctx.sweep("f32.pattern-grid", 2 * 256 * nf, |i, rec| {
        let [sg, ex, fi] = unflatten(i, [2, 256, nf]);
        let bits = (sg as u32) << 31 | (ex as u32) << 23 | fr[fi];
        let f = f32::from_bits(bits);
        let got = guard(|| RBig::simplest_from_f32(f));
        ieee_case(rec, &F32, bits as u64, got, 1 << 12);
        rec.sample(|| format!("simplest_from_f32({:?})", f));
    });
    ctx.require_classes(
        "f32.pattern-grid",
        &["nan-or-inf", "significand:zero", "significand:subnormal-even", "significand:subnormal-odd", "significand:pow2", "significand:even", "significand:odd", "ulp>1", "ulp=1", "ulp<1", "oracle:scan+fast", "expected-is-closed-end-point"],
    );
    check_ref_agreement(ctx, "f32.pattern-grid");

    // ------------------------------------------------------------------ f64
    // (a) n/d grid
    let dn: u64 = ctx.pick(40, 150);
    ctx.bound("f64_fraction_grid", dn);
    ctx.sweep("f64.fractions", (2 * dn + 1) * dn, |i, rec| {
        let n = (i / dn) as i64 - dn as i64;
        let d = (i % dn) as i64 + 1;
        let f = n as f64 / d as f64;
        let got = guard(|| RBig::simplest_from_f64(f));
        ieee_case(rec, &F64, f.to_bits(), got, 1 << 12);
        rec.sample(|| format!("simplest_from_f64({}/{} = {:?})", n, d, f));
    });
    ctx.require_classes("f64.fractions", &["oracle:scan+fast", "significand:zero", "significand:pow2", "significand:even", "significand:odd"]);
    check_ref_agreement(ctx, "f64.fractions");
    // (b) short significands in [2^-4, 2^4)
    ctx.sweep("f64.short-significands", 2 * 8 * 128, |i, rec| {
        let [sg, ex, hi7] = unflatten(i, [2, 8, 128]);
        let bits = (sg as u64) << 63 | (1019 + ex as u64) << 52 | (hi7 as u64) << 45;
        let f = f64::from_bits(bits);
        let got = guard(|| RBig::simplest_from_f64(f));
        ieee_case(rec, &F64, bits, got, 1 << 12);
        rec.sample(|| format!("simplest_from_f64({:?})", f));
    });
    ctx.require_classes("f64.short-significands", &["oracle:scan+fast"]);
    check_ref_agreement(ctx, "f64.short-significands");
    // (c) bit-pattern grid
    let ex64: Vec<u64> = if ctx.quick() {
        let mut v: Vec<u64> = vec![0, 1, 2, 3, 52, 53, 54, 500, 1000, 1040, 1100, 1125, 1500, 2000, 2045, 2046, 2047];
        v.extend(1015..=1030);
        v.extend(1070..=1090);
        v.sort();
        v
    } else {
        (0..=2047).collect()
    };
    ctx.bound("f64_exponent_fields", ex64.len() as u64);
    let mut fr64: Vec<u64> = vec![0, 1, 2, 3, 4, 5, 6, 1 << 51, (1 << 51) + 1, (1 << 51) - 1, (1 << 52) - 2, (1 << 52) - 1, 0xAAAAAAAAAAAAA, 0x5555555555555, 0x123456789ABCD, 0x921FB54442D18];
    fr64.push(ctx.seed.wrapping_mul(0x9E37_79B9_7F4A_7C15) >> 12);
    let (ne, nf64) = (ex64.len() as u64, fr64.len() as u64);
    let (er, fr) = (&ex64, &fr64);
    ctx.sweep("f64.pattern-grid", 2 * ne * nf64, |i, rec| {
        let [sg, ei, fi] = unflatten(i, [2, ne, nf64]);
        let bits = (sg as u64) << 63 | er[ei] << 52 | fr[fi];
        let f = f64::from_bits(bits);
        let got = guard(|| RBig::simplest_from_f64(f));
        ieee_case(rec, &F64, bits, got, 1 << 12);
        rec.sample(|| format!("simplest_from_f64({:?})", f));
    });
    ctx.require_classes(
        "f64.pattern-grid",
        &["nan-or-inf", "significand:zero", "significand:subnormal-even", "significand:subnormal-odd", "significand:pow2", "significand:even", "significand:odd", "ulp>1", "ulp=1", "ulp<1", "oracle:scan+fast", "expected-is-closed-end-point"],
    );
    check_ref_agreement(ctx, "f64.pattern-grid");

    // ------------------------------------------------------------------ FBig
    // (base, P digits of significand, E exponent range)
    let funi: Vec<(u32, u32, i32)> = ctx.pick(vec![(2, 4, 4), (10, 2, 3), (16, 1, 2)], vec![(2, 6, 6), (10, 3, 3), (3, 3, 3), (16, 2, 2)]);
    ctx.bound("fbig_universes(base,P,E)", serde_json::json!(funi));
    let mut fvals: Vec<(u32, i128, i32)> = vec![];
    for &(b, pd, er) in &funi {
        let top = (b as i128).pow(pd);
        for s in -(top - 1)..top {
            if s % b as i128 == 0 {
                continue;
            }
            for e in -er..=er {
                fvals.push((b, s, e));
            }
        }
    }
    // long significands just below / above a power of the base (where digit-count estimates such
    // as digits_ub() are off by one)
    for k in [20u32, 21, 24] {
        for d in [1i128, 3] {
            for e in [-(k as i32), -(k as i32) + 1, -3] {
                fvals.push((2, (1i128 << k) - d, e));
                fvals.push((2, -((1i128 << k) - d), e));
                fvals.push((2, (1i128 << (k - 1)) + d, e));
            }
        }
    }
    for k in [6u32, 8] {
        for e in [-(k as i32), -2] {
            fvals.push((10, 10i128.pow(k) - 1, e));
            fvals.push((10, -(10i128.pow(k) - 3), e));
            fvals.push((10, 10i128.pow(k - 1) + 1, e));
        }
    }
    fvals.sort_by_key(|&(b, s, e)| (funi.iter().position(|u| u.0 == b), s.abs(), e.abs(), s < 0, e < 0));
    let nv = fvals.len() as u64;
    let fv = &fvals;
    ctx.sweep("fbig.values x modes x precisions", nv * 6 * 2, |i, rec| {
        let [vi, m, pk] = unflatten(i, [nv, 6, 2]);
        let (b, s, e) = fv[vi];
        let bb = b as i128;
        let digits = digits_of(s, bb);
        let p = digits + 2 * pk as u32;
        let f = Q::new(s, 1);
        let f = if e >= 0 { Q::new(mul(f.n, bb.pow(e as u32)), 1) } else { Q::new(s, bb.pow((-e) as u32)) };
        let ulp = bpow(bb, e + digits as i32 - p as i32);
        let long = s.abs() >= 1 << 15;
        let fast = fast_round_simplest(&f, &ulp, bb, p, m);
        let want = if long {
            match fast.small() {
                Some(q) => q,
                None => {
                    rec.hit("skipped:expected-fraction-too-large-for-i128");
                    return;
                }
            }
        } else {
            let w = brute_round_simplest(&f, &ulp, bb, p, m);
            if w.big() != fast {
                // the two oracles disagree: never a verdict on the library
                rec.hit("MACHINERY:oracles-disagree");
            }
            w
        };
        if refround(&want, bb, p, m) != f {
            rec.hit("MACHINERY:oracles-disagree");
        }
        rec.hit(if long { "oracle:analytic(long significand)" } else { "oracle:scan+analytic" });
        let pow = s.abs() == 1;
        let class = format!("{},{}-base,{}", MODES[m], if b % 2 == 0 { "even" } else { "odd" }, if pow { "power-of-base" } else { "general" });
        rec.hit(if pk == 0 { "p=digits" } else { "p>digits" });
        rec.nontrivial();
        rec.hit(MODES[m]);
        rec.hit(if pow { "power-of-base" } else { "general" });
        rec.hit(if want == f { "expected-is-f" } else { "expected-simpler-than-f" });
        let got = call_float(b, m, &BigInt::from(s), e as isize, p as usize, None);
        match probe_to_float(b, m, &BigInt::from(s), e as isize, p as usize, &to_rbig(&want.big())) {
            Ok(true) => rec.hit("info:dashu to_float(expected) == f"),
            Ok(false) => rec.hit("info:dashu to_float(expected) != f"),
            Err(_) => rec.hit("info:dashu to_float(expected) panics"),
        }
        let case = || format!("simplest_from_float(FBig<{}, {}> {} * {}^{} = {}, precision {})", MODES[m], b, s, b, e, f.show(), p);
        rec.step();
        match got {
            Ok(Some(g)) => {
                let o = from_rbig(&g);
                if o != want.big() {
                    let back = o.small().map_or(false, |q| q.d < 1 << 40 && q.n.abs() < 1 << 60 && refround(&q, bb, p, m) == f);
                    if back {
                        rec.hit("fail:not-simplest");
                    } else {
                        rec.hit("fail:does-not-round-back");
                    }
                    rec.fail(format!("{}|RBig::simplest_from_float|{}|{}", P, if back { "not-simplest" } else { "does-not-round-back" }, class), case(), format!("Some({})", o.show()), format!("Some({})", want.show()));
                }
            }
            Ok(None) => rec.fail(format!("{}|RBig::simplest_from_float|wrong-value|{}", P, class), case(), "None", format!("Some({})", want.show())),
            Err(p) => rec.fail(format!("{}|RBig::simplest_from_float|{}|{}", P, panic_kind(&p), class), case(), p, format!("Some({})", want.show())),
        }
        rec.sample(|| format!("{} -> {}", case(), want.show()));
    });
    if ctx.sweeps.last().map_or(false, |s| s.classes.contains_key("MACHINERY:oracles-disagree")) {
        ctx.machinery("C18: the scan oracle and the analytic oracle for simplest_from_float disagree");
    }
    ctx.require_classes("fbig.values x modes x precisions", &["oracle:scan+analytic", "oracle:analytic(long significand)", "Zero", "Away", "Down", "Up", "HalfAway", "HalfEven", "power-of-base", "general", "expected-is-f", "expected-simpler-than-f"]);

    // zero, infinities, unlimited precision
    let bases: Vec<u32> = funi.iter().map(|x| x.0).collect();
    let spec: Vec<(&str, i128, i32, usize, Option<bool>)> = vec![
        ("zero", 0, 0, 1, None),
        ("zero", 0, 0, 5, None),
        ("zero-unlimited", 0, 0, 0, None),
        ("infinite", 0, 0, 3, Some(false)),
        ("infinite", 0, 0, 3, Some(true)),
        ("infinite", 0, 0, 0, Some(false)),
        ("unlimited-precision", 1, 0, 0, None),
        ("unlimited-precision", -1, 0, 0, None),
        ("unlimited-precision", 3, -2, 0, None),
        ("unlimited-precision", -3, -2, 0, None),
        ("unlimited-precision", 7, 2, 0, None),
        ("unlimited-precision", -7, 1, 0, None),
        ("unlimited-precision", 1, -3, 0, None),
        ("unlimited-precision", 5, -1, 0, None),
    ];
    let (nbz, nsp) = (bases.len() as u64, spec.len() as u64);
    let (bz, sp) = (&bases, &spec);
    ctx.sweep("fbig.special", nbz * 6 * nsp, |i, rec| {
        let [bi, m, si] = unflatten(i, [nbz, 6, nsp]);
        let b = bz[bi];
        let (kind, s, e, p, inf) = sp[si];
        let bb = b as i128;
        let want: Option<Q> = if inf.is_some() { None } else if e >= 0 { Some(Q::new(mul(s, bb.pow(e as u32)), 1)) } else { Some(Q::new(s, bb.pow((-e) as u32))) };
        rec.hit(kind);
        if kind == "unlimited-precision" {
            rec.nontrivial();
        }
        let got = call_float(b, m, &BigInt::from(s), e as isize, p, inf);
        let class = format!("{},{}", MODES[m], kind);
        let case = || format!("simplest_from_float(FBig<{}, {}> {}, precision {})", MODES[m], b, if let Some(n) = inf { if n { "-inf".to_string() } else { "+inf".to_string() } } else { format!("{} * {}^{}", s, b, e) }, p);
        let wt = want.map_or("None".to_string(), |w| format!("Some({})", w.show()));
        rec.step();
        match got {
            Ok(g) => {
                let o = g.as_ref().map(from_rbig);
                if o != want.map(|w| w.big()) {
                    rec.fail(format!("{}|RBig::simplest_from_float|wrong-value|{}", P, class), case(), o.map_or("None".to_string(), |o| format!("Some({})", o.show())), wt);
                }
            }
            Err(p) => rec.fail(format!("{}|RBig::simplest_from_float|{}|{}", P, panic_kind(&p), class), case(), p, wt),
        }
        rec.sample(|| format!("{} -> {:?}", case(), want.map(|w| w.show())));
    });
    ctx.require_classes("fbig.special", &["zero", "zero-unlimited", "infinite", "unlimited-precision"]);
}
