#!/usr/bin/env python3
"""seed_table.py <suffixes, e.g. cd> [ids...]: markdown rows (id | seeded change | reported by) from seeded/*/meta.json"""
import json, os, sys, re
V = os.path.dirname(os.path.dirname(os.path.abspath(__file__)))
suf = sys.argv[1]
only = set(sys.argv[2:])
print('| id | seeded change | reported by |\n|---|---|---|')
for d in sorted(os.listdir(V + '/seeded')):
    if not os.path.isdir(f'{V}/seeded/{d}') or d[-1] not in suf or (only and d not in only):
        continue
    m = json.load(open(f'{V}/seeded/{d}/meta.json'))
    det = m.get('detected_by', '?')
    # shorten: keep check ids and the first signature of each
    short = '; '.join(re.sub(r'\((.*?)(; .*)?\)$', r'(\1)', x) for x in det.split('); ') ) if False else det
    short = short.replace('|', '\\|')
    if len(short) > 260:
        short = short[:257] + '...'
    note = f" — {m['note']}" if m.get('note') else ''
    print(f"| {d} | {m.get('what', '?').replace('|', chr(92) + '|')} | {short}{note} |")
