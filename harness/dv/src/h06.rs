//! C06 helpers: IEEE-754 binary32/binary64 reference (rounding of exact dyadic / rational values
//! to the float grid under any of the six modes, with the sign of the error), independent of
//! dashu; comparison of observed (value, flag) pairs with that reference.

use crate::core::Rec;
use crate::fref::{Mode, Rat};
use dashu_base::{Approximation, Sign};
use dashu_float::round::Rounding;
use num_bigint::{BigInt, BigUint};
use num_integer::Integer;
use num_traits::{Signed, ToPrimitive, Zero};
use std::cmp::Ordering::{self, *};

pub const P: &str = "C06";

thread_local! {
    static SEEN: std::cell::RefCell<std::collections::HashMap<u64, u32>> = std::cell::RefCell::new(std::collections::HashMap::new());
}
/// Has this thread already reported (site, kind, class) more often than the engine keeps (3 per
/// thread)?  Then the caller only counts the repeat instead of formatting another report.  The
/// sweep threads are created per sweep, so the memory does not leak from one sweep into the next;
/// a thread walks its chunks in increasing index order, so the smallest case is always reported.
pub fn saturated(rec: &mut Rec, site: &str, site2: &str, kind: &str, class: &str) -> bool {
    let mut h: u64 = 0xcbf29ce484222325;
    for part in [site, site2, kind, class] {
        for b in part.bytes() {
            h = (h ^ b as u64).wrapping_mul(0x100000001b3);
        }
        h = (h ^ 0xff).wrapping_mul(0x100000001b3);
    }
    let n = SEEN.with(|m| {
        let mut m = m.borrow_mut();
        let c = m.entry(h).or_insert(0);
        *c += 1;
        *c
    });
    if n > 3 {
        rec.hit("repeated-findings-not-listed");
        true
    } else {
        false
    }
}

#[derive(Clone, Copy, Debug, PartialEq)]
pub struct Fmt {
    pub name: &'static str,
    /// significand bits including the hidden bit
    pub mant: u32,
    /// exponent of the smallest subnormal (the smallest quantum)
    pub qmin: i64,
    /// all finite values are < 2^emax
    pub emax: i64,
}
pub const F32: Fmt = Fmt { name: "f32", mant: 24, qmin: -149, emax: 128 };
pub const F64: Fmt = Fmt { name: "f64", mant: 53, qmin: -1074, emax: 1024 };

/// the correctly rounded image of an exact non-zero (or zero) real in a format
#[derive(Clone, Copy, Debug, PartialEq)]
pub struct RefF {
    pub neg: bool,
    pub inf: bool,
    /// magnitude = m * 2^q (m <= 2^mant)
    pub m: u64,
    pub q: i64,
    /// result.cmp(exact), signed
    pub err: Ordering,
    /// the exact value is beyond the largest finite value and the mode rounds towards zero for
    /// this sign: the documentation does not say whether MAX or infinity is produced; both admitted
    pub alt_max: bool,
    /// exact value lies exactly half way between two neighbouring grid points
    pub tie: bool,
    /// floor(log2 |x|) (0 for x = 0)
    pub e2: i64,
    pub zero_in: bool,
}

fn finish(fl: u64, rem_nonzero: bool, half: Ordering, q: i64, e2: i64, neg: bool, fmt: Fmt, mode: Mode) -> RefF {
    let up = rem_nonzero
        && match mode {
            Mode::Zero => false,
            Mode::Away => true,
            Mode::Up => !neg,
            Mode::Down => neg,
            Mode::HalfEven => half == Greater || (half == Equal && fl & 1 == 1),
            Mode::HalfAway => half != Less,
        };
    let m = fl + up as u64;
    let bl = 64 - m.leading_zeros() as i64;
    let inf = m != 0 && bl + q > fmt.emax;
    let mut mag_err = if !rem_nonzero { Equal } else if up { Greater } else { Less };
    let mut alt_max = false;
    if inf {
        mag_err = Greater;
        alt_max = matches!(mode, Mode::Zero) || (mode == Mode::Up && neg) || (mode == Mode::Down && !neg);
    }
    RefF { neg, inf, m, q, err: if neg { mag_err.reverse() } else { mag_err }, alt_max, tie: rem_nonzero && half == Equal, e2, zero_in: false }
}

pub fn ref_zero() -> RefF {
    RefF { neg: false, inf: false, m: 0, q: 0, err: Equal, alt_max: false, tie: false, e2: 0, zero_in: true }
}

/// round (-1)^neg * n * 2^e
pub fn round_dyadic(n: u128, e: i64, neg: bool, fmt: Fmt, mode: Mode) -> RefF {
    if n == 0 {
        return ref_zero();
    }
    let bits = 128 - n.leading_zeros() as i64;
    let e2 = bits - 1 + e;
    let q = (e2 - (fmt.mant as i64 - 1)).max(fmt.qmin);
    let shift = q - e;
    if shift <= 0 {
        let m = (n << (-shift) as u32) as u64;
        return finish(m, false, Less, q, e2, neg, fmt, mode);
    }
    let (fl, rem_nonzero, half) = if shift > 128 {
        (0u64, true, Less)
    } else if shift == 128 {
        (0u64, true, n.cmp(&(1u128 << 127)))
    } else {
        let fl = (n >> shift) as u64;
        let rem = n & ((1u128 << shift) - 1);
        (fl, rem != 0, rem.cmp(&(1u128 << (shift - 1))))
    };
    finish(fl, rem_nonzero, half, q, e2, neg, fmt, mode)
}

/// round (-1)^neg * n * 2^e for an integer n of any size (sticky-bit reduction to 121 bits)
pub fn round_big(n: &BigUint, e: i64, neg: bool, fmt: Fmt, mode: Mode) -> RefF {
    let bits = n.bits() as i64;
    if bits <= 120 {
        return round_dyadic(n.to_u128().unwrap(), e, neg, fmt, mode);
    }
    let s = bits - 120;
    let top = (n >> s as u64).to_u128().unwrap();
    let sticky = !(n & ((BigUint::from(1u8) << s as u64) - 1u8)).is_zero();
    round_dyadic((top << 1) | sticky as u128, e + s - 1, neg, fmt, mode)
}

/// round an exact rational
pub fn round_rat(x: &Rat, fmt: Fmt, mode: Mode) -> RefF {
    if x.is_zero() {
        return ref_zero();
    }
    let neg = x.is_neg();
    let a = x.abs();
    let e2 = a.floor_log(2);
    let q = (e2 - (fmt.mant as i64 - 1)).max(fmt.qmin);
    let (num, den): (BigInt, BigInt) = if q <= 0 { (&a.n << (-q) as u64, a.d.clone()) } else { (a.n.clone(), &a.d << q as u64) };
    let (fl, rem) = num.div_rem(&den);
    let half = (&rem * BigInt::from(2)).cmp(&den);
    finish(fl.to_u64().expect("quotient fits the significand"), !rem.is_zero(), half, q, e2, neg, fmt, mode)
}

/// bit pattern of the reference result
pub fn bits_of(r: &RefF, fmt: Fmt) -> u64 {
    let sign_shift = if fmt.mant == 24 { 31 } else { 63 };
    let sign = (r.neg as u64) << sign_shift;
    let frac_bits = fmt.mant - 1;
    if r.inf {
        let emask = if fmt.mant == 24 { 0xffu64 } else { 0x7ff };
        return sign | (emask << frac_bits);
    }
    if r.m == 0 {
        return sign;
    }
    let (mut m, mut q) = (r.m, r.q);
    if m == 1u64 << fmt.mant {
        m >>= 1;
        q += 1;
    }
    if m < 1u64 << frac_bits {
        debug_assert!(q == fmt.qmin);
        sign | m
    } else {
        sign | (((q - fmt.qmin + 1) as u64) << frac_bits) | (m - (1u64 << frac_bits))
    }
}

pub fn max_finite_bits(fmt: Fmt, neg: bool) -> u64 {
    if fmt.mant == 24 {
        ((neg as u64) << 31) | 0x7f7f_ffff
    } else {
        ((neg as u64) << 63) | 0x7fef_ffff_ffff_ffff
    }
}

/// coarse position of the exact value relative to the format's range
pub fn range_class(r: &RefF, fmt: Fmt) -> &'static str {
    if r.zero_in {
        "zero"
    } else if r.e2 >= fmt.emax {
        "overflow"
    } else if r.e2 == fmt.emax - 1 {
        "top-binade"
    } else if r.e2 >= fmt.qmin + fmt.mant as i64 - 1 {
        "normal"
    } else if r.e2 >= fmt.qmin {
        "subnormal"
    } else if r.e2 == fmt.qmin - 1 {
        "half-min-subnormal"
    } else {
        "underflow"
    }
}

/// signature class: the range class with the top binade folded into "normal"
pub fn class_of(r: &RefF, fmt: Fmt) -> String {
    match range_class(r, fmt) {
        "top-binade" => "normal".to_string(),
        c => c.to_string(),
    }
}

pub trait IeeeF: Copy + PartialEq + std::fmt::Debug + Send + Sync + 'static {
    const FMT: Fmt;
    fn bits64(self) -> u64;
    fn from_bits64(b: u64) -> Self;
    fn show(self) -> String;
}
impl IeeeF for f32 {
    const FMT: Fmt = F32;
    fn bits64(self) -> u64 {
        self.to_bits() as u64
    }
    fn from_bits64(b: u64) -> Self {
        f32::from_bits(b as u32)
    }
    fn show(self) -> String {
        format!("{:e} (0x{:08x})", self, self.to_bits())
    }
}
impl IeeeF for f64 {
    const FMT: Fmt = F64;
    fn bits64(self) -> u64 {
        self.to_bits()
    }
    fn from_bits64(b: u64) -> Self {
        f64::from_bits(b)
    }
    fn show(self) -> String {
        format!("{:e} (0x{:016x})", self, self.to_bits())
    }
}

pub fn show_ref<F: IeeeF>(r: &RefF) -> String {
    let v = F::from_bits64(bits_of(r, F::FMT));
    format!("{} with error sign {:?}{}", v.show(), r.err, if r.alt_max { " (or the largest finite value, error Less in magnitude)" } else { "" })
}

/// does the observed value match the reference?  Some(signed error to expect) if so
pub fn match_val<F: IeeeF>(got: F, want: &RefF) -> Option<Ordering> {
    let fmt = F::FMT;
    let gb = got.bits64();
    let wb = bits_of(want, fmt);
    let sign_mask = 1u64 << if fmt.mant == 24 { 31 } else { 63 };
    if gb == wb || ((gb & !sign_mask) == 0 && (wb & !sign_mask) == 0) {
        return Some(want.err);
    }
    if want.alt_max && gb == max_finite_bits(fmt, want.neg) {
        return Some(if want.neg { Greater } else { Less });
    }
    None
}

/// judge Approximation<F, Sign> (error = sign of result - exact, as documented)
pub fn chk_sign<F: IeeeF>(rec: &mut Rec, site: &str, class: &str, case: &dyn Fn() -> String, got: Result<Approximation<F, Sign>, String>, want: &RefF) -> bool {
    rec.step();
    let a = match got {
        Ok(a) => a,
        Err(p) => {
            if !saturated(rec, site, "", "panic", class) {
                rec.fail(format!("{}|{}|panic|{}", P, site, class), case(), format!("panic: {}", p), show_ref::<F>(want));
            }
            return false;
        }
    };
    let (v, flag) = match a {
        Approximation::Exact(v) => (v, None),
        Approximation::Inexact(v, s) => (v, Some(s)),
    };
    let err = match match_val(v, want) {
        Some(e) => e,
        None => {
            if !saturated(rec, site, "", "wrong-value", class) {
                rec.fail(format!("{}|{}|wrong-value|{}", P, site, class), case(), format!("{} flag {:?}", v.show(), flag), show_ref::<F>(want));
            }
            return false;
        }
    };
    let bad = match (flag, err) {
        (None, Equal) => {
            rec.hit("exact");
            None
        }
        (None, _) => Some("exact-but-inexact"),
        (Some(_), Equal) => Some("inexact-but-exact"),
        (Some(Sign::Positive), Greater) => {
            rec.hit("inexact:result-above");
            None
        }
        (Some(Sign::Negative), Less) => {
            rec.hit("inexact:result-below");
            None
        }
        (Some(_), _) => Some("error-sign"),
    };
    if let Some(k) = bad {
        if saturated(rec, site, "", k, class) {
            return false;
        }
        rec.fail(format!("{}|{}|wrong-flag:{}|{}", P, site, k, class), case(), format!("{} flag {:?}", v.show(), flag), show_ref::<F>(want));
        return false;
    }
    true
}

/// judge Approximation<F, Rounding>: Exact iff nothing lost, AddOne => result > exact,
/// SubOne => result < exact, NoOp carries no documented direction (counted only)
pub fn chk_rounding<F: IeeeF>(rec: &mut Rec, site: &str, class: &str, case: &dyn Fn() -> String, got: Result<Approximation<F, Rounding>, String>, want: &RefF) -> bool {
    rec.step();
    let a = match got {
        Ok(a) => a,
        Err(p) => {
            if !saturated(rec, site, "", "panic", class) {
                rec.fail(format!("{}|{}|panic|{}", P, site, class), case(), format!("panic: {}", p), show_ref::<F>(want));
            }
            return false;
        }
    };
    let (v, flag) = match a {
        Approximation::Exact(v) => (v, None),
        Approximation::Inexact(v, s) => (v, Some(s)),
    };
    let err = match match_val(v, want) {
        Some(e) => e,
        None => {
            if !saturated(rec, site, "", "wrong-value", class) {
                rec.fail(format!("{}|{}|wrong-value|{}", P, site, class), case(), format!("{} flag {:?}", v.show(), flag), show_ref::<F>(want));
            }
            return false;
        }
    };
    let bad = match (flag, err) {
        (None, Equal) => {
            rec.hit("exact");
            None
        }
        (None, _) => Some("exact-but-inexact"),
        (Some(_), Equal) => Some("inexact-but-exact"),
        (Some(Rounding::AddOne), Greater) => {
            rec.hit("inexact:addone");
            None
        }
        (Some(Rounding::SubOne), Less) => {
            rec.hit("inexact:subone");
            None
        }
        (Some(Rounding::NoOp), e) => {
            let towards_zero = (e == Less) != want.neg;
            rec.hit(if towards_zero { "inexact:noop" } else { "unspecified:noop-on-result-away-from-zero" });
            None
        }
        (Some(Rounding::AddOne), _) | (Some(Rounding::SubOne), _) => Some("direction"),
    };
    if let Some(k) = bad {
        if saturated(rec, site, "", k, class) {
            return false;
        }
        rec.fail(format!("{}|{}|wrong-flag:{}|{}", P, site, k, class), case(), format!("{} flag {:?}", v.show(), flag), show_ref::<F>(want));
        return false;
    }
    true
}

/// exact value of a finite float as (neg, m, e): (-1)^neg * m * 2^e; None for nan/inf.
/// Written from the IEEE-754 layout, not from dashu's decode.
pub fn parts_of<F: IeeeF>(f: F) -> Option<(bool, u64, i64)> {
    let fmt = F::FMT;
    let b = f.bits64();
    let frac_bits = fmt.mant - 1;
    let (sign_shift, emask) = if fmt.mant == 24 { (31, 0xffu64) } else { (63, 0x7ffu64) };
    let neg = (b >> sign_shift) & 1 == 1;
    let ef = (b >> frac_bits) & emask;
    let mf = b & ((1u64 << frac_bits) - 1);
    if ef == emask {
        return None;
    }
    if ef == 0 {
        Some((neg, mf, fmt.qmin))
    } else {
        Some((neg, mf | (1u64 << frac_bits), ef as i64 - 1 + fmt.qmin))
    }
}

pub fn rat_of_parts(neg: bool, m: u64, e: i64) -> Rat {
    let s = if neg { -BigInt::from(m) } else { BigInt::from(m) };
    Rat::scaled(&s, 2, e)
}

/// round an exact rational to an integer under a mode: (result, result.cmp(x))
pub fn round_int(x: &Rat, mode: Mode) -> (BigInt, Ordering) {
    let fl = x.floor();
    if x.is_int() {
        return (fl, Equal);
    }
    let frac = x.sub(&Rat::int(fl.clone())); // in (0,1)
    let half = frac.cmp(&Rat::new(BigInt::from(1), BigInt::from(2)));
    let neg = x.is_neg();
    let up = match mode {
        Mode::Up => true,
        Mode::Down => false,
        Mode::Zero => neg,
        Mode::Away => !neg,
        Mode::HalfEven => half == Greater || (half == Equal && fl.is_odd()),
        Mode::HalfAway => half == Greater || (half == Equal && !neg),
    };
    if up {
        (fl + 1, Greater)
    } else {
        (fl, Less)
    }
}

pub fn rat_abs_lt_pow2(x: &Rat, k: u64) -> bool {
    x.n.abs() < (&x.d << k)
}
