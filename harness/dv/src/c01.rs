//! C01 — integer ring arithmetic (+ − × sqr cubic pow) is exact for every operand size and sign.
//! Closed universe I3² (depth 1), I2³ (depth 2 chains), shape universe across the algorithm
//! thresholds, pow grid.  Oracle: num_bigint through raw words.

use crate::core::{guard, Ctx, Rec};
use crate::h::*;
use crate::uni::*;
use dashu_int::{IBig, UBig};
use num_bigint::{BigInt, BigUint, Sign as NSign};
use num_traits::{One, Pow, Signed, Zero};

const P: &str = "C01";

fn nonneg(x: &BigInt) -> bool {
    x.sign() != NSign::Minus
}

fn pair_ops(rec: &mut Rec, a: &BigInt, b: &BigInt, class: &str, with_mixed: bool) {
    let case = |op: &str| format!("{} {} {}", hex(a), op, hex(b));
    let (ia, ib) = (ref_to_i(a), ref_to_i(b));
    let sum = a + b;
    let dif = a - b;
    let prd = a * b;
    expect_i(rec, P, "IBig::add", class, guard(|| &ia + &ib), &sum, || case("+"));
    expect_i(rec, P, "IBig::sub", class, guard(|| &ia - &ib), &dif, || case("-"));
    expect_i(rec, P, "IBig::mul", class, guard(|| &ia * &ib), &prd, || case("*"));
    // by-value forms exercise the in-place buffers of either operand
    expect_i(rec, P, "IBig::add(val,val)", class, guard(|| ia.clone() + ib.clone()), &sum, || case("+"));
    expect_i(rec, P, "IBig::sub(val,val)", class, guard(|| ia.clone() - ib.clone()), &dif, || case("-"));
    expect_i(rec, P, "IBig::sub(ref,val)", class, guard(|| &ia - ib.clone()), &dif, || case("-"));
    expect_i(rec, P, "IBig::sub(val,ref)", class, guard(|| ia.clone() - &ib), &dif, || case("-"));
    expect_i(rec, P, "IBig::add(ref,val)", class, guard(|| &ia + ib.clone()), &sum, || case("+"));
    expect_i(rec, P, "IBig::add(val,ref)", class, guard(|| ia.clone() + &ib), &sum, || case("+"));
    if nonneg(a) && nonneg(b) {
        let (ua, ub) = (ref_to_u(a.magnitude()), ref_to_u(b.magnitude()));
        expect_u(rec, P, "UBig::add", class, guard(|| &ua + &ub), sum.magnitude(), || case("+"));
        expect_u(rec, P, "UBig::mul", class, guard(|| &ua * &ub), prd.magnitude(), || case("*"));
        expect_u(rec, P, "UBig::mul(val,val)", class, guard(|| ua.clone() * ub.clone()), prd.magnitude(), || case("*"));
        if a >= b {
            expect_u(rec, P, "UBig::sub", class, guard(|| &ua - &ub), dif.magnitude(), || case("-"));
            expect_u(rec, P, "UBig::sub(val,val)", class, guard(|| ua.clone() - ub.clone()), dif.magnitude(), || case("-"));
            expect_u(rec, P, "UBig::sub(ref,val)", class, guard(|| &ua - ub.clone()), dif.magnitude(), || case("-"));
            expect_u(rec, P, "UBig::sub(val,ref)", class, guard(|| ua.clone() - &ub), dif.magnitude(), || case("-"));
        } else {
            rec.hit("ubig-underflow-panics");
            expect_panic(rec, P, "UBig::sub", "underflow", guard(|| &ua - &ub), || case("-"));
            expect_panic(rec, P, "UBig::sub(val,val)", "underflow", guard(|| ua.clone() - ub.clone()), || case("-"));
            expect_panic(rec, P, "UBig::sub(ref,val)", "underflow", guard(|| &ua - ub.clone()), || case("-"));
            expect_panic(rec, P, "UBig::sub(val,ref)", "underflow", guard(|| ua.clone() - &ub), || case("-"));
            expect_panic(rec, P, "UBig::sub_assign", "underflow", guard(|| { let mut t = ua.clone(); t -= &ub; t }), || case("-="));
        }
    }
    if with_mixed && nonneg(a) {
        let ua = ref_to_u(a.magnitude());
        expect_i(rec, P, "UBig+IBig", class, guard(|| &ua + &ib), &sum, || case("+"));
        expect_i(rec, P, "UBig-IBig", class, guard(|| &ua - &ib), &dif, || case("-"));
        expect_i(rec, P, "UBig*IBig", class, guard(|| &ua * &ib), &prd, || case("*"));
        expect_i(rec, P, "IBig-UBig", class, guard(|| &ib - &ua), &(-&dif), || case("(rev)-"));
    }
    // growth / shrink classes for the vacuity guard
    let (la, lb, ls) = (word_len(a.magnitude()), word_len(b.magnitude()), word_len(sum.magnitude()));
    if ls > la.max(lb) {
        rec.hit("add-carry-grows-length");
        if la.max(lb) == 2 {
            rec.hit("add-inline-to-heap");
        }
    }
    if ls < la.max(lb) {
        rec.hit("add-cancel-shrinks-length");
        if la.max(lb) >= 3 && ls <= 2 {
            rec.hit("add-heap-to-inline");
        }
    }
    if la + lb >= 3 && la <= 2 && lb <= 2 {
        rec.hit("mul-inline-to-heap");
    }
    if !(a.abs() <= BigInt::one() && b.abs() <= BigInt::one()) {
        rec.nontrivial();
    }
}

pub fn run(ctx: &mut Ctx) {
    ctx.rule = "closed universe: all ordered pairs of signed I3 (magnitudes of <=3 64-bit words over the 9-atom alphabet) for + - * in IBig/UBig/mixed forms; depth 2: all triples of signed I2 through two chained operations; shape universe: length class x word pattern pairs across schoolbook/Karatsuba/Toom-3/chunking thresholds for mul, sqr, cubic; pow over a base x exponent grid. non-trivial = operands not both in {0,+-1} and result compared with num_bigint".into();
    ctx.assume("num_bigint 0.4 is a correct reference (cross-checked against i128 on the <=1-word sub-universe in every run)");
    let i3 = signed(&i3_mags());
    let n = i3.len() as u64;
    ctx.bound("I3_values", n);

    // reference self-check: BigInt vs i128 on small values
    {
        let small: Vec<i128> = vec![0, 1, -1, 2, -2, 0xFFFF_FFFF, -0xFFFF_FFFF, 1 << 32, i64::MAX as i128, -(i64::MAX as i128), 1 << 62];
        for &x in &small {
            for &y in &small {
                let (bx, by) = (BigInt::from(x), BigInt::from(y));
                if bx.clone() + by.clone() != BigInt::from(x + y) || bx.clone() - by.clone() != BigInt::from(x - y) || bx * by != BigInt::from(x * y) {
                    ctx.machinery("reference self-check failed (BigInt vs i128)");
                }
            }
        }
    }

    // (a) depth 1, closed
    let i3r = &i3;
    ctx.sweep("closed.I3xI3", n * n, |i, rec| {
        let (a, b) = (&i3r[(i / n) as usize], &i3r[(i % n) as usize]);
        let class = lens_class(a.magnitude(), b.magnitude());
        pair_ops(rec, a, b, &class, true);
        rec.sample(|| format!("{} (+,-,*) {}", hex(a), hex(b)));
    });
    ctx.require_classes("closed.I3xI3", &["add-carry-grows-length", "add-inline-to-heap", "add-cancel-shrinks-length", "add-heap-to-inline", "mul-inline-to-heap", "ubig-underflow-panics"]);

    // (a2) depth 2 over signed I2: (a op1 b) op2 c with the intermediate dashu value re-used
    let i2 = signed(&closed_mags(&A9, 2));
    let m = i2.len() as u64;
    let i2r = &i2;
    ctx.sweep("depth2.I2xI2xI2", m * m * m, |i, rec| {
        let [x, y, z] = unflatten(i, [m, m, m]);
        let (a, b, c) = (&i2r[x], &i2r[y], &i2r[z]);
        let (ia, ib, ic) = (ref_to_i(a), ref_to_i(b), ref_to_i(c));
        let firsts: [(&str, BigInt, Result<IBig, String>); 3] = [
            ("+", a + b, guard(|| ia.clone() + &ib)),
            ("-", a - b, guard(|| ia.clone() - &ib)),
            ("*", a * b, guard(|| ia.clone() * &ib)),
        ];
        for (o1, r1, d1) in firsts {
            let d1 = match d1 {
                Ok(v) => v,
                Err(p) => {
                    rec.fail(format!("{}|IBig::{}|panic|depth2", P, o1), format!("{} {} {}", hex(a), o1, hex(b)), p, hex(&r1));
                    continue;
                }
            };
            let case = |o2: &str| format!("({} {} {}) {} {}", hex(a), o1, hex(b), o2, hex(c));
            // in-place forms on the produced value (its buffer/capacity comes from the first op)
            expect_i(rec, P, "IBig::add_assign", "depth2", guard(|| { let mut t = d1.clone(); t += &ic; t }), &(&r1 + c), || case("+="));
            expect_i(rec, P, "IBig::sub_assign", "depth2", guard(|| { let mut t = d1.clone(); t -= &ic; t }), &(&r1 - c), || case("-="));
            expect_i(rec, P, "IBig::mul_assign", "depth2", guard(|| { let mut t = d1.clone(); t *= &ic; t }), &(&r1 * c), || case("*="));
            expect_i(rec, P, "IBig::sub(rev)", "depth2", guard(|| &ic - d1.clone()), &(c - &r1), || case("(rev)-"));
        }
        rec.nontrivial();
        rec.sample(|| format!("({} op1 {}) op2 {}", hex(a), hex(b), hex(c)));
    });

    // (b) shape universe
    let lens_q: Vec<usize> = vec![1, 2, 3, 4, 5, 23, 24, 25, 26, 30, 31, 47, 48, 49, 50, 96, 97, 191, 192, 193, 194, 385, 577, 1025];
    let mut lens = lens_q.clone();
    if !ctx.quick() {
        lens.extend_from_slice(&[6, 7, 8, 12, 16, 32, 33, 64, 65, 100, 128, 129, 256, 300, 384, 386, 578, 769, 1023, 1024, 1025, 1153, 2049]);
        lens.sort();
    }
    let pats: Vec<&'static str> = if ctx.quick() { vec!["ones", "top1", "alt", "sparse", "lcgA", "lcgSeed"] } else { PATTERNS.to_vec() };
    let sh = shapes(&lens, &pats, ctx.seed);
    let ns = sh.len() as u64;
    ctx.bound("shape_values", ns);
    ctx.bound("shape_max_words", *lens.last().unwrap() as u64);
    let shr = &sh;
    ctx.sweep("shape.mul.pairs", ns * ns, |i, rec| {
        let (a, b) = (&shr[(i / ns) as usize], &shr[(i % ns) as usize]);
        let class = format!("{}x{}", size_class(a.len), size_class(b.len));
        let (ua, ub) = (ref_to_u(&a.v), ref_to_u(&b.v));
        let want = &a.v * &b.v;
        expect_u(rec, P, "UBig::mul", &class, guard(|| &ua * &ub), &want, || format!("{}w:{} * {}w:{}", a.len, a.pat, b.len, b.pat));
        // sign handling on large operands + add/sub with long carry chains
        let (ia, ib) = (-IBig::from(ua.clone()), IBig::from(ub.clone()));
        let (ra, rb) = (-BigInt::from(a.v.clone()), BigInt::from(b.v.clone()));
        expect_i(rec, P, "IBig::mul", &class, guard(|| &ia * &ib), &(&ra * &rb), || format!("-{}w:{} * {}w:{}", a.len, a.pat, b.len, b.pat));
        expect_i(rec, P, "IBig::add", &class, guard(|| &ia + &ib), &(&ra + &rb), || format!("-{}w:{} + {}w:{}", a.len, a.pat, b.len, b.pat));
        expect_i(rec, P, "IBig::sub", &class, guard(|| &ia - &ib), &(&ra - &rb), || format!("-{}w:{} - {}w:{}", a.len, a.pat, b.len, b.pat));
        expect_u(rec, P, "UBig::add", &class, guard(|| &ua + &ub), &(&a.v + &b.v), || format!("{}w:{} + {}w:{}", a.len, a.pat, b.len, b.pat));
        let (lo, hi) = (a.len.min(b.len), a.len.max(b.len));
        rec.hit(match lo {
            0..=24 => "mul-small-operand<=24(schoolbook)",
            25..=192 => "mul-small-operand<=192(karatsuba)",
            _ => "mul-small-operand>192(toom3)",
        });
        if hi >= 2 * lo && lo > 24 {
            rec.hit("mul-unbalanced-chunked");
        }
        if hi > 1024 && lo <= 24 && lo >= 3 {
            rec.hit("mul-schoolbook-chunked(>1024 x <=24 words)");
        }
        if a.len == b.len && a.pat == b.pat {
            rec.hit("mul-equal-operands(square shortcut)");
        }
        rec.nontrivial();
        rec.sample(|| format!("{}w:{} * {}w:{}", a.len, a.pat, b.len, b.pat));
    });
    ctx.require_classes("shape.mul.pairs", &["mul-small-operand<=24(schoolbook)", "mul-small-operand<=192(karatsuba)", "mul-small-operand>192(toom3)", "mul-unbalanced-chunked", "mul-schoolbook-chunked(>1024 x <=24 words)", "mul-equal-operands(square shortcut)"]);

    // operands equal except one word (must not take the square shortcut wrongly), sqr, cubic
    ctx.sweep("shape.sqr.cubic", ns, |i, rec| {
        let a = &shr[i as usize];
        let ua = ref_to_u(&a.v);
        let class = size_class(a.len);
        let sq = &a.v * &a.v;
        expect_u(rec, P, "UBig::sqr", class, guard(|| ua.sqr()), &sq, || format!("sqr {}w:{}", a.len, a.pat));
        expect_u(rec, P, "UBig::mul(self,self)", class, guard(|| &ua * &ua), &sq, || format!("{}w:{} * itself", a.len, a.pat));
        let ia = -IBig::from(ua.clone());
        expect_u(rec, P, "IBig::sqr", class, guard(|| ia.sqr()), &sq, || format!("sqr -{}w:{}", a.len, a.pat));
        let near = &a.v ^ (BigUint::one() << (64 * (a.len / 2)));
        let un = ref_to_u(&near);
        expect_u(rec, P, "UBig::mul(near-equal)", class, guard(|| &ua * &un), &(&a.v * &near), || format!("{}w:{} * same with one bit flipped", a.len, a.pat));
        if a.len <= 400 {
            let cu = &sq * &a.v;
            expect_u(rec, P, "UBig::cubic", class, guard(|| ua.cubic()), &cu, || format!("cubic {}w:{}", a.len, a.pat));
            expect_i(rec, P, "IBig::cubic", class, guard(|| ia.cubic()), &(-BigInt::from(cu)), || format!("cubic -{}w:{}", a.len, a.pat));
        }
        rec.hit(if a.len <= 30 { "sqr<=30(simple)" } else { "sqr>30(via mul)" });
        rec.nontrivial();
        rec.sample(|| format!("sqr/cubic {}w:{}", a.len, a.pat));
    });
    ctx.require_classes("shape.sqr.cubic", &["sqr<=30(simple)", "sqr>30(via mul)"]);

    // cancellation / carry chains on long operands: a -+ (a +- d), a + (2^k - a), in-place forms
    let deltas: Vec<BigInt> = vec![BigInt::zero(), BigInt::one(), BigInt::from(u64::MAX), BigInt::one() << 64u32, (BigInt::one() << 128u32) - 1, BigInt::from(shape(3, "lcgB", 0))];
    let nd = deltas.len() as u64;
    let dr = &deltas;
    ctx.sweep("shape.cancel+carry", ns * nd, |i, rec| {
        let (a, d) = (&shr[(i / nd) as usize], &dr[(i % nd) as usize]);
        let class = size_class(a.len);
        let ra = BigInt::from(a.v.clone());
        let near = &ra + d;
        let (ia, inear) = (ref_to_i(&ra), ref_to_i(&near));
        let case = |op: &str| format!("{}w:{} {} (itself + {})", a.len, a.pat, op, hex(d));
        expect_i(rec, P, "IBig::sub(cancel)", class, guard(|| &ia - &inear), &(-d.clone()), || case("-"));
        expect_i(rec, P, "IBig::sub(cancel,val,val)", class, guard(|| inear.clone() - ia.clone()), d, || case("(rev)-"));
        expect_i(rec, P, "IBig::sub_assign(cancel)", class, guard(|| { let mut t = inear.clone(); t -= &ia; t }), d, || case("-="));
        expect_i(rec, P, "IBig::add(neg,cancel)", class, guard(|| -ia.clone() + &inear), d, || case("-a +"));
        let (ua, un) = (ref_to_u(&a.v), ref_to_u(near.magnitude()));
        expect_u(rec, P, "UBig::sub(cancel)", class, guard(|| &un - &ua), d.magnitude(), || case("-"));
        expect_u(rec, P, "UBig::sub_assign(cancel)", class, guard(|| { let mut t = un.clone(); t -= ua.clone(); t }), d.magnitude(), || case("-="));
        if !d.is_zero() {
            expect_panic(rec, P, "UBig::sub(ref,ref)", "underflow", guard(|| &ua - &un), || case("a - (a+d)"));
            expect_panic(rec, P, "UBig::sub(ref,val)", "underflow", guard(|| &ua - un.clone()), || case("a - (a+d)"));
            expect_panic(rec, P, "UBig::sub(val,ref)", "underflow", guard(|| ua.clone() - &un), || case("a - (a+d)"));
            expect_panic(rec, P, "UBig::sub_assign", "underflow", guard(|| { let mut t = ua.clone(); t -= &un; t }), || case("a -= (a+d)"));
        }
        // carry chain up to a power of two: a + (2^k - a) = 2^k
        let k = a.v.bits() + 7;
        let pw = BigUint::one() << k;
        let comp = &pw - &a.v;
        let uc = ref_to_u(&comp);
        expect_u(rec, P, "UBig::add(carry-chain)", class, guard(|| &ua + &uc), &pw, || format!("{}w:{} + (2^{} - itself)", a.len, a.pat, k));
        expect_u(rec, P, "UBig::add_assign(carry-chain)", class, guard(|| { let mut t = uc.clone(); t += &ua; t }), &pw, || format!("(2^{} - a) += {}w:{}", k, a.len, a.pat));
        expect_u(rec, P, "UBig::add(+1 carry)", class, guard(|| ua.clone() + UBig::ONE), &(&a.v + 1u32), || format!("{}w:{} + 1", a.len, a.pat));
        expect_u(rec, P, "UBig::mul_assign", class, guard(|| { let mut t = ua.clone(); t *= &uc; t }), &(&a.v * &comp), || format!("{}w:{} *= (2^{} - itself)", a.len, a.pat, k));
        rec.nontrivial();
        if a.len >= 3 && d.bits() <= 128 {
            rec.hit("cancellation:heap->inline");
        }
        rec.sample(|| case("-"));
    });
    ctx.require_classes("shape.cancel+carry", &["cancellation:heap->inline"]);

    // primitive operands (conversion-macro forms) on the closed universe
    let prims: Vec<i128> = vec![0, 1, -1, 2, 255, -128, 65535, i32::MAX as i128, i32::MIN as i128, u32::MAX as i128, i64::MAX as i128, i64::MIN as i128, u64::MAX as i128, i128::MAX, i128::MIN + 1];
    let npr = prims.len() as u64;
    let prr = &prims;
    ctx.sweep("closed.I3xprimitives", n * npr, |i, rec| {
        let (a, pv) = (&i3r[(i / npr) as usize], prr[(i % npr) as usize]);
        let b = BigInt::from(pv);
        let ia = ref_to_i(a);
        let class = "prim";
        let case = |op: &str| format!("{} {} {} (primitive)", hex(a), op, pv);
        expect_i(rec, P, "IBig+i128", class, guard(|| &ia + pv), &(a + &b), || case("+"));
        expect_i(rec, P, "i128-IBig", class, guard(|| pv - &ia), &(&b - a), || case("(rev)-"));
        expect_i(rec, P, "IBig*i128", class, guard(|| &ia * pv), &(a * &b), || case("*"));
        expect_i(rec, P, "IBig-=i128", class, guard(|| { let mut t = ia.clone(); t -= pv; t }), &(a - &b), || case("-="));
        if let Ok(p64) = i64::try_from(pv) {
            expect_i(rec, P, "IBig-i64", class, guard(|| &ia - p64), &(a - &b), || case("-"));
            expect_i(rec, P, "i64*IBig", class, guard(|| p64 * ia.clone()), &(a * &b), || case("*"));
            expect_i(rec, P, "IBig*=i64", class, guard(|| { let mut t = ia.clone(); t *= p64; t }), &(a * &b), || case("*="));
        }
        if let Ok(p8) = i8::try_from(pv) {
            expect_i(rec, P, "IBig+i8", class, guard(|| ia.clone() + p8), &(a + &b), || case("+"));
        }
        if pv >= 0 && nonneg(a) {
            let ua = ref_to_u(a.magnitude());
            let pu = pv as u128;
            expect_u(rec, P, "UBig+u128", class, guard(|| &ua + pu), (a + &b).magnitude(), || case("+"));
            expect_u(rec, P, "UBig*u128", class, guard(|| &ua * pu), (a * &b).magnitude(), || case("*"));
            expect_u(rec, P, "u128*UBig", class, guard(|| pu * ua.clone()), (a * &b).magnitude(), || case("*"));
            expect_u(rec, P, "UBig+=u128", class, guard(|| { let mut t = ua.clone(); t += pu; t }), (a + &b).magnitude(), || case("+="));
            if *a >= b {
                expect_u(rec, P, "UBig-u128", class, guard(|| &ua - pu), (a - &b).magnitude(), || case("-"));
                expect_u(rec, P, "UBig-=u128", class, guard(|| { let mut t = ua.clone(); t -= pu; t }), (a - &b).magnitude(), || case("-="));
            } else {
                expect_panic(rec, P, "UBig-u128", "underflow", guard(|| &ua - pu), || case("-"));
            }
            if let Ok(p16) = u16::try_from(pu) {
                expect_u(rec, P, "UBig*u16", class, guard(|| &ua * p16), (a * &b).magnitude(), || case("*"));
                expect_u(rec, P, "u16+UBig", class, guard(|| p16 + &ua), (a + &b).magnitude(), || case("+"));
            }
        }
        if !a.is_zero() && pv != 0 {
            rec.nontrivial();
        }
        rec.sample(|| case("(+,-,*)"));
    });

    // sums and products over slices (Sum / Product impls)
    ctx.sweep("iter.sum.product", n, |i, rec| {
        let a = &i3r[i as usize];
        let terms: Vec<BigInt> = vec![a.clone(), BigInt::from(3), -a.clone() + 1, BigInt::from(u64::MAX), a.clone()];
        let dv: Vec<IBig> = terms.iter().map(ref_to_i).collect();
        let want_s: BigInt = terms.iter().sum();
        let want_p: BigInt = terms.iter().product();
        expect_i(rec, P, "IBig::sum(&)", "iter", guard(|| dv.iter().sum::<IBig>()), &want_s, || format!("sum over 5 terms built from {}", hex(a)));
        expect_i(rec, P, "IBig::sum(val)", "iter", guard(|| dv.clone().into_iter().sum::<IBig>()), &want_s, || format!("sum over 5 terms built from {}", hex(a)));
        expect_i(rec, P, "IBig::product(&)", "iter", guard(|| dv.iter().product::<IBig>()), &want_p, || format!("product over 5 terms built from {}", hex(a)));
        if nonneg(a) {
            let du: Vec<UBig> = vec![ref_to_u(a.magnitude()), UBig::from(7u8), ref_to_u(a.magnitude())];
            let ws = a.magnitude() * 2u32 + 7u32;
            let wp = a.magnitude() * a.magnitude() * 7u32;
            expect_u(rec, P, "UBig::sum(&)", "iter", guard(|| du.iter().sum::<UBig>()), &ws, || format!("sum a + 7 + a, a = {}", hex(a)));
            expect_u(rec, P, "UBig::product(val)", "iter", guard(|| du.clone().into_iter().product::<UBig>()), &wp, || format!("product a * 7 * a, a = {}", hex(a)));
        }
        rec.nontrivial();
    });

    // (c) pow
    let mut bases: Vec<BigInt> = vec![];
    for v in [0i64, 1, 2, 3, 5, 10, 16, 255, 256, 0xFFFF_FFFF, 0x1_0000_0000, 6, 12, 96, 1 << 20, 3 << 40] {
        bases.push(BigInt::from(v));
    }
    bases.push(BigInt::from(u64::MAX));
    bases.push(BigInt::from(u64::MAX) + 1);
    bases.push(BigInt::from(u64::MAX) + 2);
    bases.push(BigInt::from(u128::MAX));
    bases.push((BigInt::one() << 130) + 12345);
    bases.push((BigInt::from(0xF00Du64) << 200) + (BigInt::one() << 70)); // even, factor 2^70
    bases.push(BigInt::from(shape(5, "lcgA", 0)));
    // sparse double-word bases 2^k + 2^j + c: intermediate products with zero low/high carry words
    for k in [64u64, 65, 96, 100, 107, 120, 126, 127] {
        for low in [BigInt::zero(), BigInt::one(), BigInt::one() << 32u32, BigInt::one() << 63u32, BigInt::from(u64::MAX)] {
            bases.push((BigInt::one() << k) + low);
        }
    }
    bases.push(BigInt::from(shape(2, "alt", 0)));
    bases.push(BigInt::from(shape(2, "sparse", 0)));
    bases.push(BigInt::from(shape(2, "lcgB", 0)));
    bases.sort();
    bases.dedup();
    let nb0 = bases.len();
    for k in 0..nb0 {
        let neg = -bases[k].clone();
        if !neg.is_zero() {
            bases.push(neg);
        }
    }
    let mut exps: Vec<usize> = (0..=70).collect();
    exps.extend_from_slice(&[127, 128, 129, 255, 256, 1000]);
    let (nb, ne) = (bases.len() as u64, exps.len() as u64);
    let max_bits: u64 = ctx.pick(4000 * 64, 20000 * 64);
    ctx.bound("pow_result_bits_cap", max_bits);
    let (br, er) = (&bases, &exps);
    ctx.sweep("pow.grid", nb * ne, |i, rec| {
        let (b, e) = (&br[(i / ne) as usize], er[(i % ne) as usize]);
        if b.bits().max(1) * e as u64 > max_bits {
            rec.hit("pruned-result-too-large");
            return;
        }
        let want = Pow::pow(b.clone(), e as u32);
        let ib = ref_to_i(b);
        expect_i(rec, P, "IBig::pow", "grid", guard(|| ib.pow(e)), &want, || format!("{} ^ {}", hex(b), e));
        if nonneg(b) {
            let ub = ref_to_u(b.magnitude());
            expect_u(rec, P, "UBig::pow", "grid", guard(|| ub.pow(e)), want.magnitude(), || format!("{} ^ {}", hex(b), e));
        }
        if e >= 2 && b.abs() > BigInt::one() {
            rec.nontrivial();
        }
        rec.hit(if b.bits() <= 64 { "pow-word-base" } else if b.bits() <= 128 { "pow-dword-base" } else { "pow-large-base" });
        rec.sample(|| format!("{} ^ {}", hex(b), e));
    });
    ctx.require_classes("pow.grid", &["pow-word-base", "pow-dword-base", "pow-large-base"]);
}
