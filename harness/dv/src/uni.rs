//! Universes (DESIGN §4) and the binding between dashu values and the reference model
//! (`num_bigint`), always through raw words, never through dashu's own formatting.

use dashu_int::{IBig, Sign, UBig, Word};
use num_bigint::{BigInt, BigUint, Sign as NSign};
use num_traits::{One, Zero};

pub const WBITS: usize = Word::BITS as usize;

// ---------------------------------------------------------------------------------------------
// conversions

pub fn u_to_ref(x: &UBig) -> BigUint {
    words_to_ref(x.as_words())
}

pub fn words_to_ref(w: &[Word]) -> BigUint {
    let mut d: Vec<u32> = Vec::with_capacity(w.len() * 2);
    for &x in w {
        if WBITS == 64 {
            let x = x as u64;
            d.push(x as u32);
            d.push((x >> 32) as u32);
        } else {
            d.push(x as u32);
        }
    }
    BigUint::new(d)
}

pub fn i_to_ref(x: &IBig) -> BigInt {
    let (s, w) = x.as_sign_words();
    let m = words_to_ref(w);
    match s {
        Sign::Positive => BigInt::from_biguint(if m.is_zero() { NSign::NoSign } else { NSign::Plus }, m),
        Sign::Negative => BigInt::from_biguint(NSign::Minus, m),
    }
}

pub fn ref_to_words(x: &BigUint) -> Vec<Word> {
    if WBITS == 64 {
        x.to_u64_digits().into_iter().map(|d| d as Word).collect()
    } else {
        x.to_u32_digits().into_iter().map(|d| d as Word).collect()
    }
}

pub fn ref_to_u(x: &BigUint) -> UBig {
    UBig::from_words(&ref_to_words(x))
}

pub fn ref_to_i(x: &BigInt) -> IBig {
    let m = ref_to_u(x.magnitude());
    IBig::from_parts(if x.sign() == NSign::Minus { Sign::Negative } else { Sign::Positive }, m)
}

/// 64-bit "logical words" (little endian) -> reference value; keeps the universes identical
/// between 64- and 32-bit word builds.
pub fn w64_to_ref(w: &[u64]) -> BigUint {
    let mut d = Vec::with_capacity(w.len() * 2);
    for &x in w {
        d.push(x as u32);
        d.push((x >> 32) as u32);
    }
    BigUint::new(d)
}

pub fn hex(x: &BigInt) -> String {
    let s = x.to_str_radix(16);
    if s.len() > 80 {
        format!("{}0x{}…{} ({} bits)", if x.sign() == NSign::Minus { "-" } else { "" }, &s.trim_start_matches('-')[..24], &s[s.len() - 24..], x.bits())
    } else if let Some(m) = s.strip_prefix('-') {
        format!("-0x{}", m)
    } else {
        format!("0x{}", s)
    }
}
pub fn hexu(x: &BigUint) -> String {
    hex(&BigInt::from(x.clone()))
}

// ---------------------------------------------------------------------------------------------
// closed universe I3: magnitudes of <= 3 (64-bit) words over the atom alphabet A9

pub const A9: [u64; 9] = [0, 1, 2, 0xFFFF_FFFF, 0x1_0000_0000, i64::MAX as u64, 1 << 63, u64::MAX - 1, u64::MAX];

/// all magnitudes with `<= maxw` words from `atoms`, top word non-zero, ordered simplest first
pub fn closed_mags(atoms: &[u64], maxw: usize) -> Vec<BigUint> {
    let mut out = vec![BigUint::zero()];
    for n in 1..=maxw {
        let total = atoms.len().pow(n as u32);
        for idx in 0..total {
            let mut k = idx;
            let mut w = vec![0u64; n];
            // most significant word varies slowest
            for j in 0..n {
                // j = 0 is the top word
                let div = atoms.len().pow((n - 1 - j) as u32);
                let a = k / div;
                k %= div;
                w[n - 1 - j] = atoms[a];
            }
            if w[n - 1] == 0 {
                continue;
            }
            out.push(w64_to_ref(&w));
        }
    }
    out
}

pub fn i3_mags() -> Vec<BigUint> {
    closed_mags(&A9, 3)
}

/// signed closure: 0, +m, -m
pub fn signed(mags: &[BigUint]) -> Vec<BigInt> {
    let mut v = Vec::with_capacity(mags.len() * 2);
    for m in mags {
        if m.is_zero() {
            v.push(BigInt::zero());
        } else {
            v.push(BigInt::from(m.clone()));
            v.push(-BigInt::from(m.clone()));
        }
    }
    v
}

// ---------------------------------------------------------------------------------------------
// shape universe: (length class x word pattern)

pub const PATTERNS: [&str; 10] = ["ones", "top1", "top1p1", "topmax_low0", "alt", "sparse", "pow2m1_mid", "lcgA", "lcgB", "lcgSeed"];

fn lcg(state: &mut u64) -> u64 {
    *state = state.wrapping_mul(6364136223846793005).wrapping_add(1442695040888963407);
    let x = *state;
    (x ^ (x >> 29)).wrapping_mul(0xBF58476D1CE4E5B9) ^ (x >> 32)
}

/// n-word (64-bit logical words) magnitude of the given pattern
pub fn shape(n: usize, pat: &str, seed: u64) -> BigUint {
    if n == 0 {
        return BigUint::zero();
    }
    let mut w = vec![0u64; n];
    match pat {
        "ones" => w.iter_mut().for_each(|x| *x = u64::MAX),
        "top1" => w[n - 1] = 1,
        "top1p1" => {
            w[n - 1] = 1;
            w[0] |= 1;
        }
        "topmax_low0" => w[n - 1] = u64::MAX,
        "alt" => w.iter_mut().enumerate().for_each(|(i, x)| *x = if i % 2 == 0 { 0xAAAA_AAAA_AAAA_AAAA } else { 0x5555_5555_5555_5555 }),
        "sparse" => {
            w[n - 1] = 0x8000_0000_0000_0001;
            w[0] |= 0xFFFF_FFFF_0000_0001;
        }
        "pow2m1_mid" => {
            // 2^(64(n-1)+37) - 1
            for x in w.iter_mut().take(n - 1) {
                *x = u64::MAX;
            }
            w[n - 1] = (1u64 << 37) - 1;
        }
        "lcgA" | "lcgB" | "lcgSeed" => {
            let mut st = match pat {
                "lcgA" => 0x1234_5678_9ABC_DEF1u64,
                "lcgB" => 0x0F1E_2D3C_4B5A_6978u64,
                _ => seed.wrapping_mul(0x9E37_79B9_7F4A_7C15) ^ 0xD1B5_4A32_D192_ED03,
            } ^ (n as u64).wrapping_mul(0xA24B_AED4_963E_E407);
            for x in w.iter_mut() {
                *x = lcg(&mut st);
            }
            if w[n - 1] == 0 {
                w[n - 1] = 1;
            }
        }
        _ => panic!("unknown pattern {}", pat),
    }
    w64_to_ref(&w)
}

#[derive(Clone)]
pub struct Shaped {
    pub v: BigUint,
    pub len: usize,
    pub pat: &'static str,
}

pub fn shapes(lens: &[usize], pats: &[&'static str], seed: u64) -> Vec<Shaped> {
    let mut out = vec![];
    for &n in lens {
        for &p in pats {
            if n == 0 && p != "ones" {
                continue;
            }
            out.push(Shaped { v: shape(n, p, seed), len: n, pat: p });
        }
    }
    out
}

pub fn pow2(k: u64) -> BigUint {
    BigUint::one() << k
}

/// multi-word length class name used in outcome histograms
pub fn size_class(words: usize) -> &'static str {
    match words {
        0 => "w0",
        1 => "w1",
        2 => "w2",
        3..=24 => "w3-24",
        25..=192 => "w25-192",
        _ => "w193+",
    }
}

pub fn word_len(x: &BigUint) -> usize {
    ((x.bits() as usize) + WBITS - 1) / WBITS
}
