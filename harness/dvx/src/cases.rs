//! C19 case files: deterministic, word-size-neutral cases.  The same source is compiled into the
//! `dvx` evaluator in every build configuration (64/32-bit words, std/no_std, with/without debug
//! assertions) and into the `dv` parent; every case yields one result line and the lines must be
//! identical in all configurations.  Operands are defined through little-endian BYTES of 64-bit
//! logical words, results are rendered through `to_le_bytes`/own hex (plus dashu's own text
//! output, which must of course agree across configurations as well).

use dashu_base::{Approximation, BitTest, DivRem, EstimatedLog2, ExtendedGcd, Gcd, SquareRootRem};
use dashu_float::{round::mode, Context, FBig, Repr};
use dashu_int::{fast_div::ConstDivisor, IBig, UBig};
use dashu_ratio::{RBig, Relaxed};
use std::panic::{catch_unwind, AssertUnwindSafe};

pub const SWEEPS: &[&str] = &["int.pairs", "int.unary", "int.text", "float.ops", "ratio.ops", "serde", "log2", "int.sparse", "text.struct"];

/// int.sparse: every integer 2^a + 2^(a-d1) + 2^(a-d2) with a <= SPARSE_A, d1 <= d2 <= SPARSE_D (equal
/// offsets merge, so one- and two-bit values and carries into bit a+1 are included): the bits that
/// decide rounding, sticky bits and table look-ups of the conversions sit at every offset below the
/// top bit, in every word-size-dependent representation (inline / heap) of both builds
/// text.struct: digit strings of every length 1..=70 (300 thorough) x 5 digit patterns in 8 radixes:
/// parsed (plain, signed, prefixed), and as significands of floats (exactly `precision` digits, next
/// to a power of the base) through the serde media
const TS_RADIX: [u32; 8] = [2, 4, 8, 16, 32, 10, 3, 36];
const SPARSE_A: u64 = 136;
const SPARSE_D: u64 = 67;

const PATS: [&str; 6] = ["ones", "top1", "alt", "sparse", "lcgA", "lcgB"];

fn lcg(state: &mut u64) -> u64 {
    *state = state.wrapping_mul(6364136223846793005).wrapping_add(1442695040888963407);
    let x = *state;
    (x ^ (x >> 29)).wrapping_mul(0xBF58476D1CE4E5B9) ^ (x >> 32)
}

/// n logical 64-bit words of the given pattern, as little-endian bytes
fn pattern(n: usize, pat: &str) -> Vec<u8> {
    let mut w = vec![0u64; n];
    if n == 0 {
        return vec![];
    }
    match pat {
        "ones" => w.iter_mut().for_each(|x| *x = u64::MAX),
        "top1" => w[n - 1] = 1,
        "alt" => w.iter_mut().enumerate().for_each(|(i, x)| *x = if i % 2 == 0 { 0xAAAA_AAAA_AAAA_AAAA } else { 0x5555_5555_5555_5555 }),
        "sparse" => {
            w[n - 1] = 0x8000_0000_0000_0001;
            w[0] |= 0xFFFF_FFFF_0000_0001;
        }
        _ => {
            let mut st = if pat == "lcgA" { 0x1234_5678_9ABC_DEF1u64 } else { 0x0F1E_2D3C_4B5A_6978u64 } ^ (n as u64).wrapping_mul(0xA24B_AED4_963E_E407);
            for x in w.iter_mut() {
                *x = lcg(&mut st);
            }
            if w[n - 1] == 0 {
                w[n - 1] = 1;
            }
        }
    }
    w.iter().flat_map(|x| x.to_le_bytes()).collect()
}

fn lens(thorough: bool) -> Vec<usize> {
    // 64-bit logical words; the 32-bit build sees twice as many words, so both builds cross
    // their own thresholds (24/30/32/192 words, inline <= 2 words)
    let mut v = vec![0usize, 1, 2, 3, 4, 5, 8, 11, 12, 13, 15, 16, 17, 24, 25, 33, 48, 49, 96, 97, 100];
    if thorough {
        v.extend_from_slice(&[6, 7, 9, 23, 31, 32, 47, 64, 65, 95, 191, 192, 193, 200, 400]);
        v.sort();
    }
    v
}

fn ints(thorough: bool) -> &'static Vec<(String, UBig)> {
    static Q: std::sync::OnceLock<Vec<(String, UBig)>> = std::sync::OnceLock::new();
    static T: std::sync::OnceLock<Vec<(String, UBig)>> = std::sync::OnceLock::new();
    if thorough {
        T.get_or_init(|| ints_init(true))
    } else {
        Q.get_or_init(|| ints_init(false))
    }
}

fn ints_init(thorough: bool) -> Vec<(String, UBig)> {
    let mut v = vec![];
    for n in lens(thorough) {
        for p in PATS {
            if n == 0 && p != "ones" {
                continue;
            }
            v.push((format!("{}w:{}", n, p), UBig::from_le_bytes(&pattern(n, p))));
        }
    }
    for k in [1u32, 31, 32, 33, 63, 64, 65, 127, 128, 129] {
        v.push((format!("2^{}", k), UBig::ONE << k as usize));
        v.push((format!("2^{}-1", k), (UBig::ONE << k as usize) - UBig::ONE));
    }
    v
}

fn hexb(b: &[u8]) -> String {
    let mut s = String::with_capacity(b.len() * 2 + 2);
    let mut started = false;
    for x in b.iter().rev() {
        if *x != 0 || started {
            s.push_str(&format!("{:02x}", x));
            started = true;
        }
    }
    if !started {
        s.push('0');
    }
    s
}
fn hu(x: &UBig) -> String {
    let h = hexb(&x.to_le_bytes());
    // long values are folded to a fingerprint to keep the lines short
    if h.len() > 80 {
        let mut f: u64 = 0xcbf29ce484222325;
        for b in h.bytes() {
            f ^= b as u64;
            f = f.wrapping_mul(0x100000001b3);
        }
        format!("{}..{}#{:016x}/{}", &h[..16], &h[h.len() - 16..], f, h.len())
    } else {
        h
    }
}
fn hi(x: &IBig) -> String {
    let (s, m) = x.clone().into_parts();
    format!("{}{}", if s == dashu_base::Sign::Negative { "-" } else { "" }, hu(&m))
}

fn run(f: impl FnOnce() -> String) -> String {
    match catch_unwind(AssertUnwindSafe(f)) {
        Ok(s) => s,
        Err(e) => {
            let msg = if let Some(s) = e.downcast_ref::<&str>() { s.to_string() } else if let Some(s) = e.downcast_ref::<String>() { s.clone() } else { "?".into() };
            format!("PANIC({})", msg.chars().filter(|c| !c.is_ascii_digit()).take(50).collect::<String>())
        }
    }
}

pub fn count(sweep: &str, thorough: bool) -> u64 {
    let n = ints(thorough).len() as u64;
    match sweep {
        "int.pairs" => n * n,
        "int.unary" => n,
        "int.text" => n,
        "float.ops" => float_vals().len() as u64 * float_vals().len() as u64,
        "ratio.ops" => ratio_vals().len() as u64 * ratio_vals().len() as u64,
        "serde" => n,
        "log2" => n + 4096,
        "int.sparse" => (SPARSE_A + if thorough { 120 } else { 0 }) * SPARSE_D * SPARSE_D,
        "text.struct" => TS_RADIX.len() as u64 * if thorough { 300 } else { 70 } * 5,
        _ => 0,
    }
}

fn float_vals() -> Vec<(i64, i64)> {
    let mut v = vec![];
    for s in [0i64, 1, -1, 3, 7, -13, 99, 123, 1001, -99999, 123456789] {
        for e in [-40i64, -3, -1, 0, 1, 2, 17] {
            v.push((s, e));
        }
    }
    v
}
fn ratio_vals() -> Vec<(i64, i64)> {
    let mut v = vec![];
    for d in [1i64, 2, 3, 7, 12, 1 << 40, (1 << 62) - 57] {
        for n in [0i64, 1, -1, 5, -22, 1 << 33, i64::MAX, -(1 << 61) + 3] {
            v.push((n, d));
        }
    }
    v
}

pub fn eval(sweep: &str, thorough: bool, i: u64) -> String {
    match sweep {
        "int.pairs" => {
            let v = ints(thorough);
            let n = v.len() as u64;
            let ((na, a), (nb, b)) = (&v[(i / n) as usize], &v[(i % n) as usize]);
            let (a, b) = (a.clone(), b.clone());
            format!("{} ? {} => ", na, nb)
                + &run(|| {
                    let (ia, ib) = (-IBig::from(a.clone()), IBig::from(b.clone()));
                    let mut s = format!("+{} *{} i-{} ", hu(&(&a + &b)), hu(&(&a * &b)), hi(&(&ia - &ib)));
                    if !b.is_zero() {
                        let (q, r) = (&a).div_rem(&b);
                        s += &format!("/{} %{} ", hu(&q), hu(&r));
                        let (qi, ri) = (&ia).div_rem(&ib);
                        s += &format!("i/{} i%{} ", hi(&qi), hi(&ri));
                        if b.bit_len() <= 2100 {
                            let ring = ConstDivisor::new(b.clone());
                            s += &format!("mod*{} ", hu(&(ring.reduce(a.clone()) * ring.reduce(ia.clone())).residue()));
                            // two different short operands (their lengths sum to about the modulus length)
                            let half = b.bit_len() / 2;
                            let x = (&a >> (a.bit_len().saturating_sub(half))) | UBig::ONE;
                            let y = &x + UBig::from(2u8);
                            let z = &b >> (half + 1);
                            let p1 = (ring.reduce(x.clone()) * ring.reduce(y.clone())).residue();
                            let p2 = (ring.reduce(y.clone()) * ring.reduce(z.clone())).residue();
                            let e = ring.reduce(x.clone()).pow(&y).residue();
                            s += &format!("modxy{}:{} modyz{}:{} modpow{} ", hu(&p1), p1 < b, hu(&p2), p2 < b, hu(&e));
                        }
                    }
                    if !(a.is_zero() && b.is_zero()) {
                        s += &format!("gcd{} ", hu(&(&a).gcd(&b)));
                        if a.bit_len() <= 4096 && b.bit_len() <= 4096 {
                            let (g, x, y) = (&a).gcd_ext(&b);
                            let ok = IBig::from(a.clone()) * &x + IBig::from(b.clone()) * &y == IBig::from(g.clone());
                            s += &format!("ext{}:{} ", hu(&g), ok);
                        }
                    }
                    s += &format!("&{} |{} ^{} i&{} cmp{:?}", hu(&(&a & &b)), hu(&(&a | &b)), hu(&(&a ^ &b)), hi(&(&ia & &ib)), a.cmp(&b));
                    s
                })
        }
        "int.unary" => {
            let v = ints(thorough);
            let (na, a) = &v[i as usize];
            let a = a.clone();
            format!("{} => ", na)
                + &run(|| {
                    let ia = -IBig::from(a.clone());
                    let (r, rem) = a.sqrt_rem();
                    let mut s = format!("sqr{} sqrt{}+{} cbrt{} root5:{} ", hu(&a.sqr()), hu(&r), hu(&rem), hu(&a.nth_root(3)), hu(&a.nth_root(5)));
                    s += &format!("pow3:{} <<67:{} >>67:{} i>>67:{} ", hu(&a.pow(3)), hu(&(&a << 67usize)), hu(&(&a >> 67usize)), hi(&(&ia >> 67usize)));
                    s += &format!("bits{} tz{:?} to{:?} ones{} ", a.bit_len(), a.trailing_zeros(), a.trailing_ones(), a.count_ones());
                    s += &format!("f64:{:?} f32:{:?} ", a.to_f64(), ia.to_f32());
                    // conversions to primitives and primitive-mixed forms (their code paths depend on the word size)
                    s += &format!("u8:{:?} u32:{:?} u64:{:?} u128:{:?} i64:{:?} i128:{:?} ni128:{:?} ", u8::try_from(&a).ok(), u32::try_from(&a).ok(), u64::try_from(&a).ok(), u128::try_from(&a).ok(), i64::try_from(&ia).ok(), i128::try_from(&a).ok(), i128::try_from(&ia).ok());
                    let (d64, d128) = (0xFFFF_FFFF_0000_0001u64, (1u128 << 127) - 12345);
                    s += &format!("%u64:{} %u128:{} /u64:{} i%i64:{} +u128:{} &u128:{} *u64:{} ", &a % d64, &a % d128, hu(&(&a / d64)), &ia % -(d64 as i64 / 2), hu(&(&a + d128)), &a & d128, hu(&(&a * d64)));
                    s += &format!("fromu128:{} fromi128:{} ", hu(&UBig::from(d128)), hi(&IBig::from(-(d128 as i128))));
                    if !a.is_zero() {
                        s += &format!("ilog3:{} ilog2^70:{} ", a.ilog(&UBig::from(3u8)), if a > (UBig::ONE << 70usize) { a.ilog(&(UBig::ONE << 70usize)) } else { 0 });
                    }
                    s += &format!("be{} ibe{} chunks{}", hexb(&a.to_be_bytes().iter().rev().cloned().collect::<Vec<u8>>()).len(), hexb(&ia.to_le_bytes()).len(), a.to_chunks(100).len());
                    s
                })
        }
        "int.text" => {
            let v = ints(thorough);
            let (na, a) = &v[i as usize];
            let a = a.clone();
            format!("{} => ", na)
                + &run(|| {
                    let mut s = String::new();
                    for r in [2u32, 3, 10, 16, 36] {
                        let t = a.in_radix(r).to_string();
                        let back = UBig::from_str_radix(&t, r).map(|b| b == a);
                        let mut f: u64 = 0xcbf29ce484222325;
                        for b in t.bytes() {
                            f ^= b as u64;
                            f = f.wrapping_mul(0x100000001b3);
                        }
                        s += &format!("r{}:{}#{:016x}:{:?} ", r, t.len(), f, back);
                    }
                    let ia = -IBig::from(a.clone());
                    s += &format!("fmt[{}]", format!("{:>12} {:#x} {:+}", ia, a, ia).len());
                    s
                })
        }
        "float.ops" => {
            let v = float_vals();
            let n = v.len() as u64;
            let ((s1, e1), (s2, e2)) = (v[(i / n) as usize], v[(i % n) as usize]);
            format!("{}e{} ? {}e{} => ", s1, e1, s2, e2)
                + &run(|| {
                    let mut s = String::new();
                    {
                        let c = Context::<mode::HalfAway>::new(9);
                        let (a, b) = (Repr::<10>::new(IBig::from(s1), e1 as isize), Repr::<10>::new(IBig::from(s2), e2 as isize));
                        s += &format!("d+{:?} d*{:?} ", c.add(&a, &b), c.mul(&a, &b));
                        if s2 != 0 {
                            s += &format!("d/{:?} ", c.div(&a, &b));
                        }
                        if s1 > 0 {
                            s += &format!("dsqrt{:?} dln{:?} ", c.sqrt(&a), c.ln(&a));
                        }
                        if e1 <= 1 {
                            s += &format!("dexp{:?} ", c.exp(&a));
                        }
                        let fa = FBig::<mode::HalfAway, 10>::from_repr(a.clone(), Context::new(12));
                        s += &format!("dstr[{}] db2{:?} df64{:?} ", fa, fa.clone().with_base_and_precision::<2>(20), fa.to_f64());
                    }
                    {
                        let c = Context::<mode::Zero>::new(40);
                        let (a, b) = (Repr::<2>::new(IBig::from(s1), e1 as isize), Repr::<2>::new(IBig::from(s2), e2 as isize));
                        s += &format!("b-{:?} b*{:?} ", c.sub(&a, &b), c.mul(&a, &b));
                        if s2 != 0 {
                            s += &format!("b/{:?} ", c.div(&a, &b));
                        }
                        if s1 > 0 && e1.abs() <= 3 {
                            s += &format!("bln{:?} bpowf{:?} ", c.ln(&a), if s2 >= 0 && e2.abs() <= 2 { Some(c.powf(&a, &b)) } else { None });
                        }
                    }
                    s
                })
        }
        "ratio.ops" => {
            let v = ratio_vals();
            let n = v.len() as u64;
            let ((n1, d1), (n2, d2)) = (v[(i / n) as usize], v[(i % n) as usize]);
            format!("{}/{} ? {}/{} => ", n1, d1, n2, d2)
                + &run(|| {
                    let (a, b) = (RBig::from_parts(IBig::from(n1), UBig::from(d1 as u64)), RBig::from_parts(IBig::from(n2), UBig::from(d2 as u64)));
                    let (ra, rb) = (Relaxed::from_parts(IBig::from(n1) * 6, UBig::from(d1 as u64) * 6u8), b.clone().relax());
                    let mut s = format!("+{} *{} r-{} cmp{:?} ", &a + &b, &a * &b, &ra - &rb, a.cmp(&b));
                    if n2 != 0 {
                        s += &format!("/{} ", &a / &b);
                    }
                    s += &format!("f64{:?} near{:?} flt{:?} simp{}", a.to_f64(), a.nearest(&UBig::from(1000u16)), a.to_float::<mode::HalfEven, 10>(12), RBig::simplest_in(a.clone(), &a + RBig::from_parts(IBig::ONE, UBig::from(1000u16))));
                    s
                })
        }
        "serde" => {
            let v = ints(thorough);
            let (na, a) = &v[i as usize];
            let a = a.clone();
            format!("{} => ", na)
                + &run(|| {
                    let ia = -IBig::from(a.clone());
                    let fp = |b: &[u8]| {
                        let mut f: u64 = 0xcbf29ce484222325;
                        for x in b {
                            f ^= *x as u64;
                            f = f.wrapping_mul(0x100000001b3);
                        }
                        format!("{}#{:016x}", b.len(), f)
                    };
                    let ju = serde_json::to_string(&a).unwrap();
                    let ji = serde_json::to_string(&ia).unwrap();
                    let pu = postcard::to_allocvec(&a).unwrap();
                    let pi = postcard::to_allocvec(&ia).unwrap();
                    let r = RBig::from_parts(ia.clone(), a.clone() + UBig::ONE);
                    let f = FBig::<mode::HalfEven, 10>::from_parts(ia.clone(), -3);
                    let (jr, pr, jf, pf) = (serde_json::to_string(&r).unwrap(), postcard::to_allocvec(&r).unwrap(), serde_json::to_string(&f).unwrap(), postcard::to_allocvec(&f).unwrap());
                    let back = serde_json::from_str::<UBig>(&ju).unwrap() == a
                        && serde_json::from_str::<IBig>(&ji).unwrap() == ia
                        && postcard::from_bytes::<UBig>(&pu).unwrap() == a
                        && postcard::from_bytes::<IBig>(&pi).unwrap() == ia
                        && serde_json::from_str::<RBig>(&jr).unwrap() == r
                        && postcard::from_bytes::<RBig>(&pr).unwrap() == r
                        && serde_json::from_str::<FBig<mode::HalfEven, 10>>(&jf).unwrap() == f
                        && postcard::from_bytes::<FBig<mode::HalfEven, 10>>(&pf).unwrap() == f;
                    format!("ju{} ji{} pu{} pi{} jr{} pr{} jf{} pf{} le{} roundtrip:{}", fp(ju.as_bytes()), fp(ji.as_bytes()), fp(&pu), fp(&pi), fp(jr.as_bytes()), fp(&pr), fp(jf.as_bytes()), fp(&pf), fp(&ia.to_le_bytes()), back)
                })
        }
        "text.struct" => {
            let pat = i % 5;
            let n = ((i / 5) % if thorough { 300 } else { 70 }) as usize + 1;
            let r = TS_RADIX[(i / 5 / if thorough { 300 } else { 70 }) as usize];
            let dig = |d: u32| core::char::from_digit(d, r).unwrap();
            let (mx, one, zero) = (dig(r - 1), dig(1), dig(0));
            let mut t: Vec<char> = match pat {
                0 => vec![mx; n],
                1 => core::iter::once(one).chain(core::iter::repeat(zero).take(n - 1)).collect(),
                2 => core::iter::once(mx).chain(core::iter::repeat(zero).take(n - 1)).collect(),
                3 => core::iter::once(one).chain(core::iter::repeat(mx).take(n - 1)).collect(),
                _ => vec![mx; n],
            };
            if pat == 4 {
                t[n - 1] = dig(r - 2);
            }
            let text: String = t.into_iter().collect();
            format!("r{} n{} p{} => ", r, n, pat)
                + &run(|| {
                    let u = UBig::from_str_radix(&text, r);
                    let neg = format!("-{}", text);
                    let ineg = IBig::from_str_radix(&neg, r);
                    let mut s = format!("u:{} i:{} ", u.as_ref().map(hu).unwrap_or("Err".into()), ineg.as_ref().map(hi).unwrap_or("Err".into()));
                    let prefix = match r {
                        2 => Some("0b"),
                        8 => Some("0o"),
                        16 => Some("0x"),
                        _ => None,
                    };
                    if let Some(pf) = prefix {
                        let lit = format!("{}{}", pf, text);
                        s += &format!("pfx:{} ", UBig::from_str_with_radix_prefix(&lit).map(|(v, rr)| format!("{}@{}", hu(&v), rr)).unwrap_or("Err".into()));
                        s += &format!("ipfx:{} ", IBig::from_str_with_radix_prefix(&format!("-{}", lit)).map(|(v, rr)| format!("{}@{}", hi(&v), rr)).unwrap_or("Err".into()));
                        s += &format!("json:{} ", serde_json::from_str::<UBig>(&format!("\"{}\"", lit)).map(|v| hu(&v)).unwrap_or("Err".into()));
                    }
                    if let Ok(v) = u {
                        // the same digits as a float significand with exactly n digits of precision
                        macro_rules! media {
                            ($B:literal) => {{
                                let f = FBig::<mode::HalfEven, $B>::from_parts(IBig::from(v.clone()), -2);
                                let pc = postcard::to_allocvec(&f).unwrap();
                                let js = serde_json::to_string(&f).unwrap();
                                // "decode to an equal number": the value is judged; whether the precision survives
                                // is part of the line (so it must at least be the same in all configurations)
                                let g1 = postcard::from_bytes::<FBig<mode::HalfEven, $B>>(&pc);
                                let g2 = serde_json::from_str::<FBig<mode::HalfEven, $B>>(&js);
                                let (b1, b2) = (g1.as_ref().map(|g| *g == f).map_err(|_| "Err"), g2.as_ref().map(|g| *g == f).map_err(|_| "Err"));
                                let (p1, p2) = (g1.as_ref().map(|g| g.precision()).unwrap_or(0), g2.as_ref().map(|g| g.precision()).unwrap_or(0));
                                s += &format!("fprec{} pc:{:?} js:{:?} precs:{},{} ", f.precision(), b1, b2, p1, p2);
                            }};
                        }
                        match r {
                            2 => media!(2),
                            10 => media!(10),
                            16 => media!(16),
                            3 => media!(3),
                            _ => {}
                        }
                    }
                    s
                })
        }
        "int.sparse" => {
            let d2 = i % SPARSE_D;
            let d1 = (i / SPARSE_D) % SPARSE_D;
            let a = i / (SPARSE_D * SPARSE_D);
            if d2 < d1 || d2 > a {
                return "skip".into();
            }
            let v = (UBig::ONE << a as usize) + (UBig::ONE << (a - d1) as usize) + (UBig::ONE << (a - d2) as usize);
            format!("2^{}+2^{}+2^{} => ", a, a - d1, a - d2)
                + &run(|| {
                    let iv = -IBig::from(v.clone());
                    let mut s = format!("f32:{:?} f64:{:?} if32:{:?} if64:{:?} ", v.to_f32(), v.to_f64(), iv.to_f32(), iv.to_f64());
                    // exact enclosure of log2(v) from the three terms
                    let t = a as f64 + (1.0 + 0.5f64.powi(d1 as i32) + 0.5f64.powi(d2 as i32)).log2();
                    let chk = |name: &str, (lb, ub): (f32, f32), t: f64| -> String {
                        let ok = (lb as f64) <= t + 1e-9 * t.abs().max(1.0) && (ub as f64) >= t - 1e-9 * t.abs().max(1.0);
                        if ok { format!("{}:ok ", name) } else { format!("{}:BAD[{:e},{:e}] true {:e} ", name, lb, ub, t) }
                    };
                    s += &chk("ubig", v.log2_bounds(), t);
                    s += &chk("ibig", iv.log2_bounds(), t);
                    if let Ok(w) = u128::try_from(&v) {
                        s += &chk("u128", w.log2_bounds(), t);
                        if w > 1 {
                            s += &chk("i128", (-((w >> 1) as i128)).log2_bounds(), ((w >> 1) as f64).log2());
                        }
                    }
                    if let Ok(w) = u64::try_from(&v) {
                        s += &chk("u64", w.log2_bounds(), t);
                        s += &chk("usize", (w as usize).log2_bounds(), t);
                    }
                    if let Ok(w) = u32::try_from(&v) {
                        s += &chk("u32", w.log2_bounds(), t);
                    }
                    let f = Repr::<2>::new(IBig::from(v.clone()), -3);
                    s += &chk("repr2", f.log2_bounds(), t - 3.0);
                    let x: FBig<mode::HalfEven, 2> = FBig::from(v.clone());
                    s += &format!("ff32:{:?} ff64:{:?} ", x.to_f32(), x.to_f64());
                    let r = RBig::from_parts(IBig::from(v.clone()), UBig::from(3u8));
                    s += &format!("rf32:{:?} rf64:{:?} bits{} tz{:?}", r.to_f32(), r.to_f64(), v.bit_len(), v.trailing_zeros());
                    s
                })
        }
        "log2" => {
            // only bounds are promised: each configuration checks lb <= log2 x <= ub itself
            let v = ints(thorough);
            let n = v.len() as u64;
            if i < n {
                let (na, a) = &v[i as usize];
                let a = a.clone();
                format!("{} => ", na)
                    + &run(|| {
                        if a.is_zero() {
                            return "skip".into();
                        }
                        let bl = a.bit_len();
                        // exact enclosure of log2(a) from the top 64 bits: a = m * 2^k (1 + eps), 0 <= eps < 2^-63
                        let top = if bl > 64 { (&a >> (bl - 64)).to_f64().value() } else { a.to_f64().value() };
                        let k = if bl > 64 { (bl - 64) as f64 } else { 0.0 };
                        let t = top.log2() + k;
                        let mut s = String::new();
                        let chk = |name: &str, (lb, ub): (f32, f32), t: f64| -> String {
                            let ok = (lb as f64) <= t + 1e-9 * t.abs().max(1.0) && (ub as f64) >= t - 1e-9 * t.abs().max(1.0);
                            if ok { format!("{}:ok ", name) } else { format!("{}:BAD[{:e},{:e}] true {:e} ", name, lb, ub, t) }
                        };
                        s += &chk("ubig", a.log2_bounds(), t);
                        s += &chk("ibig", (-IBig::from(a.clone())).log2_bounds(), t);
                        let r = RBig::from_parts(IBig::from(a.clone()), UBig::from(7u8));
                        s += &chk("rbig", r.log2_bounds(), t - 7f64.log2());
                        let f = Repr::<10>::new(IBig::from(a.clone()), -5);
                        s += &chk("repr10", f.log2_bounds(), t - 5.0 * 10f64.log2());
                        let f3 = Repr::<3>::new(-IBig::from(a.clone()), -4);
                        s += &chk("repr3", f3.log2_bounds(), t - 4.0 * 3f64.log2());
                        s
                    })
            } else {
                // primitives: f32 bit patterns on a grid incl. subnormals, u64 / u128 patterns
                let j = i - n;
                run(|| {
                    let bits = (j as u32).wrapping_mul(0x0010_0001) ^ ((j as u32) << 20);
                    let f = f32::from_bits(bits & 0x7fff_ffff);
                    let mut s = format!("f32 {:#010x} => ", bits & 0x7fff_ffff);
                    let chk = |name: &str, (lb, ub): (f32, f32), t: f64| -> String {
                        let ok = (lb as f64) <= t + 1e-9 * t.abs().max(1.0) && (ub as f64) >= t - 1e-9 * t.abs().max(1.0);
                        if ok { format!("{}:ok ", name) } else { format!("{}:BAD[{:e},{:e}] true {:e} ", name, lb, ub, t) }
                    };
                    if f.is_finite() && f > 0.0 {
                        s += &chk("f32", f.log2_bounds(), (f as f64).log2());
                        s += &chk("f64", (f as f64 * 1.000000123).log2_bounds(), (f as f64 * 1.000000123).log2());
                    }
                    let u = (j + 1).wrapping_mul(0x9E37_79B9_7F4A_7C15);
                    s += &chk("u64", u.log2_bounds(), (u as f64).log2());
                    let w = ((u as u128) << 37) | 0x1234567;
                    s += &chk("u128", w.log2_bounds(), (w as f64).log2());
                    s += &chk("u16", ((j as u16) | 1).log2_bounds(), (((j as u16) | 1) as f64).log2());
                    s
                })
            }
        }
        _ => String::new(),
    }
}

#[allow(dead_code)]
fn unused() {
    let _ = Approximation::<u8, u8>::Exact(0);
}
