//! C12 — gcd / gcd_ext, integer roots (sqrt, cbrt, nth_root and the *_rem forms), ilog,
//! log2_bounds / log2_est and UBig::remove satisfy their defining (in)equalities on primitives
//! and on UBig / IBig / FBig / RBig; only the documented panics occur.
//!
//! Oracles are definitions evaluated on the reference side (u128 checked arithmetic, num_bigint):
//!   root:  r^n <= x < (r+1)^n, rem = x - r^n        gcd_ext: g = gcd_ref, s*a + t*b = g
//!   ilog:  b^e <= |x| < b^(e+1)                       remove: x = f^k * c, f does not divide c
//!   log2_bounds: lb <= log2|x| <= ub, decided by f64 log2 when the margin is > 2^-40 (relative)
//!   and by a rigorous BigInt fixed-point enclosure (h12::log2_iv_u) otherwise.

#[path = "h12.rs"]
mod h12;

use crate::core::{guard, is_internal_panic, Ctx, Rec};
use crate::h::*;
use crate::uni::*;
use dashu_base::{CubicRoot, CubicRootRem, EstimatedLog2, ExtendedGcd, Gcd, SquareRoot, SquareRootRem};
use dashu_int::{IBig, UBig};
use h12::*;
use num_bigint::{BigInt, BigUint, Sign as NSign};
use num_integer::Integer;
use num_traits::{One, Pow, Signed, ToPrimitive, Zero};

const P: &str = "C12";

fn bits_class(bits: u32) -> &'static str {
    match bits {
        0 => "zero",
        1 => "one",
        2..=8 => "bits2-8",
        9..=16 => "bits9-16",
        17..=32 => "bits17-32",
        33..=64 => "bits33-64",
        _ => "bits65-128",
    }
}

fn mix(r: u64) -> u64 {
    let x = r.wrapping_mul(0x9E37_79B9_7F4A_7C15);
    x ^ (x >> 29)
}

// ---------------------------------------------------------------------------------------------
// primitive roots

#[inline]
fn judge_root_prim(rec: &mut Rec, tn: &str, op: &str, n: u32, x: u128, got: Result<(u128, Option<u128>), String>) {
    rec.step();
    let cls = bits_class(128 - x.leading_zeros());
    match got {
        Ok((r, rem)) => {
            if !is_floor_root_u128(x, n, r) {
                let w = floor_root_u128(x, n);
                rec.fail(format!("{}|{}::{}|wrong-value|{}", P, tn, op, cls), format!("{}{}.{}()", x, tn, op), format!("root {}", r), format!("root {} ({}^{} <= x < {}^{})", w, w, n, w + 1, n));
            } else if let Some(e) = rem {
                if r.pow(n) + e != x {
                    rec.fail(format!("{}|{}::{}|wrong-remainder|{}", P, tn, op, cls), format!("{}{}.{}()", x, tn, op), format!("({}, {})", r, e), format!("({}, {})", r, x - r.pow(n)));
                }
            }
        }
        Err(p) => rec.fail(format!("{}|{}::{}|panic|{}", P, tn, op, cls), format!("{}{}.{}()", x, tn, op), format!("panic: {}", p), format!("root {}", floor_root_u128(x, n))),
    }
}

macro_rules! prim_roots {
    ($rec:expr, $t:ty, $x:expr, sqrt) => {{
        let x: $t = $x;
        judge_root_prim($rec, stringify!($t), "sqrt", 2, x as u128, guard(|| (x.sqrt() as u128, None)));
        judge_root_prim($rec, stringify!($t), "sqrt_rem", 2, x as u128, guard(|| { let (r, e) = x.sqrt_rem(); (r as u128, Some(e as u128)) }));
    }};
    ($rec:expr, $t:ty, $x:expr, cbrt) => {{
        let x: $t = $x;
        judge_root_prim($rec, stringify!($t), "cbrt", 3, x as u128, guard(|| (x.cbrt() as u128, None)));
        judge_root_prim($rec, stringify!($t), "cbrt_rem", 3, x as u128, guard(|| { let (r, e) = x.cbrt_rem(); (r as u128, Some(e as u128)) }));
    }};
    ($rec:expr, $t:ty, $x:expr) => {{
        prim_roots!($rec, $t, $x, sqrt);
        prim_roots!($rec, $t, $x, cbrt);
    }};
}

/// value grid of a `bits`-wide unsigned type: 0..=17, 2^k, 2^k +- 1, 3*2^k, MAX-ish, Fibonacci
/// numbers, primorial-like products, two LCG streams (all truncated to the width)
fn prim_grid(bits: u32, seed: u64) -> Vec<u128> {
    let max: u128 = if bits == 128 { u128::MAX } else { (1u128 << bits) - 1 };
    let mut v: Vec<u128> = (0..=17).collect();
    for k in 1..bits {
        let p = 1u128 << k;
        v.extend_from_slice(&[p, p - 1, p + 1, p.wrapping_mul(3) & max, (p | (p >> 1)) + 1, p ^ (p >> 3)]);
    }
    v.extend_from_slice(&[max, max - 1, max - 2, max / 2, max / 2 + 1, max / 3, max / 3 * 2, max / 5, max - (max >> 7)]);
    let (mut a, mut b) = (1u128, 2u128);
    while b <= max && b >= a {
        v.push(b);
        let c = a.wrapping_add(b);
        if c < b {
            break;
        }
        a = b;
        b = c;
    }
    let mut pr: u128 = 1;
    for q in [2u128, 3, 5, 7, 11, 13, 17, 19, 23, 29, 31, 37, 41, 43, 47, 53, 59, 61, 67, 71, 73, 79, 83, 89, 97, 101] {
        match pr.checked_mul(q) {
            Some(x) if x <= max => {
                pr = x;
                v.push(pr);
                v.push((pr / 2).wrapping_mul(3) & max);
            }
            _ => break,
        }
    }
    let mut st = 0x1234_5678_9ABC_DEF1u64 ^ seed.wrapping_mul(0x9E37_79B9_7F4A_7C15);
    for i in 0..24u32 {
        st = st.wrapping_mul(6364136223846793005).wrapping_add(1442695040888963407);
        let hi = mix(st) as u128;
        st = st.wrapping_mul(6364136223846793005).wrapping_add(1442695040888963407);
        let x = (hi << 64 | mix(st) as u128) & max;
        v.push(x >> (i * (bits / 24) % bits));
    }
    v.iter_mut().for_each(|x| *x &= max);
    v.sort();
    v.dedup();
    v
}

fn sweeps_prim_roots(ctx: &mut Ctx) {
    // P1: every u8 and u16 (and the same values zero-extended to the wider types)
    ctx.sweep("prim.roots.u8u16", 256 + 65536, |i, rec| {
        if i < 256 {
            prim_roots!(rec, u8, i as u8);
        } else {
            let x = (i - 256) as u16;
            prim_roots!(rec, u16, x);
            prim_roots!(rec, u32, x as u32);
            prim_roots!(rec, u64, x as u64);
            prim_roots!(rec, u128, x as u128);
            if x > 1 {
                rec.nontrivial();
            }
            let (s, c) = (floor_root_u128(x as u128, 2), floor_root_u128(x as u128, 3));
            if s * s == x as u128 {
                rec.hit("perfect-square");
            }
            if c * c * c == x as u128 {
                rec.hit("perfect-cube");
            }
        }
        rec.sample(|| format!("sqrt/cbrt/sqrt_rem/cbrt_rem of {} in every unsigned width", if i < 256 { i } else { i - 256 }));
    });
    ctx.require_classes("prim.roots.u8u16", &["perfect-square", "perfect-cube"]);

    // P2: u32 — perfect powers and neighbours (both tiers); every value (thorough)
    ctx.sweep("prim.roots.u32.special", 65536, |i, rec| {
        let r = i as u32;
        let mut xs: Vec<u32> = vec![];
        let sq = r.wrapping_mul(r);
        xs.extend_from_slice(&[sq.wrapping_sub(1), sq, sq.wrapping_add(1)]);
        if r < 1626 {
            let cu = r * r * r;
            xs.extend_from_slice(&[cu.wrapping_sub(1), cu, cu.wrapping_add(1)]);
            rec.hit("cube-neighbourhood");
        }
        if r < 32 {
            let p = 1u32 << r;
            xs.extend_from_slice(&[p.wrapping_sub(1), p, p.wrapping_add(1), u32::MAX - r]);
        }
        for x in xs {
            prim_roots!(rec, u32, x);
            rec.nontrivial();
        }
        rec.sample(|| format!("u32 radicands {}^2-1, {}^2, {}^2+1 (and cubes when they fit)", r, r, r));
    });
    ctx.require_classes("prim.roots.u32.special", &["cube-neighbourhood"]);
    if !ctx.quick() {
        const BL: u64 = 4096;
        ctx.sweep("prim.roots.u32.all", (1u64 << 32) / BL, |i, rec| {
            for x in (i * BL)..((i + 1) * BL) {
                prim_roots!(rec, u32, x as u32);
            }
            rec.nontrivial += BL;
            rec.sample(|| format!("all four root operations on every u32 in [{}, {})", i * BL, (i + 1) * BL));
        });
        if let Some(s) = ctx.sweeps.last_mut() {
            s.states = 1u64 << 32;
        }
    }

    // P3: u64 / u128 by root: r^2-1, r^2, r^2+1 for every r below the bound; cubes likewise
    const BL: u64 = 4096;
    let rmax64: u64 = ctx.pick(1 << 24, 1 << 32);
    let rmax128: u64 = ctx.pick(1 << 20, 1 << 26);
    ctx.bound("u64_sqrt_every_root_below", rmax64);
    ctx.bound("u64_cbrt_every_root_below", 2642246u64);
    ctx.bound("u128_derived_roots_below", rmax128);
    ctx.sweep("prim.roots.u64u128.byroot", rmax64 / BL, |i, rec| {
        for r in (i * BL)..((i + 1) * BL) {
            let sq = r * r;
            for x in [sq.wrapping_sub(1), sq, sq + 1] {
                prim_roots!(rec, u64, x, sqrt);
            }
            if r <= 2642245 {
                let cu = r * r * r;
                for x in [cu.wrapping_sub(1), cu, cu.wrapping_add(1)] {
                    prim_roots!(rec, u64, x, cbrt);
                }
            }
            if r < rmax128 {
                // 64-bit root with both halves busy; 42-bit cube root
                let big = ((r << 32) | (mix(r) & 0xFFFF_FFFF)) as u128 | ((r == 0) as u128);
                let sq = big * big;
                for x in [sq - 1, sq, sq.wrapping_add(1)] {
                    prim_roots!(rec, u128, x, sqrt);
                }
                let c = ((r << 16) | (mix(r) & 0xFFFF)) as u128 | 1;
                let cu = c * c * c;
                for x in [cu - 1, cu, cu + 1] {
                    prim_roots!(rec, u128, x, cbrt);
                }
            }
        }
        rec.nontrivial += BL;
        rec.hit(if i * BL <= 2642245 { "u64-cubes" } else { "u64-squares-only" });
        if i * BL < rmax128 {
            rec.hit("u128-derived");
        }
        rec.sample(|| format!("u64 r^2-1,r^2,r^2+1 (r^3.. when it fits) for r in [{}, {}), derived u128 radicands", i * BL, (i + 1) * BL));
    });
    ctx.require_classes("prim.roots.u64u128.byroot", &["u64-cubes", "u64-squares-only", "u128-derived"]);
    if let Some(s) = ctx.sweeps.last_mut() {
        s.states = rmax64;
    }

    // P4: direct radicands from the value grids
    let g64 = prim_grid(64, ctx.seed);
    let g128 = prim_grid(128, ctx.seed);
    let (n64, n128) = (g64.len() as u64, g128.len() as u64);
    let (g64r, g128r) = (&g64, &g128);
    ctx.sweep("prim.roots.grid", n64 + n128, |i, rec| {
        if i < n64 {
            let x = g64r[i as usize] as u64;
            prim_roots!(rec, u64, x);
            prim_roots!(rec, u128, (x as u128) << 64 | mix(x) as u128);
            if x <= u32::MAX as u64 {
                prim_roots!(rec, u32, x as u32);
            }
        } else {
            prim_roots!(rec, u128, g128r[(i - n64) as usize]);
        }
        rec.nontrivial();
        rec.sample(|| format!("grid radicand #{}", i));
    });
}

// ---------------------------------------------------------------------------------------------
// primitive gcd

fn judge_gcd_prim(rec: &mut Rec, tn: &str, a: u128, b: u128, got: Result<u128, String>, got_ext: Result<(u128, BigInt, BigInt), String>) {
    let cls = format!("{}x{}", bits_class(128 - a.leading_zeros()), bits_class(128 - b.leading_zeros()));
    let case = || format!("{}{}.gcd[_ext]({})", a, tn, b);
    if a == 0 && b == 0 {
        rec.hit("zero-zero-panic");
        expect_panic(rec, P, &format!("{}::gcd", tn), "gcd(0,0)", got, case);
        expect_panic(rec, P, &format!("{}::gcd_ext", tn), "gcd(0,0)", got_ext, case);
        return;
    }
    let g = gcd_euclid_u128(a, b);
    rec.step();
    match got {
        Ok(v) if v == g => {}
        Ok(v) => rec.fail(format!("{}|{}::gcd|wrong-value|{}", P, tn, cls), case(), v.to_string(), g.to_string()),
        Err(p) => rec.fail(format!("{}|{}::gcd|panic|{}", P, tn, cls), case(), format!("panic: {}", p), g.to_string()),
    }
    rec.step();
    match got_ext {
        Ok((v, s, t)) => {
            if v != g {
                rec.fail(format!("{}|{}::gcd_ext|wrong-value|{}", P, tn, cls), case(), format!("g={} s={} t={}", v, s, t), format!("g={}", g));
            } else if &s * BigInt::from(a) + &t * BigInt::from(b) != BigInt::from(g) {
                rec.fail(format!("{}|{}::gcd_ext|wrong-coefficients|{}", P, tn, cls), case(), format!("g={} s={} t={} (s*a+t*b={})", v, s, t, &s * BigInt::from(a) + &t * BigInt::from(b)), format!("s*a + t*b = {}", g));
            }
        }
        Err(p) => rec.fail(format!("{}|{}::gcd_ext|panic|{}", P, tn, cls), case(), format!("panic: {}", p), format!("g={} with Bezout coefficients", g)),
    }
    if a == 0 || b == 0 {
        rec.hit("one-zero");
    } else if a == b {
        rec.hit("equal");
    }
    rec.hit(if g == 1 { "coprime" } else { "gcd>1" });
    if a > 1 || b > 1 {
        rec.nontrivial();
    }
}

macro_rules! prim_gcd {
    ($rec:expr, $t:ty, $a:expr, $b:expr) => {{
        let (a, b): ($t, $t) = ($a as $t, $b as $t);
        judge_gcd_prim(
            $rec,
            stringify!($t),
            a as u128,
            b as u128,
            guard(|| a.gcd(b) as u128),
            guard(|| {
                let (g, s, t) = a.gcd_ext(b);
                (g as u128, BigInt::from(s), BigInt::from(t))
            }),
        );
    }};
}

fn sweeps_prim_gcd(ctx: &mut Ctx) {
    ctx.sweep("prim.gcd.u8xu8", 65536, |i, rec| {
        prim_gcd!(rec, u8, i >> 8, i & 255);
        // the same pair through every wider type
        prim_gcd!(rec, u16, i >> 8, i & 255);
        prim_gcd!(rec, u32, i >> 8, i & 255);
        prim_gcd!(rec, u64, i >> 8, i & 255);
        prim_gcd!(rec, u128, i >> 8, i & 255);
        prim_gcd!(rec, usize, i >> 8, i & 255);
        rec.sample(|| format!("gcd/gcd_ext({}, {}) in u8..u128, usize", i >> 8, i & 255));
    });
    ctx.require_classes("prim.gcd.u8xu8", &["zero-zero-panic", "one-zero", "equal", "coprime", "gcd>1"]);

    let b16 = prim_grid(16, ctx.seed);
    let nb = b16.len() as u64;
    ctx.bound("u16_boundary_values", nb);
    let b16r = &b16;
    ctx.sweep("prim.gcd.u16.boundary_x_all", nb * 65536, |i, rec| {
        let (a, b) = (b16r[(i >> 16) as usize] as u16, (i & 0xFFFF) as u16);
        prim_gcd!(rec, u16, a, b);
        prim_gcd!(rec, u16, b, a);
        rec.sample(|| format!("u16 gcd/gcd_ext({}, {}) both orders", a, b));
    });

    let grids: Vec<Vec<u128>> = vec![prim_grid(32, ctx.seed), prim_grid(64, ctx.seed), prim_grid(128, ctx.seed)];
    let sizes: Vec<u64> = grids.iter().map(|g| (g.len() * g.len()) as u64).collect();
    ctx.bound("gcd_grid_values_u32_u64_u128", serde_json::json!(grids.iter().map(|g| g.len()).collect::<Vec<_>>()));
    let (gr, sz) = (&grids, &sizes);
    ctx.sweep("prim.gcd.grid", sizes.iter().sum(), |mut i, rec| {
        let mut k = 0;
        while i >= sz[k] {
            i -= sz[k];
            k += 1;
        }
        let n = gr[k].len() as u64;
        let (a, b) = (gr[k][(i / n) as usize], gr[k][(i % n) as usize]);
        match k {
            0 => prim_gcd!(rec, u32, a, b),
            1 => {
                prim_gcd!(rec, u64, a, b);
                prim_gcd!(rec, usize, a, b);
            }
            _ => prim_gcd!(rec, u128, a, b),
        }
        rec.hit(["u32", "u64+usize", "u128"][k]);
        rec.sample(|| format!("{} gcd/gcd_ext({:#x}, {:#x})", ["u32", "u64", "u128"][k], a, b));
    });
    ctx.require_classes("prim.gcd.grid", &["u32", "u64+usize", "u128", "zero-zero-panic", "one-zero", "equal", "coprime", "gcd>1"]);
}

// ---------------------------------------------------------------------------------------------
// reference self-check (machinery error if it fails)

fn self_check(ctx: &mut Ctx) -> bool {
    let mut bad: Vec<String> = vec![];
    // (1) enclosure vs 96-bit constants floor(log2(n/d) * 2^96) computed with mpmath (400 bits)
    let consts: [(u32, u32, &str); 5] = [
        (3, 1, "125573666586150569315490533898"),
        (10, 1, "263190258962436467100402834429"),
        (7, 5, "38459475551827621431347849126"),
        (65535, 1, "1267648856103637992385421132465"),
        (1, 3, "-125573666586150569315490533899"),
    ];
    for (n, d, c) in consts {
        let c: BigInt = c.parse().unwrap();
        let iv = log2_iv_q(&BigUint::from(n), &BigUint::from(d));
        if !(iv.lo <= &c + 1 && iv.hi >= c && &iv.hi - &iv.lo <= BigInt::from(4)) {
            bad.push(format!("log2 enclosure of {}/{} = [{}, {}] does not match the constant {}", n, d, iv.lo, iv.hi, c));
        }
    }
    // (2) enclosure vs f64 log2 (validates the fast path) on small and on huge arguments
    let mut args: Vec<BigUint> = (1u32..=2048).map(BigUint::from).collect();
    for k in [24u64, 53, 64, 127, 128, 1000, 5000] {
        for d in [-1i32, 0, 1] {
            args.push((BigInt::from(pow2(k)) + d).to_biguint().unwrap());
        }
        args.push(pow2(k) * 3u32 + 1u32);
    }
    for a in &args {
        let iv = log2_iv_u(a);
        let l = log2_f64_big(a);
        if !((iv.mid_f64() - l).abs() <= 1e-12 * l.abs().max(1.0)) || iv.lo > iv.hi {
            bad.push(format!("log2 enclosure of {} has midpoint {} but f64 says {}", hexu(a), iv.mid_f64(), l));
        }
        if a.bits() <= 64 && a.trailing_zeros() == Some(a.bits() - 1) && iv.lo != iv.hi {
            bad.push(format!("log2 enclosure of the power of two {} is not exact", hexu(a)));
        }
    }
    // (3) exact f32 decomposition
    for b in [1.0f32, -1.5, 1.5849625, f32::MIN_POSITIVE, f32::from_bits(1), f32::MAX, -0.1, 127.99999] {
        let (m, e) = f32_parts(b);
        if m.to_f64().unwrap() * 2f64.powi(e) != b as f64 {
            bad.push(format!("f32_parts({:e}) wrong", b));
        }
    }
    let iv3 = log2_iv_u(&BigUint::from(3u32));
    if judge_lower(1.5849624, &iv3) != Verdict::Ok || judge_lower(1.5849626, &iv3) != Verdict::Violated || judge_upper(1.5849626, &iv3) != Verdict::Ok || judge_upper(1.5849624, &iv3) != Verdict::Violated {
        bad.push("judge_lower/judge_upper disagree with log2(3) = 1.58496250072".into());
    }
    // (3b) exact intervals for values that are powers of two in disguise
    let m3 = BigInt::from(-3) << F;
    let e1 = log2_iv_float(&BigUint::from(125u32), 10, -3);
    let e2 = log2_iv_float(&BigUint::from(9u32), 3, -2);
    let e3 = log2_iv_q(&BigUint::from(6u32), &BigUint::from(48u32));
    let e4 = log2_iv_float(&BigUint::from(3u32), 10, -1);
    if e1.lo != m3 || e1.hi != m3 || !e2.lo.is_zero() || !e2.hi.is_zero() || e3.lo != m3 || e3.hi != m3 || e4.lo >= e4.hi || (e4.mid_f64() - 0.3f64.log2()).abs() > 1e-12 {
        bad.push("log2_iv_float / log2_iv_q exactness check failed".into());
    }
    // (4) BigUint gcd / pow / roots / logs vs u128 definitions
    let small: Vec<u128> = prim_grid(16, 0).into_iter().chain([u64::MAX as u128, 1 << 64, (1 << 64) + 1, 600851475143]).collect();
    for &x in &small {
        for &y in &small {
            if x | y != 0 && BigUint::from(x).gcd(&BigUint::from(y)) != BigUint::from(gcd_euclid_u128(x, y)) {
                bad.push(format!("num_integer gcd({}, {}) disagrees with Euclid on u128", x, y));
            }
        }
        for n in [2u32, 3, 5] {
            let r = floor_root_u128(x, n);
            if !is_floor_root(&BigUint::from(x), n, &BigUint::from(r)) || is_floor_root(&BigUint::from(x), n, &BigUint::from(r + 1)) || (r > 0 && is_floor_root(&BigUint::from(x), n, &BigUint::from(r - 1))) {
                bad.push(format!("is_floor_root disagrees with the u128 binary search at x={}, n={}", x, n));
            }
            if let Some(p) = (x as u64 as u128 % 65536).checked_pow(n) {
                if Pow::pow(BigUint::from(x as u64 as u128 % 65536), n) != BigUint::from(p) {
                    bad.push("BigUint pow disagrees with u128 checked_pow".into());
                }
            }
        }
        if x >= 1 {
            for b in [2u128, 3, 10, 65536] {
                let e = floor_log(&BigUint::from(x), &BigUint::from(b));
                let ok = b.checked_pow(e as u32).map_or(false, |p| p <= x) && b.checked_pow(e as u32 + 1).map_or(true, |p| p > x);
                if !ok || !is_floor_log(&BigUint::from(x), &BigUint::from(b), e) || is_floor_log(&BigUint::from(x), &BigUint::from(b), e + 1) {
                    bad.push(format!("floor_log/is_floor_log wrong at x={}, b={}", x, b));
                }
            }
        }
    }
    if bad.is_empty() {
        true
    } else {
        for b in bad.iter().take(5) {
            ctx.machinery(format!("reference self-check failed: {}", b));
        }
        false
    }
}

// ---------------------------------------------------------------------------------------------
// log2 judges

const REL_TOL: f64 = 9.094947017729282e-13; // 2^-40

/// outcome-class counters kept outside the BTreeMap in the hot loops, flushed once per case
const TL_NAMES: [&str; 8] = ["decided-by-f64", "decided-by-enclosure", "log2-undecided", "bounds-coincide(exact)", "width>2^-8-relative(precision not judged)", "est-inside-own-bounds", "est-outside-own-bounds(not judged)", "zero->-inf"];
#[derive(Default)]
struct Tl {
    c: [u64; 8],
}
impl Tl {
    fn flush(&mut self, rec: &mut Rec) {
        for (k, n) in self.c.iter_mut().enumerate() {
            if *n != 0 {
                *rec.classes.entry(TL_NAMES[k].to_string()).or_insert(0) += *n;
                *n = 0;
            }
        }
    }
}

fn log2_f64_u128(m: u128) -> f64 {
    let bits = 128 - m.leading_zeros();
    if bits <= 53 {
        (m as f64).log2()
    } else {
        let sh = bits - 53;
        ((m >> sh) as f64).log2() + sh as f64
    }
}

fn log2_f64_big(x: &BigUint) -> f64 {
    let bits = x.bits();
    if bits <= 64 {
        log2_f64_u128(x.to_u128().unwrap())
    } else {
        let sh = bits - 64;
        log2_f64_u128((x >> sh).to_u128().unwrap()) + sh as f64
    }
}

fn fmt_bounds(lb: f32, ub: f32) -> String {
    format!("({:?}, {:?}) [bits {:#010x}, {:#010x}]", lb, ub, lb.to_bits(), ub.to_bits())
}

/// `l64` = f64 approximation of the true log2, accurate to 2^-40 * max(1, scale); `iv` builds the
/// rigorous enclosure and is only called when f64 cannot decide.
#[allow(clippy::too_many_arguments)]
fn judge_log2(rec: &mut Rec, tl: &mut Tl, site: &str, class: &str, got: Result<(f32, f32), String>, l64: f64, scale: f64, iv: impl FnOnce() -> Iv, case: &dyn Fn() -> String) -> Option<(f32, f32)> {
    rec.step();
    let (lb, ub) = match got {
        Ok(v) => v,
        Err(p) => {
            rec.fail(format!("{}|{}|panic|{}", P, site, class), case(), format!("panic: {}", p), format!("bounds around {}", l64));
            return None;
        }
    };
    let tol = REL_TOL * scale.abs().max(l64.abs()).max(1.0);
    let (dl, du) = (l64 - lb as f64, ub as f64 - l64);
    let (mut vl, mut vu) = (Verdict::Undecided, Verdict::Undecided);
    if lb.is_finite() && l64.is_finite() {
        if dl > tol {
            vl = Verdict::Ok;
        } else if dl < -tol {
            vl = Verdict::Violated;
        }
    }
    if ub.is_finite() && l64.is_finite() {
        if du > tol {
            vu = Verdict::Ok;
        } else if du < -tol {
            vu = Verdict::Violated;
        }
    }
    let mut shown = l64;
    if vl == Verdict::Undecided || vu == Verdict::Undecided {
        let iv = iv();
        shown = iv.mid_f64();
        if vl == Verdict::Undecided {
            vl = judge_lower(lb, &iv);
        }
        if vu == Verdict::Undecided {
            vu = judge_upper(ub, &iv);
        }
        tl.c[1] += 1;
    } else {
        tl.c[0] += 1;
    }
    if vl == Verdict::Violated {
        rec.fail(format!("{}|{}|not-enclosing-lower|{}", P, site, class), case(), fmt_bounds(lb, ub), format!("lower bound <= log2 = {:.12}", shown));
    }
    if vu == Verdict::Violated {
        rec.fail(format!("{}|{}|not-enclosing-upper|{}", P, site, class), case(), fmt_bounds(lb, ub), format!("upper bound >= log2 = {:.12}", shown));
    }
    if vl == Verdict::Undecided || vu == Verdict::Undecided {
        tl.c[2] += 1;
    }
    if lb == ub {
        tl.c[3] += 1;
    }
    if ((ub - lb) as f64) > l64.abs() / 256.0 {
        tl.c[4] += 1;
    }
    Some((lb, ub))
}

fn judge_log2_zero(rec: &mut Rec, tl: &mut Tl, site: &str, got: Result<(f32, f32), String>, case: &dyn Fn() -> String) {
    rec.step();
    match got {
        Ok((lb, ub)) => {
            if lb != f32::NEG_INFINITY || ub.is_nan() {
                rec.fail(format!("{}|{}|not-enclosing-lower|zero", P, site), case(), fmt_bounds(lb, ub), "lower bound -inf (log2 0 = -inf), or the documented panic");
            }
            tl.c[7] += 1;
        }
        Err(p) => {
            if is_internal_panic(&p) {
                rec.fail(format!("{}|{}|internal-panic|zero", P, site), case(), format!("panic: {}", p), "(-inf, -inf) or the documented panic");
            }
            rec.hit("unspecified:zero-panics");
        }
    }
}

fn judge_est(rec: &mut Rec, tl: &mut Tl, site: &str, class: &str, got: Result<f32, String>, bounds: Option<(f32, f32)>, case: &dyn Fn() -> String) {
    rec.step();
    match got {
        Ok(e) => {
            if e.is_nan() {
                rec.fail(format!("{}|{}|nan-estimate|{}", P, site, class), case(), "NaN", "a number");
            } else if let Some((lb, ub)) = bounds {
                tl.c[if lb <= e && e <= ub { 5 } else { 6 }] += 1;
            }
        }
        Err(p) => rec.fail(format!("{}|{}|panic|{}", P, site, class), case(), format!("panic: {}", p), "an estimate"),
    }
}

fn mag_class(m: u128) -> &'static str {
    if m.is_power_of_two() {
        "pow2"
    } else {
        match 128 - m.leading_zeros() {
            0..=8 => "bits<=8",
            9..=16 => "bits9-16",
            17..=24 => "bits17-24",
            25..=64 => "bits25-64",
            _ => "bits65-128",
        }
    }
}

fn log2_prim_judge(rec: &mut Rec, tl: &mut Tl, tn: &'static str, site: &'static str, est_site: &'static str, mag: u128, shown: &dyn Fn() -> String, got: Result<(f32, f32), String>, est: Result<f32, String>) {
    let case = || format!("{}{}.log2_bounds()", shown(), tn);
    if mag == 0 {
        judge_log2_zero(rec, tl, site, got, &case);
        return;
    }
    let cls = mag_class(mag);
    let b = judge_log2(rec, tl, site, cls, got, log2_f64_u128(mag), 0.0, || log2_iv_u(&BigUint::from(mag)), &case);
    judge_est(rec, tl, est_site, cls, est, b, &case);
    if mag > 1 {
        rec.nontrivial();
    }
}

macro_rules! prim_log2_u {
    ($rec:expr, $tl:expr, $t:ty, $v:expr) => {{
        let v: $t = $v as $t;
        log2_prim_judge($rec, $tl, stringify!($t), concat!(stringify!($t), "::log2_bounds"), concat!(stringify!($t), "::log2_est"), v as u128, &|| format!("{}", v), guard(|| v.log2_bounds()), guard(|| v.log2_est()));
    }};
}
macro_rules! prim_log2_i {
    ($rec:expr, $tl:expr, $t:ty, $v:expr) => {{
        let v: $t = $v as $t;
        log2_prim_judge($rec, $tl, stringify!($t), concat!(stringify!($t), "::log2_bounds"), concat!(stringify!($t), "::log2_est"), v.unsigned_abs() as u128, &|| format!("{}", v), guard(|| v.log2_bounds()), guard(|| v.log2_est()));
    }};
}

/// finite non-zero float given as (mantissa, exponent): log2 = log2(m) + e
#[allow(clippy::too_many_arguments)]
fn log2_float_judge(rec: &mut Rec, tl: &mut Tl, f64_impl: bool, class: &str, m: u64, e: i32, l64: f64, shown: &dyn Fn() -> String, got: Result<(f32, f32), String>, est: Result<f32, String>) {
    let (site, est_site) = if f64_impl { ("f64::log2_bounds", "f64::log2_est") } else { ("f32::log2_bounds", "f32::log2_est") };
    let case = || format!("{} as {}: log2_bounds()", shown(), &site[..3]);
    let b = judge_log2(
        rec,
        tl,
        site,
        class,
        got,
        l64,
        0.0,
        || {
            let iv = log2_iv_u(&BigUint::from(m));
            let sh = BigInt::from(e) << F;
            Iv { lo: iv.lo + &sh, hi: iv.hi + sh }
        },
        &case,
    );
    judge_est(rec, tl, est_site, class, est, b, &case);
}

fn judge_inf(rec: &mut Rec, site: &str, got: Result<(f32, f32), String>, shown: &dyn Fn() -> String) {
    rec.step();
    match got {
        Ok((_, ub)) if ub == f32::INFINITY => {}
        Ok((lb, ub)) => rec.fail(format!("{}|{}|not-enclosing-upper|infinite", P, site), shown(), fmt_bounds(lb, ub), "upper bound +inf"),
        Err(p) => {
            if is_internal_panic(&p) {
                rec.fail(format!("{}|{}|internal-panic|infinite", P, site), shown(), p, "(inf, inf)")
            }
        }
    }
}

/// per-block class counters of the float sweeps: pow2, subnormal, normal, infinite, nan, outside-f32
const FC_NAMES: [&str; 6] = ["pow2", "subnormal", "normal", "infinite", "unspecified:nan", "normal-outside-f32-range"];

fn f32_case(rec: &mut Rec, tl: &mut Tl, fc: &mut [u64; 6], bits: u32) {
    let x = f32::from_bits(bits);
    let shown = || format!("f32::from_bits({:#010x}) = {:e}", bits, x);
    if x.is_nan() {
        rec.step();
        let _ = guard(|| x.log2_bounds());
        fc[4] += 1;
        return;
    }
    if x == 0.0 {
        judge_log2_zero(rec, tl, "f32::log2_bounds", guard(|| x.log2_bounds()), &|| format!("{}.log2_bounds()", shown()));
        return;
    }
    if x.is_infinite() {
        judge_inf(rec, "f32::log2_bounds", guard(|| x.log2_bounds()), &shown);
        fc[3] += 1;
        return;
    }
    let ex = (bits >> 23) & 0xff;
    let fr = bits & 0x7f_ffff;
    let (m, e) = if ex == 0 { (fr as u64, -149) } else { ((fr | 0x80_0000) as u64, ex as i32 - 150) };
    let (class, ci) = if m.is_power_of_two() {
        ("pow2", 0)
    } else if ex == 0 {
        ("subnormal", 1)
    } else {
        ("normal", 2)
    };
    fc[ci] += 1;
    let l64 = (x as f64).abs().log2();
    log2_float_judge(rec, tl, false, class, m, e, l64, &shown, guard(|| x.log2_bounds()), guard(|| x.log2_est()));
    // the same value through the f64 implementation
    let y = x as f64;
    log2_float_judge(rec, tl, true, class, m, e, l64, &shown, guard(|| y.log2_bounds()), guard(|| y.log2_est()));
}

fn f64_case(rec: &mut Rec, tl: &mut Tl, fc: &mut [u64; 6], bits: u64) {
    let x = f64::from_bits(bits);
    let shown = || format!("f64::from_bits({:#018x}) = {:e}", bits, x);
    if x.is_nan() {
        rec.step();
        let _ = guard(|| x.log2_bounds());
        fc[4] += 1;
        return;
    }
    if x == 0.0 {
        judge_log2_zero(rec, tl, "f64::log2_bounds", guard(|| x.log2_bounds()), &|| format!("{}.log2_bounds()", shown()));
        return;
    }
    if x.is_infinite() {
        judge_inf(rec, "f64::log2_bounds", guard(|| x.log2_bounds()), &shown);
        fc[3] += 1;
        return;
    }
    let ex = ((bits >> 52) & 0x7ff) as i32;
    let fr = bits & ((1u64 << 52) - 1);
    let (m, e) = if ex == 0 { (fr, -1074) } else { (fr | (1 << 52), ex - 1075) };
    let (class, ci) = if m.is_power_of_two() {
        ("pow2", 0)
    } else if ex == 0 {
        ("subnormal", 1)
    } else if !(897..=1150).contains(&ex) {
        ("normal-outside-f32-range", 5)
    } else {
        ("normal", 2)
    };
    fc[ci] += 1;
    // f64 log2 of the float itself; for subnormals go through the integer mantissa
    let l64 = if ex == 0 { log2_f64_u128(m as u128) + e as f64 } else { x.abs().log2() };
    log2_float_judge(rec, tl, true, class, m, e, l64, &shown, guard(|| x.log2_bounds()), guard(|| x.log2_est()));
    rec.nontrivial();
}

fn flush_fc(rec: &mut Rec, fc: &mut [u64; 6]) {
    for (k, n) in fc.iter_mut().enumerate() {
        if *n != 0 {
            *rec.classes.entry(FC_NAMES[k].to_string()).or_insert(0) += *n;
            *n = 0;
        }
    }
}

/// an enclosure that could not decide a bound is a machinery problem, never a silent pass
fn no_undecided(ctx: &mut Ctx, sweep: &str) {
    let n = ctx.sweeps.iter().find(|s| s.name == sweep).and_then(|s| s.classes.get("log2-undecided").copied()).unwrap_or(0);
    if n > 0 {
        ctx.machinery(format!("sweep {}: {} log2 bounds could not be decided by the 96-bit enclosure", sweep, n));
    }
}

fn sweeps_prim_log2(ctx: &mut Ctx) {
    ctx.sweep("prim.log2.u8u16", 65536, |i, rec| {
        let tl = &mut Tl::default();
        if i < 256 {
            prim_log2_u!(rec, tl, u8, i);
            prim_log2_i!(rec, tl, i8, i as u8 as i8);
        }
        prim_log2_u!(rec, tl, u16, i);
        prim_log2_i!(rec, tl, i16, i as u16 as i16);
        prim_log2_u!(rec, tl, u32, i);
        prim_log2_u!(rec, tl, u64, i);
        prim_log2_u!(rec, tl, u128, i);
        prim_log2_u!(rec, tl, usize, i);
        prim_log2_i!(rec, tl, i32, -(i as i32));
        tl.flush(rec);
        rec.sample(|| format!("log2_bounds/log2_est of {} as u8/u16/.. and of the same bit pattern as i8/i16", i));
    });
    ctx.require_classes("prim.log2.u8u16", &["zero->-inf", "decided-by-f64", "decided-by-enclosure", "bounds-coincide(exact)"]);
    no_undecided(ctx, "prim.log2.u8u16");

    const BL: u64 = 4096;
    let quick = ctx.quick();
    // quick: every pattern whose low mantissa byte is 00 or FF (2^25), plus every pattern with
    // |bits| < 2^16 of either sign (small subnormal mantissas take the u8/u16 paths in no_std)
    let total: u64 = if quick { (1 << 25) + (1 << 17) } else { 1 << 32 };
    ctx.bound("f32_bit_patterns", total);
    ctx.sweep("prim.log2.f32", total / BL, |i, rec| {
        let tl = &mut Tl::default();
        let fc = &mut [0u64; 6];
        for j in (i * BL)..((i + 1) * BL) {
            let bits = if !quick {
                j as u32
            } else if j < (1 << 25) {
                ((j >> 1) << 8 | if j & 1 == 1 { 0xFF } else { 0 }) as u32
            } else {
                let k = (j - (1 << 25)) as u32;
                (k & 0xFFFF) | (k >> 16) << 31
            };
            f32_case(rec, tl, fc, bits);
        }
        tl.flush(rec);
        flush_fc(rec, fc);
        rec.nontrivial += BL;
        rec.sample(|| format!("f32 (and the same value as f64) log2_bounds/log2_est, pattern block {}", i));
    });
    ctx.require_classes("prim.log2.f32", &["pow2", "subnormal", "normal", "infinite", "unspecified:nan", "decided-by-f64", "decided-by-enclosure"]);
    no_undecided(ctx, "prim.log2.f32");
    if let Some(s) = ctx.sweeps.last_mut() {
        s.states = total;
    }

    let g32 = prim_grid(32, ctx.seed);
    let g64 = prim_grid(64, ctx.seed);
    let g128 = prim_grid(128, ctx.seed);
    let mants: [u64; 13] = [0, 1, 2, 3, 7, 1000, 1 << 51, (1 << 52) - 1, (1 << 52) - 2, 0x5_5555_5555_5555, 0xA_AAAA_AAAA_AAAA, 0x3_243F_6A88_85A3, 0xF_FFFF_E000_0000];
    let (n32, n64, n128) = (g32.len() as u64, g64.len() as u64, g128.len() as u64);
    let nf = 2 * 2048 * mants.len() as u64;
    let (g32r, g64r, g128r, mr) = (&g32, &g64, &g128, &mants);
    ctx.sweep("prim.log2.grid", n32 + n64 + n128 + nf, |i, rec| {
        let tl = &mut Tl::default();
        let fc = &mut [0u64; 6];
        if i < n32 {
            let v = g32r[i as usize] as u32;
            prim_log2_u!(rec, tl, u32, v);
            prim_log2_i!(rec, tl, i32, v as i32);
            // around the 24-bit switch of the std implementation
            prim_log2_u!(rec, tl, u32, (v >> 8) | 1 << 23);
            prim_log2_u!(rec, tl, u64, ((v as u64) << 1 | 1) << 20);
        } else if i < n32 + n64 {
            let v = g64r[(i - n32) as usize] as u64;
            prim_log2_u!(rec, tl, u64, v);
            prim_log2_i!(rec, tl, i64, v as i64);
            prim_log2_u!(rec, tl, usize, v as usize);
            prim_log2_i!(rec, tl, isize, v as isize);
        } else if i < n32 + n64 + n128 {
            let v = g128r[(i - n32 - n64) as usize];
            prim_log2_u!(rec, tl, u128, v);
            prim_log2_i!(rec, tl, i128, v as i128);
        } else {
            let [s, e, m] = unflatten(i - n32 - n64 - n128, [2, 2048, mr.len() as u64]);
            f64_case(rec, tl, fc, (s as u64) << 63 | (e as u64) << 52 | mr[m]);
        }
        tl.flush(rec);
        flush_fc(rec, fc);
        rec.sample(|| format!("grid value #{}", i));
    });
    ctx.require_classes("prim.log2.grid", &["bounds-coincide(exact)", "decided-by-f64", "normal-outside-f32-range", "subnormal", "infinite"]);
    no_undecided(ctx, "prim.log2.grid");
}

// ---------------------------------------------------------------------------------------------
// big gcd

fn nonneg(x: &BigInt) -> bool {
    x.sign() != NSign::Minus
}

type Ext = (UBig, IBig, IBig);

/// unordered length class of an operand pair (gcd is symmetric)
fn pair_class(a: &BigInt, b: &BigInt) -> String {
    let (la, lb) = (word_len(a.magnitude()), word_len(b.magnitude()));
    format!("{}x{}", size_class(la.max(lb)), size_class(la.min(lb)))
}

fn panic_kind(p: &str) -> String {
    let h = crate::core::panic_class(p);
    h.lines().next().unwrap_or("").trim().chars().take(48).collect()
}

fn judge_ext(rec: &mut Rec, site: &str, class: &str, got: &Result<Ext, String>, a: &BigInt, b: &BigInt, g: &BigUint, case: &dyn Fn() -> String) {
    rec.step();
    match got {
        Ok((gg, s, t)) => {
            let (gg, s, t) = (u_to_ref(gg), i_to_ref(s), i_to_ref(t));
            if &gg != g {
                rec.fail(format!("{}|{}|wrong-value|{}", P, site, class), case(), format!("g={}", hexu(&gg)), format!("g={}", hexu(g)));
            } else if &s * a + &t * b != BigInt::from(g.clone()) {
                rec.fail(format!("{}|{}|wrong-coefficients|{}", P, site, class), case(), format!("g={} s={} t={} but s*a+t*b={}", hexu(&gg), hex(&s), hex(&t), hex(&(&s * a + &t * b))), format!("s*a + t*b = g = {}", hexu(g)));
            } else {
                // size of the coefficients is not documented: histogram only
                let small = (b.is_zero() || s.magnitude() <= b.magnitude()) && (a.is_zero() || t.magnitude() <= a.magnitude());
                rec.hit(if small { "coefficients<=operands" } else { "coefficients-larger-than-operands(not judged)" });
            }
        }
        Err(p) => rec.fail(format!("{}|{}|panic|{};{}", P, site, class, panic_kind(p)), case(), format!("panic: {}", p), format!("g={} with s*a+t*b=g", hexu(g))),
    }
}

/// A further call form of the same operation: identical to the already judged base form (the
/// normal case: all forms forward to one routine) => nothing new to judge; otherwise it is
/// judged on its own against the oracle under its own call-site name.
#[allow(clippy::too_many_arguments)]
fn ext_form(rec: &mut Rec, site: &str, class: &str, got: Result<Ext, String>, base: &Result<Ext, String>, a: &BigInt, b: &BigInt, g: &BigUint, case: &dyn Fn() -> String) {
    let same = match (&got, base) {
        (Ok(x), Ok(y)) => x == y,
        (Err(x), Err(y)) => panic_kind(x) == panic_kind(y),
        _ => false,
    };
    if same {
        rec.step();
        rec.hit("form-identical-to-base");
    } else {
        rec.hit("form-differs-from-base");
        judge_ext(rec, site, class, &got, a, b, g, case);
    }
}

fn gcd_form(rec: &mut Rec, site: &str, class: &str, got: Result<UBig, String>, base: &Result<UBig, String>, g: &BigUint, case: &dyn Fn() -> String) {
    let same = match (&got, base) {
        (Ok(x), Ok(y)) => x == y,
        (Err(x), Err(y)) => panic_kind(x) == panic_kind(y),
        _ => false,
    };
    if same {
        rec.step();
        rec.hit("form-identical-to-base");
    } else {
        rec.hit("form-differs-from-base");
        expect_u(rec, P, site, class, got, g, case);
    }
}

fn check_gcd_pair(rec: &mut Rec, a: &BigInt, b: &BigInt, all_forms: bool) {
    let case = || format!("gcd[_ext]({}, {})", hex(a), hex(b));
    let case: &dyn Fn() -> String = &case;
    let (ia, ib) = (ref_to_i(a), ref_to_i(b));
    if a.is_zero() && b.is_zero() {
        rec.hit("zero-zero-panic");
        expect_panic(rec, P, "IBig::gcd", "gcd(0,0)", guard(|| (&ia).gcd(&ib)), case);
        expect_panic(rec, P, "IBig::gcd_ext", "gcd(0,0)", guard(|| (&ia).gcd_ext(&ib)), case);
        expect_panic(rec, P, "UBig::gcd", "gcd(0,0)", guard(|| UBig::ZERO.gcd(UBig::ZERO)), case);
        expect_panic(rec, P, "UBig::gcd_ext", "gcd(0,0)", guard(|| UBig::ZERO.gcd_ext(UBig::ZERO)), case);
        return;
    }
    let class = pair_class(a, b);
    let class = class.as_str();
    let g: BigUint = a.magnitude().gcd(b.magnitude());
    // base forms, judged by the oracle
    let base_g = guard(|| (&ia).gcd(&ib));
    rec.step();
    match &base_g {
        Ok(v) if &u_to_ref(v) == &g => {}
        Ok(v) => rec.fail(format!("{}|IBig::gcd|wrong-value|{}", P, class), case(), hexu(&u_to_ref(v)), hexu(&g)),
        Err(p) => rec.fail(format!("{}|IBig::gcd|panic|{};{}", P, class, panic_kind(p)), case(), format!("panic: {}", p), hexu(&g)),
    }
    let base_e = guard(|| (&ia).gcd_ext(&ib));
    judge_ext(rec, "IBig::gcd_ext", class, &base_e, a, b, &g, case);
    if all_forms {
        gcd_form(rec, "IBig::gcd(val,val)", class, guard(|| ia.clone().gcd(ib.clone())), &base_g, &g, case);
        gcd_form(rec, "IBig::gcd(ref,val)", class, guard(|| (&ia).gcd(ib.clone())), &base_g, &g, case);
        gcd_form(rec, "IBig::gcd(val,ref)", class, guard(|| ia.clone().gcd(&ib)), &base_g, &g, case);
        ext_form(rec, "IBig::gcd_ext(val,val)", class, guard(|| ia.clone().gcd_ext(ib.clone())), &base_e, a, b, &g, case);
        ext_form(rec, "IBig::gcd_ext(ref,val)", class, guard(|| (&ia).gcd_ext(ib.clone())), &base_e, a, b, &g, case);
        ext_form(rec, "IBig::gcd_ext(val,ref)", class, guard(|| ia.clone().gcd_ext(&ib)), &base_e, a, b, &g, case);
    }
    if nonneg(a) {
        let ua = ref_to_u(a.magnitude());
        if all_forms {
            gcd_form(rec, "UBig::gcd(IBig)", class, guard(|| (&ua).gcd(&ib)), &base_g, &g, case);
            gcd_form(rec, "IBig::gcd(UBig)", class, guard(|| (&ib).gcd(&ua)), &base_g, &g, case);
            ext_form(rec, "UBig::gcd_ext(IBig)", class, guard(|| (&ua).gcd_ext(&ib)), &base_e, a, b, &g, case);
            ext_form(rec, "IBig::gcd_ext(UBig)", class, guard(|| (&ib).gcd_ext(&ua)), &guard(|| (&ib).gcd_ext(&ia)), b, a, &g, case);
        }
        if nonneg(b) {
            let ub = ref_to_u(b.magnitude());
            gcd_form(rec, "UBig::gcd", class, guard(|| (&ua).gcd(&ub)), &base_g, &g, case);
            ext_form(rec, "UBig::gcd_ext", class, guard(|| (&ua).gcd_ext(&ub)), &base_e, a, b, &g, case);
            if all_forms {
                gcd_form(rec, "UBig::gcd(val,val)", class, guard(|| ua.clone().gcd(ub.clone())), &base_g, &g, case);
                gcd_form(rec, "UBig::gcd(ref,val)", class, guard(|| (&ua).gcd(ub.clone())), &base_g, &g, case);
                gcd_form(rec, "UBig::gcd(val,ref)", class, guard(|| ua.clone().gcd(&ub)), &base_g, &g, case);
                ext_form(rec, "UBig::gcd_ext(val,val)", class, guard(|| ua.clone().gcd_ext(ub.clone())), &base_e, a, b, &g, case);
                ext_form(rec, "UBig::gcd_ext(ref,val)", class, guard(|| (&ua).gcd_ext(ub.clone())), &base_e, a, b, &g, case);
                ext_form(rec, "UBig::gcd_ext(val,ref)", class, guard(|| ua.clone().gcd_ext(&ub)), &base_e, a, b, &g, case);
            }
        }
    }
    let (la, lb) = (word_len(a.magnitude()), word_len(b.magnitude()));
    rec.hit(match (la.min(lb), la.max(lb)) {
        (0..=2, 0..=2) => "small,small",
        (0..=1, _) => "large,word",
        (2, _) => "large,dword",
        _ => "large,large",
    });
    if a.is_zero() || b.is_zero() {
        rec.hit("one-zero");
    } else if a.magnitude() == b.magnitude() {
        rec.hit("equal-magnitudes");
    }
    rec.hit(if g.is_one() { "coprime" } else { "gcd>1" });
    if la.max(lb) >= 300 {
        rec.hit("dword-lehmer-guess(len>=300)");
    }
    if !(a.abs() <= BigInt::one() && b.abs() <= BigInt::one()) {
        rec.nontrivial();
    }
}

fn fib_pairs(max_words: usize) -> Vec<(BigUint, BigUint, usize)> {
    // consecutive Fibonacci numbers just below / above each multiple of 64 bits (long quotient-1 chains)
    let mut out = vec![];
    let (mut a, mut b) = (BigUint::one(), BigUint::from(2u32));
    let mut k = 3usize;
    while b.bits() <= 64 * max_words as u64 + 2 {
        let c = &a + &b;
        let (bb, cb) = (b.bits(), c.bits());
        if bb / 64 != cb / 64 || (cb % 64 == 1 && bb % 64 == 0) || k < 6 {
            out.push((b.clone(), a.clone(), k));
            out.push((c.clone(), b.clone(), k + 1));
        }
        a = b;
        b = c;
        k += 1;
    }
    out
}

fn sweeps_big_gcd(ctx: &mut Ctx) {
    let i3 = signed(&i3_mags());
    let n = i3.len() as u64;
    ctx.bound("I3_signed_values", n);
    let i3r = &i3;
    ctx.sweep("big.gcd.I3xI3", n * n, |i, rec| {
        let (a, b) = (&i3r[(i / n) as usize], &i3r[(i % n) as usize]);
        let small = a.magnitude().bits() <= 128 && b.magnitude().bits() <= 128;
        check_gcd_pair(rec, a, b, small || i % 8 == 0);
        rec.sample(|| format!("gcd/gcd_ext({}, {}) in all UBig/IBig/mixed forms", hex(a), hex(b)));
    });
    ctx.require_classes("big.gcd.I3xI3", &["zero-zero-panic", "one-zero", "equal-magnitudes", "coprime", "gcd>1", "small,small", "large,word", "large,dword", "large,large"]);

    // shape pairs times a common factor
    let lens: Vec<usize> = ctx.pick(vec![1, 2, 3, 4, 8, 40], vec![1, 2, 3, 4, 5, 8, 16, 40, 64, 150, 299, 300, 301, 400]);
    let pats: Vec<&'static str> = ctx.pick(vec!["ones", "top1", "topmax_low0", "sparse", "lcgA", "lcgSeed"], PATTERNS.to_vec());
    let sh = shapes(&lens, &pats, ctx.seed);
    let factors: Vec<BigUint> = vec![BigUint::one(), shape(3, "lcgB", ctx.seed) | BigUint::one(), pow2(70), shape(2, "ones", 0) * 12u32];
    let (ns, nf) = (sh.len() as u64, factors.len() as u64);
    ctx.bound("gcd_shape_lengths_words", serde_json::json!(lens));
    ctx.bound("gcd_shape_values", ns);
    let (shr, fr) = (&sh, &factors);
    ctx.sweep("big.gcd.shape", ns * ns * nf, |i, rec| {
        let [x, y, f] = unflatten(i, [ns, ns, nf]);
        let (a, b) = (BigInt::from(&shr[x].v * &fr[f]), BigInt::from(&shr[y].v * &fr[f]));
        check_gcd_pair(rec, &a, &b, false);
        if f == 0 && x % 3 == 0 {
            // sign handling on large operands
            check_gcd_pair(rec, &-a, &b, false);
        }
        rec.sample(|| format!("gcd/gcd_ext({}w:{} * f{}, {}w:{} * f{})", shr[x].len, shr[x].pat, f, shr[y].len, shr[y].pat, f));
    });
    ctx.require_classes("big.gcd.shape", &["gcd>1", "large,large", "large,word", "large,dword", "equal-magnitudes"]);

    // explicit special pairs
    let mut sp: Vec<(BigInt, BigInt, &'static str)> = vec![];
    for (a, b, _k) in fib_pairs(ctx.pick(41, 301)) {
        for sc in [0u64, 1, 64, 130] {
            sp.push((BigInt::from(&a << sc), BigInt::from(&b << sc), "fib"));
        }
        sp.push((BigInt::from(&a << 64u32), BigInt::from(b.clone()), "fib"));
    }
    let tz_vals: Vec<BigUint> = vec![BigUint::one(), BigUint::from(3u32), BigUint::from(u64::MAX), shape(2, "lcgA", 0), shape(2, "ones", 0), shape(3, "lcgB", 0), shape(3, "top1", 0), pow2(63), pow2(127) + 1u32];
    let tz_shifts: [u64; 7] = [0, 1, 2, 3, 5, 9, 40];
    for a in &tz_vals {
        for b in &tz_vals {
            for &i in &tz_shifts {
                for &j in &tz_shifts {
                    if i + j > 0 {
                        sp.push((BigInt::from(a << (64 * i)), BigInt::from(b << (64 * j)), "tz"));
                    }
                }
            }
        }
    }
    // Lehmer quotient overflow / guess failure: leading words far apart, or equal leading words
    for len in [3usize, 4, 8, 40] {
        for (pa, pb) in [("topmax_low0", "top1"), ("ones", "top1p1"), ("ones", "topmax_low0"), ("lcgA", "top1"), ("sparse", "top1")] {
            let (a, b) = (shape(len, pa, 0), shape(len, pb, 0));
            sp.push((BigInt::from(a.clone()), BigInt::from(b.clone()), "qover"));
            sp.push((BigInt::from(&a + 1u32), BigInt::from(a.clone()), "qover"));
            sp.push((BigInt::from(&a * &b), BigInt::from(b.clone() << 64u32), "qover"));
            sp.push((BigInt::from(&a * &b + 1u32), BigInt::from(b), "qover"));
        }
    }
    // >= 300 words: double-word guess
    let big_lens: Vec<usize> = ctx.pick(vec![299, 300, 301], vec![299, 300, 301, 302, 600]);
    let bigs = shapes(&big_lens, &["lcgA", "lcgB", "ones", "alt"], ctx.seed);
    for x in &bigs {
        for y in &bigs {
            sp.push((BigInt::from(x.v.clone()), BigInt::from(y.v.clone()), "dwguess"));
        }
        sp.push((BigInt::from(&x.v * 0xFFFF_FFFBu32), BigInt::from(shape(5, "lcgA", 0) * 0xFFFF_FFFBu32), "dwguess"));
    }
    // Euclidean remainder sequences with prescribed step shapes: from a gcd g and a quotient list
    // (q_k .. q_1) build (a, b) backwards, (a, b) <- (q*a + b, a); the division steps of the gcd
    // then see every combination of (divisor length, quotient length) from the alphabet - in
    // particular long divisors with long quotients in LATER steps, whose scratch space is not the
    // one of the initial operand lengths.
    let qlens: Vec<usize> = ctx.pick(vec![0, 1, 34, 70], vec![0, 1, 2, 33, 34, 70, 130, 200]);
    let glens: Vec<usize> = ctx.pick(vec![1, 3, 34, 70, 130], vec![1, 2, 3, 33, 34, 70, 130, 200, 310]);
    let mut seqs: Vec<Vec<usize>> = vec![];
    for &a in &qlens {
        seqs.push(vec![a]);
        for &b in &qlens {
            seqs.push(vec![a, b]);
            for &c in &qlens {
                seqs.push(vec![a, b, c]);
            }
        }
    }
    ctx.bound("gcd_quotient_shape_sequences", seqs.len() as u64);
    for (si, seq) in seqs.iter().enumerate() {
        for &gl in &glens {
            let g = shape(gl, if si % 2 == 0 { "lcgA" } else { "ones" }, ctx.seed);
            let (mut a, mut b) = (g.clone(), BigUint::zero());
            for (k, &ql) in seq.iter().enumerate() {
                // length 0 = the quotient 1 (+k), otherwise a ql-word number
                let q = if ql == 0 { BigUint::from(1u32 + k as u32) } else { shape(ql, ["lcgB", "top1p1", "ones"][(si + k) % 3], ctx.seed) };
                let na = &q * &a + &b;
                b = a;
                a = na;
            }
            if a.bits() <= 64 * 700 {
                sp.push((BigInt::from(a), BigInt::from(b), "quotient-shapes"));
            }
        }
    }
    let nsp = sp.len() as u64;
    ctx.bound("gcd_special_pairs", nsp);
    let spr = &sp;
    ctx.sweep("big.gcd.special", nsp, |i, rec| {
        let (a, b, tag) = &spr[i as usize];
        check_gcd_pair(rec, a, b, false);
        check_gcd_pair(rec, b, a, false);
        rec.hit(tag);
        rec.sample(|| format!("[{}] gcd/gcd_ext({}, {}) both orders", tag, hex(a), hex(b)));
    });
    ctx.require_classes("big.gcd.special", &["fib", "tz", "qover", "dwguess", "quotient-shapes", "dword-lehmer-guess(len>=300)", "coprime", "gcd>1"]);
}

// ---------------------------------------------------------------------------------------------
// big roots

fn root_class(x: &BigUint) -> String {
    if x.is_zero() {
        return "zero".into();
    }
    let w = word_len(x);
    format!("{}-words,{}", if w % 2 == 1 { "odd" } else { "even" }, size_class(w))
}

fn n_class(n: usize) -> &'static str {
    match n {
        0 => "n=0",
        1 => "n=1",
        2 => "n=2",
        3 => "n=3",
        4..=7 => "n=4-7",
        _ => "n>=64",
    }
}

/// `got` = (root, remainder if the operation returns one); `neg` = the radicand was -x
#[allow(clippy::too_many_arguments)]
fn judge_root(rec: &mut Rec, site: &str, class: &str, x: &BigUint, n: usize, neg: bool, got: Result<(BigInt, Option<BigUint>), String>, case: &dyn Fn() -> String) {
    rec.step();
    let want = || {
        let r = BigInt::from(x.nth_root(n as u32));
        if neg {
            -r
        } else {
            r
        }
    };
    match got {
        Ok((r, rem)) => {
            let sign_ok = r.is_zero() || (r.sign() == NSign::Minus) == neg;
            if !sign_ok || !is_floor_root(x, n as u32, r.magnitude()) {
                rec.fail(format!("{}|{}|wrong-value|{}", P, site, class), case(), format!("root {}", hex(&r)), format!("root {} (truncated toward zero)", hex(&want())));
            } else if let Some(e) = rem {
                let p: BigUint = Pow::pow(r.magnitude(), n as u32);
                if &p + &e != *x {
                    rec.fail(format!("{}|{}|wrong-remainder|{}", P, site, class), case(), format!("root {} remainder {}", hex(&r), hexu(&e)), format!("remainder {} (= x - root^{})", hexu(&(x - &p)), n));
                }
            }
        }
        Err(p) => rec.fail(format!("{}|{}|panic|{};{}", P, site, class, panic_kind(&p)), case(), format!("panic: {}", p), format!("root {}", hex(&want()))),
    }
}

/// all root operations that apply to the radicand x (and -x) for the given orders
fn check_roots(rec: &mut Rec, x: &BigUint, orders: &[usize], sqrt_ops: bool, cbrt_ops: bool, with_ibig: bool) {
    let ux = ref_to_u(x);
    let rc = root_class(x);
    let rc = rc.as_str();
    let case_s = |op: &str| format!("{}.{}", hexu(x), op);
    if sqrt_ops {
        judge_root(rec, "UBig::sqrt", rc, x, 2, false, guard(|| (BigInt::from(u_to_ref(&ux.sqrt())), None)), &|| case_s("sqrt()"));
        judge_root(rec, "UBig::sqrt_rem", rc, x, 2, false, guard(|| { let (s, r) = ux.sqrt_rem(); (BigInt::from(u_to_ref(&s)), Some(u_to_ref(&r))) }), &|| case_s("sqrt_rem()"));
    }
    if cbrt_ops {
        judge_root(rec, "UBig::cbrt", rc, x, 3, false, guard(|| (BigInt::from(u_to_ref(&ux.cbrt())), None)), &|| case_s("cbrt()"));
        judge_root(rec, "UBig::cbrt_rem", rc, x, 3, false, guard(|| { let (s, r) = ux.cbrt_rem(); (BigInt::from(u_to_ref(&s)), Some(u_to_ref(&r))) }), &|| case_s("cbrt_rem()"));
    }
    for &n in orders {
        let cls = if x.is_zero() { rc.to_string() } else { format!("{},{}", rc, n_class(n)) };
        if n == 0 {
            expect_panic(rec, P, "UBig::nth_root", "zeroth root", guard(|| ux.nth_root(0)), || case_s("nth_root(0)"));
            rec.hit("zeroth-root-panic");
        } else {
            judge_root(rec, "UBig::nth_root", &cls, x, n, false, guard(|| (BigInt::from(u_to_ref(&ux.nth_root(n))), None)), &|| case_s(&format!("nth_root({})", n)));
        }
    }
    if with_ibig {
        let ip = IBig::from(ux.clone());
        let case_p = |op: &str| format!("IBig({}).{}", hexu(x), op);
        if sqrt_ops {
            judge_root(rec, "IBig::sqrt", rc, x, 2, false, guard(|| (BigInt::from(u_to_ref(&ip.sqrt())), None)), &|| case_p("sqrt()"));
        }
        if cbrt_ops {
            judge_root(rec, "IBig::cbrt", rc, x, 3, false, guard(|| (i_to_ref(&ip.cbrt()), None)), &|| case_p("cbrt()"));
        }
        for &n in orders {
            if n == 0 {
                expect_panic(rec, P, "IBig::nth_root", "zeroth root", guard(|| ip.nth_root(0)), || case_p("nth_root(0)"));
            } else {
                judge_root(rec, "IBig::nth_root", &(if x.is_zero() { rc.to_string() } else { format!("{},{}", rc, n_class(n)) }), x, n, false, guard(|| (i_to_ref(&ip.nth_root(n)), None)), &|| case_p(&format!("nth_root({})", n)));
            }
        }
        if !x.is_zero() {
            let im = -ip;
            let case_m = |op: &str| format!("IBig(-{}).{}", hexu(x), op);
            let ncls = "negative".to_string();
            if sqrt_ops {
                expect_panic(rec, P, "IBig::sqrt", "even root of a negative", guard(|| im.sqrt()), || case_m("sqrt()"));
                rec.hit("negative-even-root-panic");
            }
            if cbrt_ops {
                judge_root(rec, "IBig::cbrt", &ncls, x, 3, true, guard(|| (i_to_ref(&im.cbrt()), None)), &|| case_m("cbrt()"));
            }
            for &n in orders {
                if n == 0 {
                    expect_panic(rec, P, "IBig::nth_root", "zeroth root", guard(|| im.nth_root(0)), || case_m("nth_root(0)"));
                } else if n % 2 == 0 {
                    expect_panic(rec, P, "IBig::nth_root", "even root of a negative", guard(|| im.nth_root(n)), || case_m(&format!("nth_root({})", n)));
                    rec.hit("negative-even-root-panic");
                } else {
                    judge_root(rec, "IBig::nth_root", &format!("{},{}", ncls, n_class(n)), x, n, true, guard(|| (i_to_ref(&im.nth_root(n)), None)), &|| case_m(&format!("nth_root({})", n)));
                    rec.hit("negative-odd-root");
                }
            }
        }
    }
    if x.is_zero() {
        rec.hit("zero-radicand");
    }
    if !x.is_zero() && !x.is_one() {
        rec.nontrivial();
    }
}

const ORDERS: [usize; 9] = [1, 2, 3, 4, 5, 7, 64, 65, 200];

fn sweeps_big_roots(ctx: &mut Ctx) {
    // closed: every I3 magnitude, every order, both signs
    let mags = i3_mags();
    let nm = mags.len() as u64;
    let mr = &mags;
    ctx.sweep("big.roots.I3", nm, |i, rec| {
        let x = &mr[i as usize];
        let mut orders = vec![0usize];
        orders.extend_from_slice(&ORDERS);
        // orders at the "bit length <= n" shortcut boundary
        let b = x.bits() as usize;
        orders.extend_from_slice(&[b.saturating_sub(1).max(1), b.max(1), b + 1]);
        check_roots(rec, x, &orders, true, true, true);
        rec.sample(|| format!("sqrt/sqrt_rem/cbrt/cbrt_rem/nth_root(0,1,2,3,4,5,7,64,65,200,bits-1,bits,bits+1) of {} and of its negative", hexu(x)));
    });
    ctx.require_classes("big.roots.I3", &["zero-radicand", "zeroth-root-panic", "negative-even-root-panic", "negative-odd-root"]);

    // constructed: x = r^n - 1, r^n, r^n + 1
    let quick = ctx.quick();
    let max_r_words = move |n: usize| -> usize {
        match n {
            0..=7 => if quick { 6 } else { 8 },
            8..=65 => if quick { 2 } else { 3 },
            _ => if quick { 1 } else { 2 },
        }
    };
    let rl: Vec<usize> = ctx.pick((1..=6).collect(), (1..=8).collect());
    let pats: Vec<&'static str> = ctx.pick(vec!["ones", "top1", "top1p1", "alt", "pow2m1_mid", "lcgA", "lcgSeed"], PATTERNS.to_vec());
    let rs = shapes(&rl, &pats, ctx.seed);
    let nr = rs.len() as u64;
    ctx.bound("root_orders", serde_json::json!(ORDERS));
    ctx.bound("constructed_root_max_words_by_order", serde_json::json!({"n<=7": max_r_words(7), "n=64,65": max_r_words(64), "n=200": max_r_words(200)}));
    let rsr = &rs;
    ctx.sweep("big.roots.constructed", nr * ORDERS.len() as u64 * 3, |i, rec| {
        let [ri, ni, d] = unflatten(i, [nr, ORDERS.len() as u64, 3]);
        let (r, n) = (&rsr[ri], ORDERS[ni]);
        if r.len > max_r_words(n) {
            rec.hit("pruned(root too long for this order)");
            return;
        }
        let p: BigUint = Pow::pow(&r.v, n as u32);
        let x = match d {
            0 => p - 1u32,
            1 => p,
            _ => p + 1u32,
        };
        check_roots(rec, &x, &[n], n == 2, n == 3, true);
        rec.hit(["perfect-power-minus-1", "perfect-power", "perfect-power-plus-1"][d]);
        rec.hit(n_class(n));
        rec.sample(|| format!("x = ({}w:{})^{} {:+}: nth_root({}) (+ sqrt/cbrt forms), UBig and IBig both signs", r.len, r.pat, n, d as i32 - 1, n));
    });
    ctx.require_classes("big.roots.constructed", &["perfect-power-minus-1", "perfect-power", "perfect-power-plus-1", "n=1", "n=2", "n=3", "n=4-7", "n>=64"]);

    // every radicand length (odd and even word counts) x pattern, and squares of every length
    let maxlen: usize = ctx.pick(40, 130);
    let mut lens: Vec<usize> = (1..=maxlen).collect();
    if !quick {
        lens.extend_from_slice(&[200, 257, 400]);
    }
    let dpats: Vec<&'static str> = PATTERNS.to_vec();
    let direct = shapes(&lens, &dpats, ctx.seed);
    let sq_lens: Vec<usize> = (1..=ctx.pick(20, 65)).collect();
    let sq_roots = shapes(&sq_lens, &pats, ctx.seed ^ 0x77);
    let (nd, nq) = (direct.len() as u64, sq_roots.len() as u64);
    ctx.bound("sqrt_radicand_lengths_words", serde_json::json!(format!("every length 1..={}{}", maxlen, if quick { "" } else { ", 200, 257, 400" })));
    let (dr, qr) = (&direct, &sq_roots);
    ctx.sweep("big.roots.lengths", nd + nq * 3, |i, rec| {
        if i < nd {
            let x = &dr[i as usize];
            let small = x.len <= 24;
            check_roots(rec, &x.v, if small { &[5] } else { &[] }, true, small, false);
            // top word with 0 / 1 / 2 / 63 leading zeros: the normalisation shift of sqrt_rem_large
            for sh in [1u32, 2, 63] {
                check_roots(rec, &(&x.v >> sh), &[], true, false, false);
            }
            rec.hit(if x.len % 2 == 1 { "odd-length" } else { "even-length" });
            rec.sample(|| format!("sqrt/sqrt_rem (cbrt, 5th root when <= 24 words) of {}w:{} and of it shifted right by 1, 2, 63 bits", x.len, x.pat));
        } else {
            let j = i - nd;
            let r = &qr[(j / 3) as usize];
            let p = &r.v * &r.v;
            let x = match j % 3 {
                0 => p - 1u32,
                1 => p,
                _ => p + 1u32,
            };
            check_roots(rec, &x, &[], true, false, false);
            rec.hit("square-neighbourhood");
            rec.sample(|| format!("sqrt/sqrt_rem of ({}w:{})^2 {:+}", r.len, r.pat, (j % 3) as i32 - 1));
        }
    });
    ctx.require_classes("big.roots.lengths", &["odd-length", "even-length", "square-neighbourhood"]);
}

// ---------------------------------------------------------------------------------------------
// ilog, remove

fn base_class(b: &BigUint) -> &'static str {
    if b.is_zero() {
        "base=word"
    } else if b.bits() <= 128 && b.trailing_zeros() == Some(b.bits() - 1) {
        "base=2^k"
    } else {
        match word_len(b) {
            0 | 1 => "base=word",
            2 => "base=dword",
            _ => "base=large",
        }
    }
}

fn check_ilog(rec: &mut Rec, x: &BigUint, b: &BigUint) {
    let (ux, ub) = (ref_to_u(x), ref_to_u(b));
    let case = || format!("{}.ilog({})", hexu(x), hexu(b));
    let bc = base_class(b);
    let same = |p: &Result<usize, String>, q: &Result<usize, String>| match (p, q) {
        (Ok(a), Ok(b)) => a == b,
        (Err(a), Err(b)) => panic_kind(a) == panic_kind(b),
        _ => false,
    };
    let base = guard(|| ux.ilog(&ub));
    let ip = IBig::from(ux.clone());
    let im = -ip.clone();
    if x.is_zero() || b.bits() < 2 {
        let what = if b.bits() < 2 { "log base 0 or 1" } else { "log of 0" };
        rec.hit(what);
        let got_i = guard(|| ip.ilog(&ub));
        if same(&got_i, &base) {
            rec.step();
        } else {
            expect_panic(rec, P, &format!("IBig::ilog[{}]", bc), what, got_i, case);
        }
        expect_panic(rec, P, &format!("UBig::ilog[{}]", bc), what, base, case);
        return;
    }
    let class = format!("{},x={}", bc, size_class(word_len(x)));
    let judge = |rec: &mut Rec, site: &str, neg: bool, got: &Result<usize, String>| {
        rec.step();
        match got {
            Ok(e) => {
                if !is_floor_log(x, b, *e) {
                    rec.fail(format!("{}|{}|wrong-value|{}", P, site, class), format!("{}{}", if neg { "-" } else { "" }, case()), e.to_string(), format!("{} (b^e <= |x| < b^(e+1))", floor_log(x, b)));
                }
            }
            Err(p) => rec.fail(format!("{}|{}|panic|{};{}", P, site, class, panic_kind(p)), format!("{}{}", if neg { "-" } else { "" }, case()), format!("panic: {}", p), floor_log(x, b).to_string()),
        }
    };
    judge(rec, "UBig::ilog", false, &base);
    for (neg, got) in [(false, guard(|| ip.ilog(&ub))), (true, guard(|| im.ilog(&ub)))] {
        if same(&got, &base) {
            rec.step();
            rec.hit("IBig-form-identical-to-UBig");
        } else {
            judge(rec, "IBig::ilog", neg, &got);
        }
    }
    rec.hit(bc);
    if x < b {
        rec.hit("x<base");
    }
    if !x.is_one() {
        rec.nontrivial();
    }
}

fn check_remove(rec: &mut Rec, x: &BigUint, f: &BigUint) {
    let case = || format!("{}.remove({})", hexu(x), hexu(f));
    let fc = base_class(f);
    let class = format!("{},x={}", fc.replace("base", "factor"), size_class(word_len(x)));
    let (mut ux, uf) = (ref_to_u(x), ref_to_u(f));
    let got = guard(|| {
        let r = ux.remove(&uf);
        (r, u_to_ref(&ux))
    });
    rec.step();
    // definition: the largest k with f^k | x, and x / f^k; None (x untouched) for x = 0, f = 0, f = 1
    let want: (Option<usize>, BigUint) = if x.is_zero() || f.bits() < 2 {
        (None, x.clone())
    } else {
        let (mut k, mut c) = (0usize, x.clone());
        loop {
            let (q, r) = c.div_rem(f);
            if !r.is_zero() {
                break;
            }
            c = q;
            k += 1;
        }
        (Some(k), c)
    };
    match got {
        Ok((k, c)) => {
            if k != want.0 {
                rec.fail(format!("{}|UBig::remove|wrong-value|{}", P, class), case(), format!("{:?}, left {}", k, hexu(&c)), format!("{:?}, left {}", want.0, hexu(&want.1)));
            } else if c != want.1 {
                rec.fail(format!("{}|UBig::remove|wrong-cofactor|{}", P, class), case(), format!("{:?}, left {}", k, hexu(&c)), format!("{:?}, left {}", want.0, hexu(&want.1)));
            }
        }
        Err(p) => rec.fail(format!("{}|UBig::remove|panic|{};{}", P, class, panic_kind(&p)), case(), format!("panic: {}", p), format!("{:?}", want.0)),
    }
    match want.0 {
        None => rec.hit("remove->None"),
        Some(0) => rec.hit("remove->Some(0)"),
        Some(1..=3) => rec.hit("remove->Some(1..3)"),
        Some(_) => rec.hit("remove->Some(>=4)"),
    }
    rec.hit(fc);
    if x.bits() > 1 {
        rec.nontrivial();
    }
}

fn log_bases(seed: u64) -> Vec<BigUint> {
    let mut v: Vec<BigUint> = [0u64, 1, 2, 3, 4, 5, 7, 10, 16, 36, 255, 256, 1000, 0xFFFF_FFFF, 0x1_0000_0000, 0x1_0000_0001, 1 << 63, 10_000_000_000_000_000_000, u64::MAX - 1, u64::MAX].iter().map(|&x| BigUint::from(x)).collect();
    v.push(pow2(64));
    v.push(pow2(64) + 1u32);
    v.push(pow2(64) * 10u32);
    v.push(pow2(127));
    v.push(pow2(128) - 1u32);
    v.push(pow2(128));
    v.push(pow2(128) + 1u32);
    v.push(pow2(130));
    v.push(shape(3, "lcgA", seed));
    v.push(shape(3, "ones", 0));
    v.push(shape(5, "lcgB", seed));
    v
}

fn sweeps_big_ilog_remove(ctx: &mut Ctx) {
    let bases = log_bases(ctx.seed);
    let mags = i3_mags();
    let (nb, nm) = (bases.len() as u64, mags.len() as u64);
    ctx.bound("ilog_bases", nb);
    let (br, mr) = (&bases, &mags);
    ctx.sweep("big.ilog.I3xbases", nm * nb, |i, rec| {
        let (x, b) = (&mr[(i / nb) as usize], &br[(i % nb) as usize]);
        check_ilog(rec, x, b);
        rec.sample(|| format!("{}.ilog({}) as UBig, IBig, -IBig", hexu(x), hexu(b)));
    });
    ctx.require_classes("big.ilog.I3xbases", &["log of 0", "log base 0 or 1", "base=2^k", "base=word", "base=dword", "base=large", "x<base"]);

    // b^e - 1, b^e, b^e + 1
    let cap_bits: u64 = ctx.pick(64 * 70, 64 * 300);
    let emax: usize = ctx.pick(140, 400);
    ctx.bound("ilog_power_bits_cap", cap_bits);
    ctx.bound("ilog_max_exponent", emax as u64);
    let mut grid: Vec<(usize, usize)> = vec![];
    for (bi, b) in bases.iter().enumerate() {
        if b.bits() < 2 {
            continue;
        }
        let mut e = 0usize;
        while e <= emax && (b.bits() - 1) * e as u64 <= cap_bits {
            grid.push((bi, e));
            e += 1;
        }
    }
    let ng = grid.len() as u64;
    let gr = &grid;
    ctx.sweep("big.ilog.powers", ng, |i, rec| {
        let (bi, e) = gr[i as usize];
        let b = &br[bi];
        let p: BigUint = Pow::pow(b, e as u32);
        for x in [&p - 1u32, p.clone(), &p + 1u32, &p * b - 1u32, (&p * b) >> 1] {
            check_ilog(rec, &x, b);
        }
        rec.hit(if e >= 20 { "exponent>=20" } else { "exponent<20" });
        rec.sample(|| format!("ilog base {} of b^{}-1, b^{}, b^{}+1, b^{}-1, b^{}/2", hexu(b), e, e, e, e + 1, e + 1));
    });
    ctx.require_classes("big.ilog.powers", &["exponent>=20", "exponent<20", "base=2^k", "base=word", "base=dword", "base=large", "log of 0"]);

    // remove: x = f^k * c
    let factors: Vec<BigUint> = {
        let mut v: Vec<BigUint> = [0u64, 1, 2, 3, 4, 6, 10, 12, 255, 1 << 32, u64::MAX].iter().map(|&x| BigUint::from(x)).collect();
        v.push(pow2(64));
        v.push(pow2(64) + 1u32);
        v.push(pow2(70) * 3u32);
        v.push(pow2(130));
        v.push(shape(3, "lcgA", ctx.seed) | BigUint::one());
        v.push(shape(3, "top1", 0) * 6u32);
        v
    };
    let ks: Vec<usize> = vec![0, 1, 2, 3, 4, 5, 6, 7, 8, 9, 14, 15, 16, 17, 30, 31, 32, 33, 63, 64, 65, 100];
    let cof: Vec<BigUint> = vec![BigUint::zero(), BigUint::one(), BigUint::from(5u32), BigUint::from(7u32 * 9 * 4), BigUint::from(u64::MAX - 58), pow2(64) + 13u32, shape(3, "lcgB", ctx.seed), shape(4, "ones", 0), pow2(200)];
    let rcap: u64 = ctx.pick(64 * 80, 64 * 400);
    ctx.bound("remove_power_bits_cap", rcap);
    let (nf, nk, nc) = (factors.len() as u64, ks.len() as u64, cof.len() as u64);
    let (fr, kr, cr) = (&factors, &ks, &cof);
    ctx.sweep("big.remove", nf * nk * nc, |i, rec| {
        let [fi, ki, ci] = unflatten(i, [nf, nk, nc]);
        let (f, k, c) = (&fr[fi], kr[ki], &cr[ci]);
        if f.bits() * k as u64 > rcap {
            rec.hit("pruned(power too large)");
            return;
        }
        let x: BigUint = Pow::pow(f, k as u32) * c;
        check_remove(rec, &x, f);
        rec.sample(|| format!("({}^{} * {}).remove({})", hexu(f), k, hexu(c), hexu(f)));
    });
    ctx.require_classes("big.remove", &["remove->None", "remove->Some(0)", "remove->Some(1..3)", "remove->Some(>=4)", "base=2^k", "base=word", "base=dword", "base=large"]);
}

// ---------------------------------------------------------------------------------------------
// log2_bounds of UBig / IBig / FBig / RBig

fn same_bounds(a: &Result<(f32, f32), String>, b: &Result<(f32, f32), String>) -> bool {
    match (a, b) {
        (Ok(x), Ok(y)) => x.0.to_bits() == y.0.to_bits() && x.1.to_bits() == y.1.to_bits(),
        (Err(x), Err(y)) => panic_kind(x) == panic_kind(y),
        _ => false,
    }
}

fn int_log2(rec: &mut Rec, tl: &mut Tl, x: &BigUint) {
    let ux = ref_to_u(x);
    let ip = IBig::from(ux.clone());
    let im = -ip.clone();
    let case = || format!("{}.log2_bounds()", hexu(x));
    let base = guard(|| ux.log2_bounds());
    if x.is_zero() {
        judge_log2_zero(rec, tl, "UBig::log2_bounds", base, &case);
        judge_log2_zero(rec, tl, "IBig::log2_bounds", guard(|| ip.log2_bounds()), &case);
        return;
    }
    let pow2 = x.trailing_zeros() == Some(x.bits() - 1);
    let class = format!("{}{}", size_class(word_len(x)), if pow2 { ",pow2" } else { "" });
    let l64 = log2_f64_big(x);
    for (site, got) in [("IBig::log2_bounds", guard(|| ip.log2_bounds())), ("IBig::log2_bounds", guard(|| im.log2_bounds()))] {
        if same_bounds(&got, &base) {
            rec.step();
            rec.hit("IBig-form-identical-to-UBig");
        } else {
            judge_log2(rec, tl, site, &class, got, l64, 0.0, || log2_iv_u(x), &case);
        }
    }
    let b = judge_log2(rec, tl, "UBig::log2_bounds", &class, base, l64, 0.0, || log2_iv_u(x), &case);
    judge_est(rec, tl, "UBig::log2_est", &class, guard(|| ux.log2_est()), b, &case);
    judge_est(rec, tl, "IBig::log2_est", &class, guard(|| im.log2_est()), b, &case);
    rec.hit(if word_len(x) <= 2 { "inline(<=2 words)" } else { "heap(>=3 words)" });
    if !x.is_one() {
        rec.nontrivial();
    }
}

fn float_log2<const B: dashu_int::Word>(rec: &mut Rec, tl: &mut Tl, s: &BigInt, e: isize) {
    use dashu_float::{round::mode::Zero as RZero, FBig, Repr};
    let case = || format!("Repr::<{}>::new({}, {}).log2_bounds()", B, hex(s), e);
    let site = format!("Repr<{}>::log2_bounds", B);
    let fsite = format!("FBig<{}>::log2_bounds", B);
    let repr = match guard(|| Repr::<B>::new(ref_to_i(s), e)) {
        Ok(r) => r,
        Err(p) => {
            rec.fail(format!("{}|Repr<{}>::new|panic|{}", P, B, panic_kind(&p)), case(), p, "a float");
            return;
        }
    };
    let base = guard(|| repr.log2_bounds());
    let fb = guard(|| FBig::<RZero, B>::from_parts(ref_to_i(s), e));
    if s.is_zero() {
        judge_log2_zero(rec, tl, &site, base, &case);
        return;
    }
    let m = s.magnitude();
    let lb64 = (B as f64).log2();
    let (ls, le) = (log2_f64_big(m), e as f64 * lb64);
    let l64 = ls + le;
    let class = format!("{},{}", if e < 0 { "e<0" } else if e == 0 { "e=0" } else { "e>0" }, if l64.abs() < 4.0 { "abs(log2)<4" } else { "abs(log2)>=4" });
    let iv = || log2_iv_float(m, B as u64, e as i128);
    if let Ok(f) = &fb {
        let got = guard(|| f.log2_bounds());
        if same_bounds(&got, &base) {
            rec.step();
            rec.hit("FBig-form-identical-to-Repr");
        } else {
            judge_log2(rec, tl, &fsite, &class, got, l64, ls.abs().max(le.abs()), iv, &case);
        }
    }
    let b = judge_log2(rec, tl, &site, &class, base, l64, ls.abs().max(le.abs()), iv, &case);
    judge_est(rec, tl, &format!("Repr<{}>::log2_est", B), &class, guard(|| repr.log2_est()), b, &case);
    rec.hit(if e < 0 { "exponent<0" } else { "exponent>=0" });
    if l64.abs() < 4.0 {
        rec.hit("value-near-1(cancellation)");
    }
    rec.nontrivial();
}

fn ratio_log2(rec: &mut Rec, tl: &mut Tl, n: &BigInt, d: &BigUint) {
    use dashu_ratio::{RBig, Relaxed};
    let case = || format!("({} / {}).log2_bounds()", hex(n), hexu(d));
    let r = guard(|| RBig::from_parts(ref_to_i(n), ref_to_u(d)));
    let x = guard(|| Relaxed::from_parts(ref_to_i(n), ref_to_u(d)));
    let (r, x) = match (r, x) {
        (Ok(r), Ok(x)) => (r, x),
        (Err(p), _) | (_, Err(p)) => {
            rec.fail(format!("{}|RBig::from_parts|panic|{}", P, panic_kind(&p)), case(), p, "a rational");
            return;
        }
    };
    if n.is_zero() {
        judge_log2_zero(rec, tl, "RBig::log2_bounds", guard(|| r.log2_bounds()), &case);
        judge_log2_zero(rec, tl, "Relaxed::log2_bounds", guard(|| x.log2_bounds()), &case);
        return;
    }
    let (ln, ld) = (log2_f64_big(n.magnitude()), log2_f64_big(d));
    let l64 = ln - ld;
    let class = if l64.abs() < 1.0 { "abs(log2)<1" } else { "abs(log2)>=1" };
    let iv = || log2_iv_q(n.magnitude(), d);
    let scale = ln.abs().max(ld.abs());
    let got_r = guard(|| r.log2_bounds());
    let got_x = guard(|| x.log2_bounds());
    let identical = same_bounds(&got_r, &got_x);
    let br = judge_log2(rec, tl, "RBig::log2_bounds", class, got_r, l64, scale, iv, &case);
    let bx = if identical {
        rec.step();
        rec.hit("Relaxed-identical-to-RBig");
        br
    } else {
        rec.hit("Relaxed-differs-from-RBig(unreduced parts)");
        judge_log2(rec, tl, "Relaxed::log2_bounds", class, got_x, l64, scale, iv, &case)
    };
    judge_est(rec, tl, "RBig::log2_est", class, guard(|| r.log2_est()), br, &case);
    judge_est(rec, tl, "Relaxed::log2_est", class, guard(|| x.log2_est()), bx, &case);
    if l64.abs() < 1.0 {
        rec.hit("value-near-1(cancellation)");
    }
    rec.hit(if n.sign() == NSign::Minus { "negative" } else { "positive" });
    rec.nontrivial();
}

fn sweeps_big_log2(ctx: &mut Ctx) {
    // integers
    let mut ints: Vec<BigUint> = i3_mags();
    let mut ks: Vec<u64> = (0..=260).collect();
    ks.extend_from_slice(&[1000, 4096, 65536, 1 << 20]);
    if !ctx.quick() {
        ks.push((1 << 24) + 1);
    }
    for &k in &ks {
        ints.push(pow2(k));
        ints.push(pow2(k) + 1u32);
        if k >= 2 {
            ints.push(pow2(k) - 1u32);
        }
    }
    for sh in shapes(&[1, 2, 3, 4, 5, 8, 40, 300], &PATTERNS, ctx.seed) {
        ints.push(sh.v);
    }
    let ni = ints.len() as u64;
    ctx.bound("log2_integer_values", ni);
    let ir = &ints;
    ctx.sweep("big.log2.int", ni, |i, rec| {
        let tl = &mut Tl::default();
        int_log2(rec, tl, &ir[i as usize]);
        tl.flush(rec);
        rec.sample(|| format!("log2_bounds/log2_est of {} as UBig, IBig, -IBig", hexu(&ir[i as usize])));
    });
    ctx.require_classes("big.log2.int", &["inline(<=2 words)", "heap(>=3 words)", "zero->-inf", "bounds-coincide(exact)", "decided-by-f64", "decided-by-enclosure"]);
    no_undecided(ctx, "big.log2.int");

    // floats: closed small universes per base + shaped significands with large exponents
    let (s2, e2, s10, e10, s3, e3) = if ctx.quick() { (63i64, 40isize, 300i64, 12isize, 80i64, 8isize) } else { (255, 70, 2000, 25, 243, 20) };
    ctx.bound("float_universe", serde_json::json!({"base2": [s2, e2], "base10": [s10, e10], "base3,16": [s3, e3]}));
    let n2 = (2 * s2 + 1) as u64 * (2 * e2 + 1) as u64;
    let n10 = (2 * s10 + 1) as u64 * (2 * e10 + 1) as u64;
    let n3 = (2 * s3 + 1) as u64 * (2 * e3 + 1) as u64;
    let bigs: Vec<BigUint> = shapes(&[1, 2, 3, 5], &["ones", "top1", "top1p1", "alt", "lcgA", "lcgSeed"], ctx.seed).into_iter().map(|s| s.v).collect();
    let bexp: [isize; 15] = [-(1 << 40), -1_000_000, -1000, -200, -65, -20, -1, 0, 1, 19, 64, 200, 1000, 1_000_000, 1 << 40];
    let nbg = bigs.len() as u64 * bexp.len() as u64 * 2;
    let bgr = &bigs;
    ctx.sweep("big.log2.float", n2 + n10 + 2 * n3 + 4 * nbg, |i, rec| {
        let tl = &mut Tl::default();
        let small = |j: u64, smax: i64, emax: isize| -> (BigInt, isize) {
            let ne = (2 * emax + 1) as u64;
            (BigInt::from((j / ne) as i64 - smax), (j % ne) as isize - emax)
        };
        if i < n2 {
            let (s, e) = small(i, s2, e2);
            float_log2::<2>(rec, tl, &s, e);
        } else if i < n2 + n10 {
            let (s, e) = small(i - n2, s10, e10);
            float_log2::<10>(rec, tl, &s, e);
        } else if i < n2 + n10 + n3 {
            let (s, e) = small(i - n2 - n10, s3, e3);
            float_log2::<3>(rec, tl, &s, e);
        } else if i < n2 + n10 + 2 * n3 {
            let (s, e) = small(i - n2 - n10 - n3, s3, e3);
            float_log2::<16>(rec, tl, &s, e);
        } else {
            let j = i - n2 - n10 - 2 * n3;
            let (base, j) = (j / nbg, j % nbg);
            let [si, ei, sg] = unflatten(j, [bgr.len() as u64, bexp.len() as u64, 2]);
            let s = if sg == 0 { BigInt::from(bgr[si].clone()) } else { -BigInt::from(bgr[si].clone()) };
            match base {
                0 => float_log2::<2>(rec, tl, &s, bexp[ei]),
                1 => float_log2::<10>(rec, tl, &s, bexp[ei]),
                2 => float_log2::<3>(rec, tl, &s, bexp[ei]),
                _ => float_log2::<16>(rec, tl, &s, bexp[ei]),
            }
            rec.hit("multiword-significand");
        }
        tl.flush(rec);
        rec.sample(|| format!("float log2_bounds case #{}", i));
    });
    ctx.require_classes("big.log2.float", &["exponent<0", "exponent>=0", "value-near-1(cancellation)", "multiword-significand", "zero->-inf", "decided-by-f64"]);
    no_undecided(ctx, "big.log2.float");

    // rationals
    let (nn, dd): (i64, u64) = ctx.pick((300, 100), (1000, 300));
    ctx.bound("rational_universe", serde_json::json!({"|n|<=": nn, "d<=": dd}));
    let nq = (2 * nn + 1) as u64 * dd;
    // simplest first, so that the first counterexample is the smallest
    let mut parts: Vec<BigUint> = [3u32, 5, 7, 10, 255, 1000].iter().map(|&x| BigUint::from(x)).collect();
    for k in [1u64, 23, 24, 25, 63, 64, 65, 127, 128, 129, 200] {
        parts.extend_from_slice(&[pow2(k), pow2(k) + 1u32, pow2(k) - 1u32]);
    }
    parts.extend(shapes(&[1, 2, 3, 5, 40], &["ones", "top1", "top1p1", "alt", "lcgA", "lcgSeed"], ctx.seed).into_iter().map(|s| s.v));
    let np = parts.len() as u64;
    let pr = &parts;
    ctx.sweep("big.log2.ratio", nq + np * np, |i, rec| {
        let tl = &mut Tl::default();
        if i < nq {
            let (n, d) = ((i / dd) as i64 - nn, i % dd + 1);
            ratio_log2(rec, tl, &BigInt::from(n), &BigUint::from(d));
        } else {
            let j = i - nq;
            let (n, d) = (&pr[(j / np) as usize], &pr[(j % np) as usize]);
            let n = if j % 5 == 0 { -BigInt::from(n.clone()) } else { BigInt::from(n.clone()) };
            ratio_log2(rec, tl, &n, d);
            rec.hit("large-parts");
        }
        tl.flush(rec);
        rec.sample(|| format!("rational log2_bounds case #{}", i));
    });
    ctx.require_classes("big.log2.ratio", &["negative", "positive", "value-near-1(cancellation)", "large-parts", "zero->-inf", "decided-by-f64"]);
    no_undecided(ctx, "big.log2.ratio");
}


pub fn run(ctx: &mut Ctx) {
    ctx.rule = "primitives: sqrt/cbrt/sqrt_rem/cbrt_rem on every u8 and u16 (also zero-extended to u32/u64/u128), on r^2-1,r^2,r^2+1 (r^3..) for every root r below the stated bounds in u32/u64 and derived u128 radicands, on value grids (2^k, 2^k+-1, MAX.., Fibonacci, LCG), and on every u32 (thorough); gcd/gcd_ext on all u8 pairs in every unsigned type, boundary grid x all u16, pattern grids squared for u32/u64/usize/u128; log2_bounds/log2_est on every u8/u16/i8/i16, on f32 bit patterns (all in thorough, low-mantissa-byte in {00,FF} grid plus all |bits| < 2^16 in quick), and on u32..u128/i32..i128/usize/f64 grids. big: gcd/gcd_ext in all UBig/IBig/mixed and ownership forms on signed I3 x I3 and on shape pairs x common factors, Fibonacci neighbours, operands with trailing zero words, >=300-word operands (double-word Lehmer guess), and operands built backwards from a gcd and every sequence of <= 3 quotient lengths from {1-bit, 1, 34, 70 words} (thorough: 8 lengths up to 200 words) so that every (divisor length, quotient length) combination occurs in every position of the remainder sequence; sqrt/sqrt_rem/cbrt/cbrt_rem/nth_root on all I3 magnitudes, on r^n-1,r^n,r^n+1 for shaped r and n in {1,2,3,4,5,7,64,65,200}, on every radicand length 1..L words x patterns, IBig negatives, zero radicand, zeroth root; ilog on I3 x bases and on b^e-1,b^e,b^e+1; remove on f^k*c; log2_bounds of UBig/IBig/FBig(bases 2,10,3,16)/RBig/Relaxed on closed small universes and shaped large operands. non-trivial = operand magnitude > 1".into();
    ctx.assume("num_bigint multiplication/comparison/pow and num_integer gcd are correct (cross-checked against u128 Euclid / checked u128 powers at start)");
    ctx.assume("f64 log2 of the platform libm is accurate to 2^-40 relative to max(1,|log2 x|); it only decides cases whose margin exceeds that, everything closer is decided by the BigInt enclosure (h12::log2_iv_u, self-checked at start against 96-bit constants from mpmath and against f64 log2 on 1..=2048 and on 2^k, 2^k+-1, 3*2^k+1 up to k = 5000)");
    ctx.assume("log2_bounds on NaN, and whether log2_bounds(0) returns (-inf,-inf) or panics, is not specified consistently by the docs: counted as unspecified, not judged; precision of the bounds is not judged (docs: 'not guaranteed')");
    ctx.assume("this run covers the build configuration named in build_config; the table-driven no_std estimator is only reached when dv is built with --no-default-features");
    if !self_check(ctx) {
        return;
    }
    sweeps_prim_roots(ctx);
    sweeps_prim_gcd(ctx);
    sweeps_prim_log2(ctx);
    sweeps_big_gcd(ctx);
    sweeps_big_roots(ctx);
    sweeps_big_ilog_remove(ctx);
    sweeps_big_log2(ctx);
}
