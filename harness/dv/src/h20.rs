//! Helpers of C20: the independent reference parsers of the literal grammars, the reader of the
//! token text emitted by the three code generators of `dashu-macros`, and the orchestration of the
//! generated crates (cargo build, rustc JSON diagnostics, running the generated programs).

use crate::fref::Rat;
use num_bigint::{BigInt, BigUint};
use num_traits::{One, Zero};
use serde_json::Value;
use std::collections::{BTreeMap, BTreeSet};
use std::io::Write;
use std::process::{Command, Stdio};

// ---------------------------------------------------------------------------------------------
// values

/// A number as produced by a macro, by the run-time parser or by the reference parser.
#[derive(Clone, Debug, PartialEq, Eq)]
pub enum Val {
    Int(BigInt),
    /// sig * base^exp with context precision `prec` (0 = unlimited)
    Float { sig: BigInt, exp: i64, base: u32, prec: u64 },
    /// n/d exactly as stored (d >= 0)
    Ratio { n: BigInt, d: BigInt },
}

impl Val {
    /// the exact value (None for a zero denominator)
    pub fn rat(&self) -> Option<Rat> {
        match self {
            Val::Int(i) => Some(Rat::int(i.clone())),
            Val::Float { sig, exp, base, .. } => {
                if exp.unsigned_abs() > 4096 {
                    // never materialise base^(huge); such values are compared structurally
                    None
                } else {
                    Some(Rat::scaled(sig, *base, *exp))
                }
            }
            Val::Ratio { n, d } => {
                if d.is_zero() {
                    None
                } else {
                    Some(Rat::new(n.clone(), d.clone()))
                }
            }
        }
    }
    pub fn show(&self) -> String {
        let h = |x: &BigInt| crate::uni::hex(x);
        match self {
            Val::Int(i) => h(i),
            Val::Float { sig, exp, base, prec } => format!("{} * {}^{} @ precision {}", h(sig), base, exp, prec),
            Val::Ratio { n, d } => format!("{} / {}", h(n), h(d)),
        }
    }
}

/// same exact value?  (floats with huge exponents: same normalised representation)
pub fn same_value(a: &Val, b: &Val) -> bool {
    match (a.rat(), b.rat()) {
        (Some(x), Some(y)) => x == y,
        _ => match (a, b) {
            (Val::Float { sig: s1, exp: e1, base: b1, .. }, Val::Float { sig: s2, exp: e2, base: b2, .. }) => b1 == b2 && norm_float(s1, *e1, *b1) == norm_float(s2, *e2, *b2),
            _ => false,
        },
    }
}

pub fn norm_float(sig: &BigInt, exp: i64, base: u32) -> (BigInt, i64) {
    if sig.is_zero() {
        return (BigInt::zero(), 0);
    }
    let b = BigInt::from(base);
    let (mut s, mut e) = (sig.clone(), exp);
    while (&s % &b).is_zero() {
        s /= &b;
        e += 1;
    }
    (s, e)
}

// ---------------------------------------------------------------------------------------------
// reference parsers (written from the documentation of the macros and of the run-time parsers)

/// digits of `radix` with `_` separators; at least one digit; letters in either case
pub fn ref_digits(s: &str, radix: u32) -> Option<BigUint> {
    if !(2..=36).contains(&radix) {
        return None;
    }
    let mut clean = Vec::with_capacity(s.len());
    for c in s.bytes() {
        if c == b'_' {
            continue;
        }
        let d = match c {
            b'0'..=b'9' => (c - b'0') as u32,
            b'a'..=b'z' => (c - b'a') as u32 + 10,
            b'A'..=b'Z' => (c - b'A') as u32 + 10,
            _ => return None,
        };
        if d >= radix {
            return None;
        }
        clean.push(c);
    }
    if clean.is_empty() {
        return None;
    }
    BigUint::parse_bytes(&clean, radix)
}

/// trivially auditable second implementation (Horner on u128) for the self-check
pub fn horner_u128(s: &str, radix: u32) -> Option<u128> {
    let mut acc: u128 = 0;
    let mut any = false;
    for c in s.chars() {
        if c == '_' {
            continue;
        }
        let d = c.to_digit(36)?;
        if d >= radix {
            return None;
        }
        acc = acc.checked_mul(radix as u128)?.checked_add(d as u128)?;
        any = true;
    }
    if any {
        Some(acc)
    } else {
        None
    }
}

fn split_sign(s: &str) -> (bool, &str) {
    if let Some(r) = s.strip_prefix('-') {
        (true, r)
    } else if let Some(r) = s.strip_prefix('+') {
        (false, r)
    } else {
        (false, s)
    }
}

fn split_prefix(s: &str) -> (u32, &str, bool) {
    if let Some(r) = s.strip_prefix("0b") {
        (2, r, true)
    } else if let Some(r) = s.strip_prefix("0o") {
        (8, r, true)
    } else if let Some(r) = s.strip_prefix("0x") {
        (16, r, true)
    } else {
        (10, s, false)
    }
}

/// integer literal: sign? (prefix digits | digits) resp. sign? digits-of-radix
pub fn ref_int(text: &str, radix: Option<u32>, signed: bool) -> Option<BigInt> {
    let (neg, body) = split_sign(text);
    if !signed && body.len() != text.len() && text.starts_with('-') {
        return None;
    }
    let mag = match radix {
        Some(r) => ref_digits(body, r)?,
        None => {
            let (r, digits, _) = split_prefix(body);
            ref_digits(digits, r)?
        }
    };
    let v = BigInt::from(mag);
    Some(if neg { -v } else { v })
}

/// rational literal: int ('/' int)? with the radix rules of `from_str_with_radix_prefix`
/// returns the unreduced (numerator, denominator) with the sign moved to the numerator
pub fn ref_ratio(text: &str, radix: Option<u32>) -> Option<(BigInt, BigInt)> {
    let (ns, ds) = match text.find('/') {
        Some(p) => (&text[..p], Some(&text[p + 1..])),
        None => (text, None),
    };
    let (nneg, nbody) = split_sign(ns);
    let (num, nradix) = match radix {
        Some(r) => (ref_digits(nbody, r)?, r),
        None => {
            let (r, digits, _) = split_prefix(nbody);
            (ref_digits(digits, r)?, r)
        }
    };
    let (dneg, den) = match ds {
        None => (false, BigUint::one()),
        Some(ds) => {
            let (dneg, dbody) = split_sign(ds);
            let den = match radix {
                Some(r) => ref_digits(dbody, r)?,
                None => {
                    let (r, digits, has) = split_prefix(dbody);
                    if has {
                        if r != nradix {
                            return None;
                        }
                        ref_digits(digits, r)?
                    } else {
                        ref_digits(dbody, nradix)?
                    }
                }
            };
            (dneg, den)
        }
    };
    let n = BigInt::from(num);
    Some((if nneg != dneg { -n } else { n }, BigInt::from(den)))
}

/// float literal of `FBig<_, 2>` (base = 2) or `DBig` (base = 10) as documented at
/// `FBig::from_str_native`: returns (signed significand, exponent, digits written)
pub fn ref_float(text: &str, base: u32) -> Option<(BigInt, i64, u64)> {
    let (neg, body) = split_sign(text);
    let hex = base == 2 && body.starts_with("0x");
    let body = if hex { &body[2..] } else { body };
    let markers: &[char] = match (base, hex) {
        (10, _) => &['e', 'E', '@'],
        (2, true) => &['p', 'P'],
        (2, false) => &['b', 'B', '@'],
        _ => return None,
    };
    let (mant, scale) = match body.rfind(markers) {
        Some(p) => {
            let e = &body[p + 1..];
            let (eneg, ed) = split_sign(e);
            if ed.is_empty() || ed.len() > 19 || !ed.bytes().all(|c| c.is_ascii_digit()) {
                return None;
            }
            let v: i64 = ed.parse().ok()?;
            (&body[..p], if eneg { -v } else { v })
        }
        None => (body, 0),
    };
    let (ip, fp) = match mant.find('.') {
        Some(p) => (&mant[..p], &mant[p + 1..]),
        None => (mant, ""),
    };
    if fp.contains('.') {
        return None;
    }
    let dradix = if hex { 16 } else { base };
    let count = |s: &str| s.bytes().filter(|&c| c != b'_').count() as u64;
    let part = |s: &str| -> Option<BigUint> {
        if s.is_empty() {
            Some(BigUint::zero())
        } else {
            ref_digits(s, dradix)
        }
    };
    if ip.is_empty() && fp.is_empty() {
        return None;
    }
    let (iv, fv) = (part(ip)?, part(fp)?);
    let (ni, nf) = (count(ip), count(fp));
    let per = if hex { 4 } else { 1 };
    let sig = iv * num_traits::Pow::pow(BigUint::from(dradix), nf) + fv;
    let exp = scale - (nf * per) as i64;
    let sig = BigInt::from(sig);
    Some((if neg { -sig } else { sig }, exp, (ni + nf) * per))
}

// ---------------------------------------------------------------------------------------------
// reader of the emitted token text

pub fn toks(s: &str) -> Vec<String> {
    let mut out = vec![];
    let b = s.as_bytes();
    let mut i = 0;
    while i < b.len() {
        let c = b[i];
        if c.is_ascii_whitespace() {
            i += 1;
        } else if c.is_ascii_alphanumeric() || c == b'_' {
            let j = (i..b.len()).find(|&j| !(b[j].is_ascii_alphanumeric() || b[j] == b'_')).unwrap_or(b.len());
            out.push(s[i..j].to_string());
            i = j;
        } else {
            out.push((c as char).to_string());
            i += 1;
        }
    }
    out
}

#[derive(Clone, Copy, Debug, PartialEq, Eq)]
pub enum Path {
    /// const constructor fed with a u32
    Const,
    /// `from_le_bytes` of a const byte array
    Heap,
    /// static word arrays (`from_static_words`)
    Static,
    /// const constructor inside a `static` item (small static floats)
    StaticConst,
    /// code shape not understood by the reader (only the compiled layer judges it)
    Unknown,
}
impl Path {
    pub fn name(self) -> &'static str {
        match self {
            Path::Const => "const",
            Path::Heap => "heap",
            Path::Static => "static-words",
            Path::StaticConst => "static-const",
            Path::Unknown => "unknown-shape",
        }
    }
}

/// what the emitted code denotes, before the constructors run
#[derive(Clone, Debug)]
pub struct Dec {
    pub val: Val,
    /// Some(p) if the code states a precision
    pub prec: Option<u64>,
    pub relaxed: bool,
    pub path: Path,
}

struct Cur {
    t: Vec<String>,
    p: usize,
}

type R<T> = Result<T, String>;

impl Cur {
    fn peek(&self) -> &str {
        self.t.get(self.p).map(|s| s.as_str()).unwrap_or("<end>")
    }
    fn looking_at(&self, pat: &str) -> bool {
        let p = toks(pat);
        p.iter().enumerate().all(|(i, x)| self.t.get(self.p + i).map_or(false, |y| x == "$" || x == y))
    }
    /// match the pattern token by token; `$` captures one token
    fn eat(&mut self, pat: &str) -> R<Vec<String>> {
        let mut caps = vec![];
        for x in toks(pat) {
            let y = self.t.get(self.p).ok_or_else(|| format!("unexpected end, wanted `{}`", x))?;
            if x == "$" {
                caps.push(y.clone());
            } else if &x != y {
                let lo = self.p.saturating_sub(6);
                return Err(format!("wanted `{}` found `{}` after `{}`", x, y, self.t[lo..self.p].join(" ")));
            }
            self.p += 1;
        }
        Ok(caps)
    }
    fn done(&self) -> R<()> {
        if self.p == self.t.len() {
            Ok(())
        } else {
            Err(format!("trailing tokens from `{}`", self.peek()))
        }
    }
    fn num(tok: &str, suffix: &str) -> R<BigUint> {
        let d = tok.strip_suffix(suffix).ok_or_else(|| format!("literal `{}` lacks suffix {}", tok, suffix))?;
        if d.is_empty() || !d.bytes().all(|c| c.is_ascii_digit()) {
            return Err(format!("bad literal `{}`", tok));
        }
        Ok(BigUint::parse_bytes(d.as_bytes(), 10).unwrap())
    }
    fn usize_lit(tok: &str) -> R<u64> {
        let v = Cur::num(tok, "usize")?;
        u64::try_from(v).map_err(|_| "usize literal too large".to_string())
    }
    /// `[ a , b , ]` of unsuffixed integers
    fn list(&mut self) -> R<Vec<BigUint>> {
        self.eat("[")?;
        let mut v = vec![];
        while self.peek() != "]" {
            let c = self.eat("$ ,")?;
            v.push(Cur::num(&c[0], "")?);
        }
        self.eat("]")?;
        Ok(v)
    }
    fn sign(&mut self) -> R<bool> {
        let c = self.eat(":: dashu_base :: Sign :: $")?;
        match c[0].as_str() {
            "Positive" => Ok(false),
            "Negative" => Ok(true),
            o => Err(format!("bad sign `{}`", o)),
        }
    }
    fn isize_lit(&mut self) -> R<i64> {
        let neg = if self.peek() == "-" {
            self.p += 1;
            true
        } else {
            false
        };
        let c = self.eat("$")?;
        let v = Cur::num(&c[0], "isize")?;
        let v = i64::try_from(v).map_err(|_| "isize literal too large".to_string())?;
        Ok(if neg { -v } else { v })
    }
    fn u32_as(&mut self) -> R<BigUint> {
        let c = self.eat("$ as _")?;
        let v = Cur::num(&c[0], "u32")?;
        if v.bits() > 32 {
            return Err("u32 literal out of range".into());
        }
        Ok(v)
    }
    /// `{ const BYTES : [u8 ; N] = [..] ; :: dashu_int :: UBig :: from_le_bytes (& BYTES) }`
    fn ubig_heap(&mut self) -> R<BigUint> {
        let c = self.eat("{ const BYTES : [ u8 ; $ ] =")?;
        let n = Cur::usize_lit(&c[0])?;
        let l = self.list()?;
        self.eat("; :: dashu_int :: UBig :: from_le_bytes ( & BYTES ) }")?;
        if l.len() as u64 != n {
            return Err(format!("BYTES declared {} long, has {} elements", n, l.len()));
        }
        let mut bytes = vec![];
        for b in l {
            bytes.push(u8::try_from(b).map_err(|_| "byte out of range".to_string())?);
        }
        Ok(BigUint::from_bytes_le(&bytes))
    }
    fn ubig_expr(&mut self) -> R<(BigUint, Path)> {
        if self.looking_at("{") {
            Ok((self.ubig_heap()?, Path::Heap))
        } else {
            self.eat(":: dashu_int :: UBig :: from_dword (")?;
            let v = self.u32_as()?;
            self.eat(")")?;
            Ok((v, Path::Const))
        }
    }
    fn ibig_expr(&mut self) -> R<(bool, BigUint, Path)> {
        if self.looking_at(":: dashu_int :: IBig :: from_parts_const") {
            self.eat(":: dashu_int :: IBig :: from_parts_const (")?;
            let s = self.sign()?;
            self.eat(",")?;
            let v = self.u32_as()?;
            self.eat(")")?;
            Ok((s, v, Path::Const))
        } else {
            self.eat(":: dashu_int :: IBig :: from_parts (")?;
            let s = self.sign()?;
            self.eat(",")?;
            let v = self.ubig_heap()?;
            self.eat(")")?;
            Ok((s, v, Path::Heap))
        }
    }
    /// the word-size selector block of `quote_words`; all three word arrays must denote one value
    fn words(&mut self) -> R<BigUint> {
        let c = self.eat("{ trait DataSource { type Int : ' static ; const LEN : usize ; const DATA : [ Self :: Int ; $ ] ; } struct DataSelector < const BITS : u32 > ;")?;
        let max = Cur::usize_lit(&c[0])?;
        let mut vals = vec![];
        for w in [16u32, 32, 64] {
            let c = self.eat(&format!("impl DataSource for DataSelector < {w} > {{ type Int = u{w} ; const LEN : usize = $ ; const DATA : [ u{w} ; $ ] ="))?;
            let len = Cur::usize_lit(&c[0])?;
            let decl = Cur::usize_lit(&c[1])?;
            let l = self.list()?;
            self.eat("; }")?;
            if decl != max || l.len() as u64 != max {
                return Err(format!("u{} array: declared {} / trait {} / {} elements", w, decl, max, l.len()));
            }
            if len > max {
                return Err(format!("u{} LEN {} exceeds the array length {}", w, len, max));
            }
            let mut v = BigUint::zero();
            for (i, x) in l.iter().enumerate() {
                if x.bits() > w as u64 {
                    return Err(format!("u{} element out of range", w));
                }
                if i as u64 >= len {
                    if !x.is_zero() {
                        return Err(format!("u{} array has a non-zero element beyond LEN", w));
                    }
                } else {
                    v += x << (w as usize * i);
                }
            }
            if len > 0 && l[len as usize - 1].is_zero() {
                return Err(format!("u{} words are not normalised (top word within LEN is zero)", w));
            }
            vals.push(v);
        }
        self.eat("type Select = DataSelector < { :: dashu_int :: Word :: BITS } > ; static DATA_COPY : [ :: dashu_int :: Word ; Select :: DATA . len ( ) ] = Select :: DATA ; unsafe { core :: slice :: from_raw_parts ( DATA_COPY . as_ptr ( ) , Select :: LEN ) } }")?;
        if vals[0] != vals[1] || vals[1] != vals[2] {
            return Err(format!("the u16/u32/u64 word arrays denote different numbers: {:x} / {:x} / {:x}", vals[0], vals[1], vals[2]));
        }
        Ok(vals.pop().unwrap())
    }
}

fn signed(neg: bool, m: BigUint) -> BigInt {
    let v = BigInt::from(m);
    if neg {
        -v
    } else {
        v
    }
}

/// decode the expansion of macro `mac` (e.g. "static_ibig")
pub fn decode(mac: &str, emitted: &str) -> Result<Dec, String> {
    let mut c = Cur { t: toks(emitted), p: 0 };
    let stat = mac.starts_with("static_");
    let d = match mac.trim_start_matches("static_") {
        "ubig" | "ibig" => {
            let is_i = mac.ends_with("ibig");
            if c.looking_at("{ static DATA") {
                c.eat("{ static DATA : & ' static [ :: dashu_int :: Word ] =")?;
                let m = c.words()?;
                let neg = if is_i {
                    c.eat("; static VALUE : :: dashu_int :: IBig = unsafe { :: dashu_int :: IBig :: from_static_words (")?;
                    let s = c.sign()?;
                    c.eat(", DATA ) } ; & VALUE }")?;
                    s
                } else {
                    c.eat("; static VALUE : :: dashu_int :: UBig = unsafe { :: dashu_int :: UBig :: from_static_words ( DATA ) } ; & VALUE }")?;
                    false
                };
                Dec { val: Val::Int(signed(neg, m)), prec: None, relaxed: false, path: Path::Static }
            } else if is_i {
                let (s, m, p) = c.ibig_expr()?;
                Dec { val: Val::Int(signed(s, m)), prec: None, relaxed: false, path: p }
            } else {
                let (m, p) = c.ubig_expr()?;
                Dec { val: Val::Int(BigInt::from(m)), prec: None, relaxed: false, path: p }
            }
        }
        f @ ("fbig" | "dbig") => {
            let (base, ty, repr, ctx, fin) = if f == "fbig" {
                (2u32, ":: dashu_float :: FBig :: < :: dashu_float :: round :: mode :: Zero , 2 >", ":: dashu_float :: Repr :: < 2 >", ":: dashu_float :: Context :: < :: dashu_float :: round :: mode :: Zero >", ":: dashu_float :: FBig")
            } else {
                (10u32, ":: dashu_float :: DBig", ":: dashu_float :: Repr :: < 10 >", ":: dashu_float :: Context", ":: dashu_float :: DBig")
            };
            let konst = |c: &mut Cur| -> R<(BigInt, i64, Option<u64>)> {
                c.eat(&format!("{ty} :: from_parts_const ("))?;
                let s = c.sign()?;
                c.eat(",")?;
                let m = c.u32_as()?;
                c.eat(",")?;
                let e = c.isize_lit()?;
                if c.looking_at(", None )") {
                    // precision left to the constructor
                    c.eat(", None )")?;
                    return Ok((signed(s, m), e, None));
                }
                let p = c.eat(", Some ( $ ) )")?;
                Ok((signed(s, m), e, Some(Cur::usize_lit(&p[0])?)))
            };
            if c.looking_at("{ static VALUE") {
                c.eat(&format!("{{ static VALUE : {ty} ="))?;
                let (s, e, p) = konst(&mut c)?;
                c.eat("; & VALUE }")?;
                Dec { val: Val::Float { sig: s, exp: e, base, prec: p.unwrap_or(0) }, prec: p, relaxed: false, path: Path::StaticConst }
            } else if c.looking_at("{ static DATA") {
                c.eat("{ static DATA : & ' static [ :: dashu_float :: Word ] =")?;
                let m = c.words()?;
                c.eat(&format!("; static VALUE : {ty} = unsafe {{ {ty} :: from_repr_const ( {repr} :: from_static_words ("))?;
                let s = c.sign()?;
                c.eat(", DATA ,")?;
                let e = c.isize_lit()?;
                c.eat(") ) } ; & VALUE }")?;
                Dec { val: Val::Float { sig: signed(s, m), exp: e, base, prec: 0 }, prec: None, relaxed: false, path: Path::Static }
            } else if c.looking_at("{ let repr") {
                c.eat(&format!("{{ let repr = {repr} :: new ("))?;
                let (s, m, _) = c.ibig_expr()?;
                c.eat(",")?;
                let e = c.isize_lit()?;
                let p = c.eat(&format!(") ; let context = {ctx} :: new ( $ ) ; {fin} :: from_repr ( repr , context ) }}"))?;
                let p = Cur::usize_lit(&p[0])?;
                Dec { val: Val::Float { sig: signed(s, m), exp: e, base, prec: p }, prec: Some(p), relaxed: false, path: Path::Heap }
            } else {
                let (s, e, p) = konst(&mut c)?;
                Dec { val: Val::Float { sig: s, exp: e, base, prec: p.unwrap_or(0) }, prec: p, relaxed: false, path: Path::Const }
            }
        }
        "rbig" => {
            if c.looking_at("{ static NUM_DATA") {
                c.eat("{ static NUM_DATA : & ' static [ :: dashu_ratio :: Word ] =")?;
                let n = c.words()?;
                c.eat("; static DEN_DATA : & ' static [ :: dashu_ratio :: Word ] =")?;
                let d = c.words()?;
                let t = c.eat("; static VALUE : :: dashu_ratio :: $ = unsafe {")?;
                let relaxed = match t[0].as_str() {
                    "Relaxed" => true,
                    "RBig" => false,
                    o => return Err(format!("bad ratio type {}", o)),
                };
                if !relaxed {
                    c.eat("core :: mem :: transmute (")?;
                }
                c.eat(":: dashu_ratio :: Relaxed :: from_static_words (")?;
                let s = c.sign()?;
                c.eat(", NUM_DATA , DEN_DATA )")?;
                if !relaxed {
                    c.eat(")")?;
                }
                c.eat("} ; & VALUE }")?;
                Dec { val: Val::Ratio { n: signed(s, n), d: BigInt::from(d) }, prec: None, relaxed, path: Path::Static }
            } else {
                let t = c.eat(":: dashu_ratio :: $ :: $ (")?;
                let relaxed = match t[0].as_str() {
                    "Relaxed" => true,
                    "RBig" => false,
                    o => return Err(format!("bad ratio type {}", o)),
                };
                match t[1].as_str() {
                    "from_parts_const" => {
                        let s = c.sign()?;
                        c.eat(",")?;
                        let n = c.u32_as()?;
                        c.eat(",")?;
                        let d = c.u32_as()?;
                        c.eat(")")?;
                        Dec { val: Val::Ratio { n: signed(s, n), d: BigInt::from(d) }, prec: None, relaxed, path: Path::Const }
                    }
                    "from_parts" => {
                        let (s, n, _) = c.ibig_expr()?;
                        c.eat(",")?;
                        let (d, _) = c.ubig_expr()?;
                        c.eat(")")?;
                        Dec { val: Val::Ratio { n: signed(s, n), d: BigInt::from(d) }, prec: None, relaxed, path: Path::Heap }
                    }
                    o => return Err(format!("bad ratio constructor {}", o)),
                }
            }
        }
        o => return Err(format!("unknown macro {}", o)),
    };
    c.done()?;
    if stat && !matches!(d.path, Path::Static | Path::StaticConst) {
        return Err(format!("static macro expanded through the {} generator", d.path.name()));
    }
    if !stat && matches!(d.path, Path::Static | Path::StaticConst) {
        return Err(format!("non-static macro expanded through the {} generator", d.path.name()));
    }
    Ok(d)
}

// ---------------------------------------------------------------------------------------------
// generated crates

pub struct Gen {
    pub dir: String,
    pub repo: String,
    pub target: String,
}

pub const LOCK: &str = include_str!(concat!(env!("CARGO_MANIFEST_DIR"), "/../Cargo.lock"));

impl Gen {
    pub fn new() -> Gen {
        let dir = format!("{}/gen", crate::core::verif_root());
        let repo = std::env::var("DV_REPO").unwrap_or_else(|_| "/repo".to_string());
        let _ = std::fs::create_dir_all(&dir);
        Gen { target: format!("{}/target", dir), dir, repo }
    }

    fn write_if_changed(path: &str, content: &str) -> std::io::Result<()> {
        if std::fs::read_to_string(path).ok().as_deref() == Some(content) {
            return Ok(());
        }
        std::fs::write(path, content)
    }

    /// write the crate `name` (binary) with the given extra dependency lines and main.rs
    pub fn write_crate(&self, name: &str, with_macros: bool, extra_deps: &str, main_rs: &str) -> Result<(), String> {
        let d = format!("{}/{}", self.dir, name);
        std::fs::create_dir_all(format!("{}/src", d)).map_err(|e| e.to_string())?;
        let mut toml = format!("[package]\nname = \"{name}\"\nversion = \"0.0.0\"\nedition = \"2021\"\n\n[workspace]\n\n[dependencies]\n");
        for (krate, sub) in [("dashu-base", "base"), ("dashu-int", "integer"), ("dashu-float", "float"), ("dashu-ratio", "rational")] {
            toml += &format!("{krate} = {{ path = \"{}/{sub}\", default-features = false }}\n", self.repo);
        }
        if with_macros {
            toml += &format!("dashu-macros = {{ path = \"{}/macros\", default-features = false }}\n", self.repo);
        }
        toml += extra_deps;
        // one profile for everything (host and target units can then be shared); the library's
        // debug assertions and overflow checks stay on (dev profile)
        toml += "\n[profile.dev]\nopt-level = 1\ndebug = 0\nincremental = false\ncodegen-units = 16\n\n[profile.dev.build-override]\nopt-level = 1\ndebug = 0\ncodegen-units = 16\n";
        Gen::write_if_changed(&format!("{}/Cargo.toml", d), &toml).map_err(|e| e.to_string())?;
        if !std::path::Path::new(&format!("{}/Cargo.lock", d)).exists() {
            std::fs::write(format!("{}/Cargo.lock", d), LOCK).map_err(|e| e.to_string())?;
        }
        Gen::write_if_changed(&format!("{}/src/main.rs", d), main_rs).map_err(|e| e.to_string())
    }

    pub fn bin(&self, name: &str) -> String {
        format!("{}/debug/{}", self.target, name)
    }

    /// `cargo build --offline --message-format=json`
    pub fn build(&self, name: &str) -> Build {
        let d = format!("{}/{}", self.dir, name);
        let out = Command::new("cargo")
            .args(["build", "--offline", "--message-format=json"])
            .current_dir(&d)
            .env("CARGO_TARGET_DIR", &self.target)
            .env("CARGO_NET_OFFLINE", "true")
            .env_remove("CARGO_MANIFEST_DIR")
            .stdin(Stdio::null())
            .output();
        let out = match out {
            Ok(o) => o,
            Err(e) => return Build { ok: false, errors: vec![], other: format!("cannot run cargo: {}", e) },
        };
        let mut errors = vec![];
        let mut other = String::new();
        for line in String::from_utf8_lossy(&out.stdout).lines() {
            let v: Value = match serde_json::from_str(line) {
                Ok(v) => v,
                Err(_) => continue,
            };
            if v["reason"] != "compiler-message" {
                continue;
            }
            let m = &v["message"];
            if m["level"] != "error" {
                continue;
            }
            let in_gen = v["target"]["name"].as_str() == Some(name);
            let mut lines = BTreeSet::new();
            collect_lines(m, &mut lines);
            let mut text = m["message"].as_str().unwrap_or("").to_string();
            if let Some(ch) = m["children"].as_array() {
                for c in ch {
                    if let Some(t) = c["message"].as_str() {
                        text += " / ";
                        text += t;
                    }
                }
            }
            if text.starts_with("aborting due to") || text.starts_with("could not compile") {
                continue;
            }
            if !in_gen {
                other += &format!("error in {}: {}\n", v["target"]["name"], text);
                continue;
            }
            errors.push(CompileError { lines: lines.into_iter().collect(), text });
        }
        if !out.status.success() && errors.is_empty() && other.is_empty() {
            let e = String::from_utf8_lossy(&out.stderr);
            let tail: Vec<&str> = e.lines().rev().take(12).collect();
            other = tail.into_iter().rev().collect::<Vec<_>>().join("\n");
        }
        Build { ok: out.status.success(), errors, other }
    }
}

fn collect_lines(m: &Value, out: &mut BTreeSet<u64>) {
    if let Some(sp) = m["spans"].as_array() {
        for s in sp {
            collect_span(s, out);
        }
    }
    if let Some(ch) = m["children"].as_array() {
        for c in ch {
            collect_lines(c, out);
        }
    }
}
fn collect_span(s: &Value, out: &mut BTreeSet<u64>) {
    if s["file_name"].as_str().map_or(false, |f| f.ends_with("src/main.rs")) {
        if let (Some(a), Some(b)) = (s["line_start"].as_u64(), s["line_end"].as_u64()) {
            for l in a..=b.min(a + 3) {
                out.insert(l);
            }
        }
    }
    if s["expansion"].is_object() {
        collect_span(&s["expansion"]["span"], out);
    }
}

pub struct CompileError {
    /// 1-based lines of src/main.rs the diagnostic points to
    pub lines: Vec<u64>,
    pub text: String,
}

pub struct Build {
    pub ok: bool,
    pub errors: Vec<CompileError>,
    /// errors outside the generated crate / cargo failure text (machinery)
    pub other: String,
}

/// run a program feeding `input` to stdin; returns (stdout, exit description)
pub fn run_with_input(bin: &str, args: &[String], input: &[u8]) -> Result<(String, String), String> {
    let mut ch = Command::new(bin).args(args).stdin(Stdio::piped()).stdout(Stdio::piped()).stderr(Stdio::null()).spawn().map_err(|e| format!("cannot start {}: {}", bin, e))?;
    let mut si = ch.stdin.take().unwrap();
    let data = input.to_vec();
    let th = std::thread::spawn(move || {
        let _ = si.write_all(&data);
    });
    let out = ch.wait_with_output().map_err(|e| e.to_string())?;
    let _ = th.join();
    use std::os::unix::process::ExitStatusExt;
    let st = if let Some(s) = out.status.signal() { format!("signal {}", s) } else { format!("exit {}", out.status.code().unwrap_or(-1)) };
    Ok((String::from_utf8_lossy(&out.stdout).into_owned(), st))
}

/// source of the expander: the macro crate's own parse modules, driven outside of rustc
pub fn expander_main(repo: &str) -> String {
    format!(
        r##"// generated by dv c20: runs the code generators of dashu-macros on token streams given as text
#![allow(dead_code, unused_imports, deprecated)]
#[path = "{repo}/macros/src/parse/mod.rs"]
mod parse;
use proc_macro2::TokenStream;
use std::io::{{BufRead, Write}};
use std::str::FromStr;

fn main() {{
    std::panic::set_hook(Box::new(|_| {{}}));
    let stdin = std::io::stdin();
    let out = std::io::stdout();
    let mut out = std::io::BufWriter::new(out.lock());
    for line in stdin.lock().lines() {{
        let line = line.unwrap();
        let (kind, text) = line.split_once('\t').unwrap();
        let ts = match TokenStream::from_str(text) {{
            Ok(t) => t,
            Err(e) => {{
                writeln!(out, "LEX\t{{}}", e).unwrap();
                continue;
            }}
        }};
        let r = std::panic::catch_unwind(move || {{
            match kind {{
                "ubig" => parse::int::parse_integer(false, false, false, ts),
                "static_ubig" => parse::int::parse_integer(false, true, false, ts),
                "ibig" => parse::int::parse_integer(true, false, false, ts),
                "static_ibig" => parse::int::parse_integer(true, true, false, ts),
                "fbig" => parse::float::parse_binary_float(false, false, ts),
                "static_fbig" => parse::float::parse_binary_float(true, false, ts),
                "dbig" => parse::float::parse_decimal_float(false, false, ts),
                "static_dbig" => parse::float::parse_decimal_float(true, false, ts),
                "rbig" => parse::ratio::parse_ratio(false, ts),
                "static_rbig" => parse::ratio::parse_static_ratio(false, ts),
                _ => panic!("unknown macro kind"),
            }}
            .to_string()
        }});
        match r {{
            Ok(s) => writeln!(out, "OK\t{{}}", s.replace('\n', " ")).unwrap(),
            Err(e) => {{
                let m = if let Some(s) = e.downcast_ref::<&str>() {{
                    s.to_string()
                }} else if let Some(s) = e.downcast_ref::<String>() {{
                    s.clone()
                }} else {{
                    "?".into()
                }};
                writeln!(out, "PANIC\t{{}}", m.replace('\n', " ")).unwrap()
            }}
        }}
    }}
}}
"##
    )
}

/// prelude of the generated programs that contain real macro invocations
pub const ROWS_PRELUDE: &str = r##"// generated by dv c20
#![allow(unused_imports, dead_code, deprecated, clippy::all)]
use core::str::FromStr;
use dashu_base::Sign;
use dashu_float::{DBig, FBig};
use dashu_int::{IBig, UBig, Word};
use dashu_macros::*;
use dashu_ratio::{RBig, Relaxed};
type F2 = dashu_float::FBig;

fn hw(w: &[Word]) -> String {
    if w.is_empty() {
        return "0".into();
    }
    let mut s = String::new();
    for x in w.iter().rev() {
        s += &format!("{:0width$x}", x, width = (Word::BITS / 4) as usize);
    }
    s
}
fn du(x: &UBig) -> String {
    format!("+{}", hw(x.as_words()))
}
fn di(x: &IBig) -> String {
    let (s, w) = x.as_sign_words();
    format!("{}{}", if s == Sign::Negative { "-" } else { "+" }, hw(w))
}
fn df<R: dashu_float::round::Round, const B: Word>(x: &FBig<R, B>) -> String {
    format!("{}|{}|{}", di(x.repr().significand()), x.repr().exponent(), x.precision())
}
fn dr(x: &RBig) -> String {
    format!("{}/{}", di(x.numerator()), du(x.denominator()))
}
fn dx(x: &Relaxed) -> String {
    format!("{}/{}", di(x.numerator()), du(x.denominator()))
}
fn rt<T, E: core::fmt::Debug>(r: Result<T, E>, f: impl FnOnce(&T) -> String) -> String {
    match r {
        Ok(v) => f(&v),
        Err(e) => format!("ERR:{:?}", e),
    }
}
"##;

/// per-row line attribution of compile errors
pub fn attribute(errors: &[CompileError], line_of_row: &BTreeMap<u64, usize>) -> (BTreeMap<usize, String>, Vec<String>) {
    let mut per_row: BTreeMap<usize, String> = BTreeMap::new();
    let mut stray = vec![];
    for e in errors {
        let rows: BTreeSet<usize> = e.lines.iter().filter_map(|l| line_of_row.get(l).copied()).collect();
        if rows.is_empty() {
            stray.push(format!("{} (lines {:?})", e.text, e.lines));
        }
        for r in rows {
            let t = per_row.entry(r).or_default();
            if t.len() < 400 {
                if !t.is_empty() {
                    t.push_str(" || ");
                }
                t.push_str(&e.text);
            }
        }
    }
    (per_row, stray)
}
