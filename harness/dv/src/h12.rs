//! Reference side of C12: rigorous enclosures of log2 on BigInt fixed point, exact comparison of
//! an f32 bound with such an enclosure, definitional root / gcd / ilog judges.  Nothing in here
//! calls into dashu.

use num_bigint::{BigInt, BigUint};
use num_traits::{One, Zero};

/// fractional bits of the enclosures returned by `log2_iv_*`
pub const F: u32 = 96;
/// working precision (fraction bits of the mantissa interval)
const PW: u64 = 320;

/// Interval [lo, hi] (both scaled by 2^F) with lo <= log2(x) * 2^F <= hi.
#[derive(Clone, Debug, PartialEq)]
pub struct Iv {
    pub lo: BigInt,
    pub hi: BigInt,
}

impl Iv {
    pub fn sub(&self, o: &Iv) -> Iv {
        Iv { lo: &self.lo - &o.hi, hi: &self.hi - &o.lo }
    }
    pub fn add(&self, o: &Iv) -> Iv {
        Iv { lo: &self.lo + &o.lo, hi: &self.hi + &o.hi }
    }
    /// multiply by an exact integer
    pub fn scale(&self, k: &BigInt) -> Iv {
        let (a, b) = (&self.lo * k, &self.hi * k);
        if a <= b {
            Iv { lo: a, hi: b }
        } else {
            Iv { lo: b, hi: a }
        }
    }
    pub fn mid_f64(&self) -> f64 {
        use num_traits::ToPrimitive;
        let m: BigInt = (&self.lo + &self.hi) >> 1;
        // m / 2^F through a shortened mantissa (display / fast-path cross-check only)
        let bits = m.bits();
        if bits > 900 {
            let sh = bits - 900;
            return (m >> sh).to_f64().unwrap_or(f64::NAN) * 2f64.powi(sh as i32 - F as i32);
        }
        m.to_f64().unwrap_or(f64::NAN) / 2f64.powi(F as i32)
    }
}

/// Enclosure of log2(n) for an integer n >= 1 by the squaring algorithm on an outward-rounded
/// mantissa interval: m in [1,2); repeatedly m <- m^2; a result >= 2 emits bit 1 (and halves).
/// Every rounding goes outward (floor for the lower end, ceil for the upper end), so the true
/// mantissa stays inside [lo, hi] and every emitted bit is a proven bit of frac(log2 n).
pub fn log2_iv_u(n: &BigUint) -> Iv {
    assert!(!n.is_zero(), "log2 of zero has no enclosure");
    let bits = n.bits();
    let e = bits - 1;
    let e_s = BigInt::from(e) << F;
    if n.trailing_zeros() == Some(e) {
        return Iv { lo: e_s.clone(), hi: e_s };
    }
    let (mut lo, mut hi): (BigUint, BigUint) = if e <= PW {
        let m = n << (PW - e);
        (m.clone(), m)
    } else {
        let m = n >> (e - PW);
        (m.clone(), m + 1u32)
    };
    let two: BigUint = BigUint::one() << (PW + 1);
    let mask: BigUint = (BigUint::one() << PW) - 1u32;
    let mut acc = BigUint::zero();
    let mut k: u32 = 0;
    while k < F {
        let l2: BigUint = (&lo * &lo) >> PW;
        let h2: BigUint = ((&hi * &hi) + &mask) >> PW;
        if l2 >= two {
            acc = (acc << 1) + 1u32;
            lo = l2 >> 1;
            hi = (h2 + 1u32) >> 1;
        } else if h2 < two {
            acc <<= 1;
            lo = l2;
            hi = h2;
        } else {
            break; // the interval straddles 2: the next bit is not proven
        }
        k += 1;
    }
    let lo_r = &e_s + (BigInt::from(acc.clone()) << (F - k));
    let hi_r = &e_s + (BigInt::from(acc + 1u32) << (F - k));
    Iv { lo: lo_r, hi: hi_r }
}

/// log2(n/d); the fraction is reduced first so that an exact power of two gets an exact interval
/// (every other rational has an irrational log2, which a 2^-95-wide enclosure separates from
/// any f32 in practice; a bound that still falls inside is reported as undecided)
pub fn log2_iv_q(n: &BigUint, d: &BigUint) -> Iv {
    use num_integer::Integer;
    let g = n.gcd(d);
    if g.is_one() {
        log2_iv_u(n).sub(&log2_iv_u(d))
    } else {
        log2_iv_u(&(n / &g)).sub(&log2_iv_u(&(d / &g)))
    }
}

/// log2(m * base^e) for m >= 1, base >= 2.  Exact when the value is a power of two
/// (odd part of m equals the odd part of base to the power -e).
pub fn log2_iv_float(m: &BigUint, base: u64, e: i128) -> Iv {
    use num_traits::Pow;
    let b2 = base.trailing_zeros() as i128;
    let bo = base >> b2;
    let s2 = m.trailing_zeros().unwrap_or(0);
    let so = m >> s2;
    let exact = if bo == 1 || e == 0 {
        so.is_one()
    } else if e < 0 {
        // so == bo^(-e) is only possible when the sizes match
        let k = (-e) as u128;
        let est = (k as f64) * (bo as f64).log2();
        if (so.bits() as f64 - est).abs() <= 2.0 && k < (1 << 24) {
            so == Pow::pow(BigUint::from(bo), k as u32)
        } else {
            false
        }
    } else {
        false
    };
    if exact {
        let v = BigInt::from(s2 as i128 + e * b2) << F;
        return Iv { lo: v.clone(), hi: v };
    }
    log2_iv_u(m).add(&log2_iv_u(&BigUint::from(base)).scale(&BigInt::from(e)))
}

/// exact value of a finite f32 as mant * 2^exp
pub fn f32_parts(b: f32) -> (BigInt, i32) {
    let bits = b.to_bits();
    let sign = bits >> 31 != 0;
    let ex = ((bits >> 23) & 0xff) as i32;
    let fr = (bits & 0x7f_ffff) as i64;
    let (m, e) = if ex == 0 { (fr, -149) } else { (fr | 0x80_0000, ex - 150) };
    (BigInt::from(if sign { -m } else { m }), e)
}

#[derive(Clone, Copy, PartialEq, Eq, Debug)]
pub enum Pos {
    /// b <= lo  (b is certainly <= the true value)
    AtOrBelow,
    /// b >= hi  (b is certainly >= the true value)
    AtOrAbove,
    /// lo == hi == b
    Exact,
    /// lo < b < hi: cannot be decided with this enclosure
    Inside,
}

/// Position of the finite f32 `b` relative to the enclosure (exact integer arithmetic).
pub fn pos_f32(b: f32, iv: &Iv) -> Pos {
    let (m, e) = f32_parts(b);
    let s = e + F as i32;
    let (bi, lo, hi) = if s >= 0 { (m << s as usize, iv.lo.clone(), iv.hi.clone()) } else { (m, &iv.lo << (-s) as usize, &iv.hi << (-s) as usize) };
    if lo == hi && bi == lo {
        Pos::Exact
    } else if bi <= lo {
        Pos::AtOrBelow
    } else if bi >= hi {
        Pos::AtOrAbove
    } else {
        Pos::Inside
    }
}

#[derive(Clone, Copy, PartialEq, Eq, Debug)]
pub enum Verdict {
    Ok,
    Violated,
    Undecided,
}

/// Is `lb` a valid lower bound of the value enclosed by `iv`?
pub fn judge_lower(lb: f32, iv: &Iv) -> Verdict {
    if lb.is_nan() || lb == f32::INFINITY {
        return Verdict::Violated;
    }
    if lb == f32::NEG_INFINITY {
        return Verdict::Ok;
    }
    match pos_f32(lb, iv) {
        Pos::AtOrBelow | Pos::Exact => Verdict::Ok,
        Pos::AtOrAbove => {
            // lb >= hi >= true; equality with the true value only if lo == hi (Exact, handled)
            if iv.lo == iv.hi {
                Verdict::Violated
            } else {
                // lb >= hi: the true value is <= hi <= lb; it equals lb only if true == hi == lb,
                // impossible to tell apart here only when lb == hi exactly
                let (m, e) = f32_parts(lb);
                let s = e + F as i32;
                let eq_hi = if s >= 0 { (m << s as usize) == iv.hi } else { m == (&iv.hi << (-s) as usize) };
                if eq_hi {
                    Verdict::Undecided
                } else {
                    Verdict::Violated
                }
            }
        }
        Pos::Inside => Verdict::Undecided,
    }
}

/// Is `ub` a valid upper bound of the value enclosed by `iv`?
pub fn judge_upper(ub: f32, iv: &Iv) -> Verdict {
    if ub.is_nan() || ub == f32::NEG_INFINITY {
        return Verdict::Violated;
    }
    if ub == f32::INFINITY {
        return Verdict::Ok;
    }
    match pos_f32(ub, iv) {
        Pos::AtOrAbove | Pos::Exact => Verdict::Ok,
        Pos::AtOrBelow => {
            if iv.lo == iv.hi {
                Verdict::Violated
            } else {
                let (m, e) = f32_parts(ub);
                let s = e + F as i32;
                let eq_lo = if s >= 0 { (m << s as usize) == iv.lo } else { m == (&iv.lo << (-s) as usize) };
                if eq_lo {
                    Verdict::Undecided
                } else {
                    Verdict::Violated
                }
            }
        }
        Pos::Inside => Verdict::Undecided,
    }
}

// ---------------------------------------------------------------------------------------------
// definitional judges

/// r is the n-th root of x truncated toward zero  <=>  r^n <= x < (r+1)^n   (x, r >= 0, n >= 1)
pub fn is_floor_root(x: &BigUint, n: u32, r: &BigUint) -> bool {
    use num_traits::Pow;
    // quick size rejection keeps the powers small when r is absurdly large
    if !r.is_zero() && (r.bits() - 1) * n as u64 >= x.bits().max(1) + 1 {
        return false;
    }
    let p: BigUint = Pow::pow(r, n);
    if &p > x {
        return false;
    }
    let q: BigUint = Pow::pow(&(r + 1u32), n);
    x < &q
}

/// e = floor(log_b x)  <=>  b^e <= x < b^(e+1)    (x >= 1, b >= 2)
pub fn is_floor_log(x: &BigUint, b: &BigUint, e: usize) -> bool {
    use num_traits::Pow;
    if (b.bits() - 1) * e as u64 >= x.bits() + 1 {
        return false;
    }
    let p: BigUint = Pow::pow(b, e as u32);
    if &p > x {
        return false;
    }
    x < &(p * b)
}

/// reference floor log by the definition (repeated multiplication)
pub fn floor_log(x: &BigUint, b: &BigUint) -> usize {
    let mut e = 0usize;
    let mut p = b.clone();
    while &p <= x {
        p *= b;
        e += 1;
    }
    e
}

/// checked r^n <= x on u128 (overflow means "greater")
pub fn pow_le_u128(r: u128, n: u32, x: u128) -> bool {
    match r.checked_pow(n) {
        Some(p) => p <= x,
        None => false,
    }
}

/// r = floor(x^(1/n)) on u128
pub fn is_floor_root_u128(x: u128, n: u32, r: u128) -> bool {
    pow_le_u128(r, n, x) && !pow_le_u128(r + 1, n, x)
}

/// definition-only reference roots for small values (binary search on the predicate)
pub fn floor_root_u128(x: u128, n: u32) -> u128 {
    let (mut lo, mut hi) = (0u128, 1u128 << (128 / n + 1).min(127));
    // invariant: lo^n <= x, hi^n > x
    while hi - lo > 1 {
        let mid = lo + (hi - lo) / 2;
        if pow_le_u128(mid, n, x) {
            lo = mid;
        } else {
            hi = mid;
        }
    }
    lo
}

pub fn gcd_euclid_u128(mut a: u128, mut b: u128) -> u128 {
    while b != 0 {
        let t = a % b;
        a = b;
        b = t;
    }
    a
}
