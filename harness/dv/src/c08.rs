//! C08 — float text I/O is lossless; base / precision changes are faithfully rounded.
//!
//! Sweeps (all exhaustive over their stated universes):
//!  * parse.strings.B*   — every string of length <= L over a 16/17-symbol alphabet, judged by an
//!                         independent recogniser of the documented grammar (`ref_parse`)
//!  * parse.valid.B*     — grammar-directed valid literals (sign? prefix? digits(_digits)* (.digits)?
//!                         (marker sign? digits)?) built from component lists: must be accepted
//!  * parse.extreme      — literals whose exponent sits at the isize limits: Err or exact, never panic
//!  * print.roundtrip.B* — every value of F(B,P,E) (+ multi-word significands) printed with
//!                         {} {:e} {:E} {:?} ({:b} {:x} {:X} {:o} where implemented) and read back
//!  * print.precision.*  — {:.k} / {:.ke} for k in 0..=P+3 (+ one long k) under all six modes,
//!                         compared as strings with a reference layout of the exactly rounded value
//!  * with_precision.*   — with_precision(p') for p' in 0..=P+1, limited and unlimited source
//!  * conv.small/large.* — with_base_and_precision / with_base / to_decimal / to_binary for all
//!                         ordered base pairs of {2,3,10,16}, both sides of THRESHOLD_SMALL_EXP
//!  * from_f32 / from_f64 — TryFrom<f32/f64> for FBig / Repr over exponent-field x mantissa patterns
#![allow(deprecated)]

use crate::core::{guard, is_internal_panic, Ctx, Rec};
use crate::fref::*;
use crate::h::unflatten;
use crate::uni::*;
use dashu_base::Approximation;
use dashu_float::round::{mode, Round, Rounding};
use dashu_float::{FBig, Repr};
use dashu_int::Word;
use num_bigint::BigInt;
use num_traits::{One, Signed, Zero};
use std::convert::TryFrom;

const P: &str = "C08";

// =============================================================================================
// reference recogniser of the documented float grammar (float/src/parse.rs, docs of
// FBig::from_str_native) — written from the documentation, shares no code with dashu

#[derive(Clone, Debug, PartialEq)]
enum RefParse {
    /// in the documented grammar: must be accepted with this (normalised) value and precision
    Strict { sig: BigInt, exp: i128, prec: usize },
    /// the reading is defined, but the docs are silent on whether the spelling is accepted
    Loose { sig: BigInt, exp: i128, prec: usize, why: &'static str },
    /// outside the documented grammar
    Reject(&'static str),
    /// in (or near) the grammar but the docs do not fix the meaning / representability
    Unjudged(&'static str),
}

#[derive(Clone, Copy, Default, Debug)]
struct Form {
    hex: bool,
    point: bool,
    scale: bool,
    underscore: bool,
}
impl Form {
    fn class(&self, base: u32) -> String {
        format!("B{}{}{}{}{}", base, if self.hex { ",hex" } else { "" }, if self.point { ",point" } else { "" }, if self.scale { ",scale" } else { "" }, if self.underscore { ",underscore" } else { "" })
    }
}

fn markers_of(base: u32, hex: bool) -> &'static [char] {
    match (base, hex) {
        (2, true) => &['p', 'P', '@'],
        (2, false) => &['b', 'B', '@'],
        (8, _) => &['o', 'O', '@'],
        (10, _) => &['e', 'E', '@'],
        (16, _) => &['h', 'H', '@'],
        _ => &['@'],
    }
}

fn well_placed(part: &str) -> bool {
    part.is_empty() || !(part.starts_with('_') || part.ends_with('_') || part.contains("__"))
}

/// exponents this far from the isize limits are representable whatever the intermediate steps
fn exp_in_range(e: i128) -> bool {
    let lim = (isize::MAX as i128) - 4096;
    -lim <= e && e <= lim
}

fn ref_parse(base: u32, s: &str) -> (RefParse, Form) {
    let mut form = Form::default();
    if !s.is_ascii() {
        return (RefParse::Reject("non-ascii"), form);
    }
    form.underscore = s.contains('_');
    let mut rest = s;
    let mut neg = false;
    if let Some(r) = rest.strip_prefix('-') {
        neg = true;
        rest = r;
    } else if let Some(r) = rest.strip_prefix('+') {
        rest = r;
    }
    let upper_prefix = rest.starts_with("0X");
    let hex = base == 2 && (rest.starts_with("0x") || upper_prefix);
    form.hex = hex;
    if hex {
        rest = &rest[2..];
    }
    let (body, scale) = match rest.rfind(markers_of(base, hex)) {
        Some(p) => (&rest[..p], Some((rest.as_bytes()[p] as char, &rest[p + 1..]))),
        None => (rest, None),
    };
    form.scale = scale.is_some();
    form.point = body.contains('.');
    // ---- body
    let radix = if hex { 16 } else { base };
    let (int_s, frac_s) = match body.find('.') {
        Some(p) => (&body[..p], &body[p + 1..]),
        None => (body, ""),
    };
    let mut sig = BigInt::zero();
    let (mut nint, mut nfrac) = (0usize, 0usize);
    for (k, part) in [int_s, frac_s].iter().enumerate() {
        for (pos, c) in part.chars().enumerate() {
            if c == '_' {
                continue;
            }
            match c.to_digit(radix) {
                Some(d) => {
                    sig = sig * radix + d;
                    if k == 0 {
                        nint += 1
                    } else {
                        nfrac += 1
                    }
                }
                None => {
                    let why = match c {
                        '+' | '-' if k == 0 && pos == 0 => "double-sign",
                        '+' | '-' if k == 1 && pos == 0 => "sign-in-fraction",
                        '+' | '-' => "misplaced-sign",
                        '.' => "second-point",
                        ' ' => "space",
                        _ => "invalid-digit",
                    };
                    return (RefParse::Reject(why), form);
                }
            }
        }
    }
    if nint + nfrac == 0 {
        return (RefParse::Reject("no-digits"), form);
    }
    // ---- scale
    let mut unjudged: Option<&'static str> = None;
    let mut scale_val: i128 = 0;
    if let Some((m, t)) = scale {
        let (sneg, d) = match t.strip_prefix('-') {
            Some(r) => (true, r),
            None => (false, t.strip_prefix('+').unwrap_or(t)),
        };
        if d.is_empty() {
            return (RefParse::Reject("empty-exponent"), form);
        }
        if d.bytes().any(|c| !(c.is_ascii_digit() || c == b'_')) {
            return (RefParse::Reject("bad-exponent"), form);
        }
        if d.contains('_') {
            unjudged = Some("underscore-in-exponent");
        } else {
            let dd = d.trim_start_matches('0');
            if dd.len() > 30 {
                unjudged = Some("exponent-out-of-range");
            } else {
                let v: i128 = if dd.is_empty() { 0 } else { dd.parse().unwrap() };
                scale_val = if sneg { -v } else { v };
            }
        }
        if hex && m == '@' {
            unjudged = Some("hex-form-with-@");
        }
    }
    if let Some(why) = unjudged {
        return (RefParse::Unjudged(why), form);
    }
    // ---- value
    let (mut exp, prec) = if hex { (scale_val - 4 * nfrac as i128, 4 * (nint + nfrac)) } else { (scale_val - nfrac as i128, nint + nfrac) };
    if !exp_in_range(scale_val) || !exp_in_range(exp) {
        return (RefParse::Unjudged("exponent-near-isize-limit"), form);
    }
    if sig.is_zero() {
        exp = 0;
    } else {
        let b = BigInt::from(base);
        while (&sig % &b).is_zero() {
            sig /= &b;
            exp += 1;
        }
    }
    if neg {
        sig = -sig;
    }
    let loose = if !well_placed(int_s) || !well_placed(frac_s) {
        Some("underscore-placement")
    } else if upper_prefix {
        Some("0X-prefix")
    } else {
        None
    };
    match loose {
        Some(why) => (RefParse::Loose { sig, exp, prec, why }, form),
        None => (RefParse::Strict { sig, exp, prec }, form),
    }
}

/// run dashu's parser on `s` and judge it against the recogniser
fn parse_case<const B: Word>(rec: &mut Rec, s: &str) {
    let (want, form) = ref_parse(B as u32, s);
    rec.step();
    let got = guard(|| s.parse::<FBig<mode::Zero, B>>());
    let case = || format!("base {} parse {:?}", B, s);
    let got = match got {
        Ok(g) => g,
        Err(pm) => {
            let kind = if is_internal_panic(&pm) { "internal-panic" } else { "panic" };
            let huge = s.as_bytes().windows(9).any(|w| w.iter().all(|c| c.is_ascii_digit())) && form.scale;
            let cls = match &want {
                _ if huge => "exponent-near-isize-limit".to_string(),
                RefParse::Strict { .. } => "valid-literal".to_string(),
                RefParse::Loose { why, .. } => format!("loose:{}", why),
                RefParse::Reject(why) => format!("invalid:{}", why),
                RefParse::Unjudged(why) => format!("unjudged:{}", why),
            };
            rec.fail(format!("{}|FBig::from_str|{}|{}", P, kind, cls), case(), pm, "Ok(exact value) or Err, never a panic");
            return;
        }
    };
    let judge_value = |rec: &mut Rec, f: &FBig<mode::Zero, B>, sig: &BigInt, exp: i128, prec: usize| {
        let gs = i_to_ref(f.repr().significand());
        let ge = f.repr().exponent() as i128;
        if f.repr().is_infinite() || &gs != sig || ge != exp {
            rec.fail(format!("{}|FBig::from_str|wrong-value|{}", P, form.class(B as u32)), case(), format!("{} * {}^{}", gs, B, ge), format!("{} * {}^{}", sig, B, exp));
        } else if f.precision() != prec {
            rec.fail(format!("{}|FBig::from_str|wrong-precision|{}", P, form.class(B as u32)), case(), format!("precision {}", f.precision()), format!("precision {} (number of written digits{})", prec, if form.hex { ", 4 per hex digit" } else { "" }));
        }
        if !sig.is_zero() {
            rec.nontrivial();
        }
    };
    match (&want, &got) {
        (RefParse::Strict { sig, exp, prec }, Ok(f)) => {
            rec.hit("accepted");
            if form.hex {
                rec.hit("accepted:hex-form");
            }
            if form.scale {
                rec.hit("accepted:scale");
            }
            if form.point {
                rec.hit("accepted:point");
            }
            if form.underscore {
                rec.hit("accepted:underscore");
            }
            if sig.is_negative() {
                rec.hit("accepted:negative");
            }
            judge_value(rec, f, sig, *exp, *prec);
        }
        (RefParse::Strict { sig, exp, .. }, Err(e)) => {
            rec.fail(format!("{}|FBig::from_str|rejects-valid|{}", P, form.class(B as u32)), case(), format!("Err({:?})", e), format!("Ok({} * {}^{})", sig, B, exp));
        }
        (RefParse::Loose { sig, exp, prec, why }, Ok(f)) => {
            rec.hit(&format!("unspecified-spelling-accepted:{}", why));
            judge_value(rec, f, sig, *exp, *prec);
        }
        (RefParse::Loose { why, .. }, Err(_)) => rec.hit(&format!("unspecified-spelling-rejected:{}", why)),
        (RefParse::Reject(why), Ok(f)) => {
            rec.fail(format!("{}|FBig::from_str|accepts-ungrammatical|{}", P, why), case(), format!("Ok({} * {}^{}, precision {})", i_to_ref(f.repr().significand()), B, f.repr().exponent(), f.precision()), format!("Err (not in the documented grammar: {})", why));
        }
        (RefParse::Reject(why), Err(_)) => {
            rec.hit("rejected");
            rec.hit(&format!("rejected:{}", why));
        }
        (RefParse::Unjudged(why), Ok(_)) => rec.hit(&format!("unspecified:{}:accepted", why)),
        (RefParse::Unjudged(why), Err(_)) => rec.hit(&format!("unspecified:{}:rejected", why)),
    }
}

fn alphabet(base: u32) -> Vec<char> {
    let mut a = vec!['0', '1', '9', 'a', 'f', 'z', '_', '.', '-', '+', 'e', '@', 'x', 'p', ' ', 'é'];
    match base {
        2 => a.push('b'),
        8 => a.push('o'),
        16 => a.push('h'),
        10 => a.push('E'),
        _ => {}
    }
    a
}

fn n_strings(k: u64, l: u32) -> u64 {
    (0..=l).map(|j| k.pow(j)).sum()
}

fn string_at(alpha: &[char], mut i: u64) -> String {
    let k = alpha.len() as u64;
    let (mut len, mut cnt) = (0usize, 1u64);
    while i >= cnt {
        i -= cnt;
        cnt *= k;
        len += 1;
    }
    let mut cs = vec![' '; len];
    for j in (0..len).rev() {
        cs[j] = alpha[(i % k) as usize];
        i /= k;
    }
    cs.into_iter().collect()
}

fn parse_strings<const B: Word>(ctx: &mut Ctx, l: u32) {
    let alpha = alphabet(B as u32);
    let n = n_strings(alpha.len() as u64, l);
    let name = format!("parse.strings.B{}", B);
    let ar = &alpha;
    ctx.sweep(&name, n, |i, rec| {
        let s = string_at(ar, i);
        parse_case::<B>(rec, &s);
        rec.sample(|| format!("base {} parse {:?} -> {:?}", B, s, ref_parse(B as u32, &s).0));
    });
    let mut req = vec!["accepted", "rejected", "accepted:scale", "accepted:point", "accepted:negative", "accepted:underscore", "rejected:no-digits", "rejected:invalid-digit", "rejected:misplaced-sign", "rejected:double-sign", "rejected:sign-in-fraction", "rejected:second-point", "rejected:empty-exponent", "rejected:non-ascii", "rejected:space"];
    if B == 2 {
        req.push("accepted:hex-form");
    }
    ctx.require_classes(&name, &req);
}

/// grammar-directed valid literals with the value computed from the components
struct Lit {
    text: String,
    sig: BigInt,
    exp: i128,
    prec: usize,
}

fn digit_char(d: u32) -> char {
    std::char::from_digit(d, 36).unwrap()
}

fn valid_literals(base: u32, thorough: bool) -> Vec<Lit> {
    let m = digit_char(base - 1); // largest digit
    let h = digit_char(base / 2); // a middle digit
    let long: String = (0..if base <= 3 { 150 } else { 45 }).map(|i| digit_char(((i * 7 + 1) % base as usize) as u32)).collect();
    let mut ints: Vec<String> = vec!["".into(), "0".into(), "1".into(), m.to_string(), "10".into(), format!("00{}1", m), "1_0".into(), format!("{}_{}_{}", m, h, m), long[..25].to_string(), long.clone()];
    let mut fracs: Vec<Option<String>> = vec![None, Some("".into()), Some("0".into()), Some(h.to_string()), Some("01".into()), Some(format!("{}0", m)), Some("0_1".into()), Some("000".into()), Some(long[..23].to_string())];
    if thorough {
        ints.push(format!("{}{}", m.to_uppercase(), h.to_uppercase()));
        ints.push(format!("1{}", "0".repeat(30)));
        fracs.push(Some(format!("{}1", "0".repeat(30))));
        fracs.push(Some(format!("{}_{}", m, m)));
    }
    let mks = markers_of(base, false);
    let mut scales: Vec<Option<(char, String)>> = vec![None];
    for &mk in mks {
        for e in ["0", "5", "+5", "-5", "-07", "40", "-300"] {
            scales.push(Some((mk, e.to_string())));
        }
    }
    let mut out = vec![];
    let bb = BigInt::from(base);
    let radix_val = |s: &str, radix: u32| -> (BigInt, usize) {
        let mut v = BigInt::zero();
        let mut n = 0;
        for c in s.chars().filter(|c| *c != '_') {
            v = v * radix + c.to_digit(radix).unwrap();
            n += 1;
        }
        (v, n)
    };
    let mut push = |text: String, mut sig: BigInt, mut exp: i128, prec: usize, neg: bool| {
        if sig.is_zero() {
            exp = 0;
        } else {
            while (&sig % &bb).is_zero() {
                sig /= &bb;
                exp += 1;
            }
        }
        out.push(Lit { text, sig: if neg { -sig } else { sig }, exp, prec });
    };
    for sign in ["", "+", "-"] {
        for i in &ints {
            for f in &fracs {
                if i.is_empty() && f.as_deref().unwrap_or("").is_empty() {
                    continue;
                }
                for sc in &scales {
                    let mut t = format!("{}{}", sign, i);
                    if let Some(f) = f {
                        t.push('.');
                        t.push_str(f);
                    }
                    let mut e: i128 = 0;
                    if let Some((mk, es)) = sc {
                        t.push(*mk);
                        t.push_str(es);
                        e = es.parse::<i128>().unwrap();
                    }
                    let (iv, ni) = radix_val(i, base);
                    let (fv, nf) = radix_val(f.as_deref().unwrap_or(""), base);
                    let sig = iv * num_traits::pow(bb.clone(), nf) + fv;
                    push(t, sig, e - nf as i128, ni + nf, sign == "-");
                }
            }
        }
    }
    if base == 2 {
        // hex-float form 0xaaa.bbbPcc : value = 0xaaabbb / 16^len(bbb) * 2^cc, 4 digits per hex digit
        let hints = ["", "0", "1", "f", "1F", "00a1", "8_0", "123456789abcdef0123"];
        let hfracs: [Option<&str>; 7] = [None, Some(""), Some("0"), Some("8"), Some("01"), Some("f_f"), Some("0123456789ABCDEF01")];
        let mut hscales: Vec<Option<(char, &str)>> = vec![None];
        for mk in ['p', 'P'] {
            for e in ["0", "3", "+3", "-3", "-70", "100"] {
                hscales.push(Some((mk, e)));
            }
        }
        for sign in ["", "+", "-"] {
            for i in hints {
                for f in hfracs {
                    if i.is_empty() && f.unwrap_or("").is_empty() {
                        continue;
                    }
                    for sc in &hscales {
                        let mut t = format!("{}0x{}", sign, i);
                        if let Some(f) = f {
                            t.push('.');
                            t.push_str(f);
                        }
                        let mut e: i128 = 0;
                        if let Some((mk, es)) = sc {
                            t.push(*mk);
                            t.push_str(es);
                            e = es.parse::<i128>().unwrap();
                        }
                        let (iv, ni) = radix_val(i, 16);
                        let (fv, nf) = radix_val(f.unwrap_or(""), 16);
                        let sig = iv * num_traits::pow(BigInt::from(16), nf) + fv;
                        push(t, sig, e - 4 * nf as i128, 4 * (ni + nf), sign == "-");
                    }
                }
            }
        }
    }
    out
}

fn parse_valid<const B: Word>(ctx: &mut Ctx) {
    let lits = valid_literals(B as u32, !ctx.quick());
    // the two reference computations (component arithmetic vs recogniser) must agree
    let mut bad = 0;
    for l in &lits {
        match ref_parse(B as u32, &l.text).0 {
            RefParse::Strict { sig, exp, prec } if sig == l.sig && exp == l.exp && prec == l.prec => {}
            other => {
                if bad == 0 {
                    ctx.machinery(format!("reference self-check: literal {:?} base {}: recogniser says {:?}, components say {} * B^{} prec {}", l.text, B, other, l.sig, l.exp, l.prec));
                }
                bad += 1;
            }
        }
    }
    let name = format!("parse.valid.B{}", B);
    let lr = &lits;
    ctx.sweep(&name, lits.len() as u64, |i, rec| {
        let l = &lr[i as usize];
        parse_case::<B>(rec, &l.text);
        // the Repr-level entry point returns the same value and digit count
        rec.step();
        match guard(|| Repr::<B>::from_str_native(&l.text)) {
            Ok(Ok((r, nd))) => {
                if i_to_ref(r.significand()) != l.sig || r.exponent() as i128 != l.exp || nd != l.prec {
                    rec.fail(format!("{}|Repr::from_str_native|wrong-value|B{}", P, B), format!("base {} parse {:?}", B, l.text), format!("{} * {}^{}, {} digits", i_to_ref(r.significand()), B, r.exponent(), nd), format!("{} * {}^{}, {} digits", l.sig, B, l.exp, l.prec));
                }
            }
            Ok(Err(e)) => rec.fail(format!("{}|Repr::from_str_native|rejects-valid|B{}", P, B), format!("base {} parse {:?}", B, l.text), format!("Err({:?})", e), "Ok"),
            Err(pm) => rec.fail(format!("{}|Repr::from_str_native|panic|B{}", P, B), format!("base {} parse {:?}", B, l.text), pm, "Ok"),
        }
        if l.sig.magnitude().bits() > 128 {
            rec.hit("multi-word-significand");
        }
        rec.sample(|| format!("base {} parse {:?} = {} * {}^{} (precision {})", B, l.text, l.sig, B, l.exp, l.prec));
    });
    ctx.require_classes(&name, &["accepted", "accepted:scale", "accepted:point", "accepted:underscore", "accepted:negative", "multi-word-significand"]);
    if B == 2 {
        ctx.require_classes(&name, &["accepted:hex-form"]);
    }
}

fn parse_extreme(ctx: &mut Ctx) {
    // exponents at the limits of isize (both word sizes): representable ones must be exact or
    // refused, unrepresentable ones refused; a panic (overflow check) is never acceptable
    let mut v: Vec<String> = vec![];
    for lim in [i64::MAX as i128, i32::MAX as i128] {
        for d in [-2i128, -1, 0, 1, 2] {
            let e = lim + d;
            for body in ["1", "10", "100", "0.1", "0.01", "1.5", "0", "0.0"] {
                v.push(format!("{}e{}", body, e));
                v.push(format!("{}e-{}", body, e));
                v.push(format!("-{}@{}", body, e));
                v.push(format!("{}@-{}", body, e));
            }
        }
    }
    v.push("1e99999999999999999999999999999999999999999".into());
    v.push("1e-99999999999999999999999999999999999999999".into());
    let vr = &v;
    ctx.sweep("parse.extreme", v.len() as u64 * 2, |i, rec| {
        let s = &vr[(i / 2) as usize];
        if i % 2 == 0 {
            parse_case::<10>(rec, s);
        } else {
            // the same spelled for base 2 (marker b / @, hex form with p)
            let t = s.replace('e', "b").replace("1.5", "1.1").replace("0.01", "0x0.4").replace("100", "0x10");
            let t = if t.contains("0x") { t.replace('b', "p") } else { t };
            parse_case::<2>(rec, &t);
        }
        rec.sample(|| format!("parse {:?}", s));
    });
}

// =============================================================================================
// printing

#[derive(Clone)]
struct FV {
    s: BigInt,
    e: i64,
    digits: usize,
    rat: Rat,
}

fn fvs(base: u32, u: &[(BigInt, i64)]) -> Vec<FV> {
    u.iter().map(|(s, e)| FV { s: s.clone(), e: *e, digits: digits_b(s, base), rat: Rat::scaled(s, base, *e) }).collect()
}

/// a few multi-word significands (not divisible by the base)
fn big_sigs(base: u32) -> Vec<BigInt> {
    let b = BigInt::from(base);
    let lcg = BigInt::from(shape(3, "lcgA", 0)) >> 70usize; // ~120 bits
    let mut l = lcg.clone();
    while (&l % &b).is_zero() {
        l += 1;
    }
    vec![num_traits::pow(b.clone(), 20) + 1, num_traits::pow(b.clone(), 40) - 1, l]
}

/// integer nearest to x in the direction of the mode (the definition of the six modes)
fn round_rat(x: &Rat, m: Mode) -> BigInt {
    let fl = x.floor();
    if x.is_int() {
        return fl;
    }
    let ce = &fl + 1;
    let neg = x.is_neg();
    match m {
        Mode::Down => fl,
        Mode::Up => ce,
        Mode::Zero => {
            if neg {
                ce
            } else {
                fl
            }
        }
        Mode::Away => {
            if neg {
                fl
            } else {
                ce
            }
        }
        Mode::HalfEven | Mode::HalfAway => {
            let twice = x.sub(&Rat::int(fl.clone())).mul(&Rat::from_i(2)); // 2*(x - floor) in (0,2)
            match twice.cmp(&Rat::from_i(1)) {
                std::cmp::Ordering::Less => fl,
                std::cmp::Ordering::Greater => ce,
                std::cmp::Ordering::Equal => {
                    if m == Mode::HalfEven {
                        if (&fl % BigInt::from(2)).is_zero() {
                            fl
                        } else {
                            ce
                        }
                    } else if neg {
                        fl
                    } else {
                        ce
                    }
                }
            }
        }
    }
}

/// `{:.k}`: sign, integer digits, '.', exactly k fraction digits of x rounded to k places.
/// Returns (text, text with '-' when a negative x rounds to zero, class)
fn ref_fixed(x: &Rat, base: u32, k: usize, m: Mode) -> (String, Option<String>, &'static str) {
    let scaled = x.mul(&Rat::int(pow_b(base, k as u64)));
    let y = round_rat(&scaled, m);
    let mut mag = y.magnitude().to_str_radix(base);
    if mag.len() < k + 1 {
        mag = format!("{}{}", "0".repeat(k + 1 - mag.len()), mag);
    }
    let (ip, fp) = mag.split_at(mag.len() - k);
    let body = if k > 0 { format!("{}.{}", ip, fp) } else { ip.to_string() };
    let class = if scaled.is_int() {
        "fixed:exact"
    } else if y.is_zero() {
        "fixed:rounds-to-zero"
    } else if digits_b(&y, base) > digits_b(&scaled.trunc(), base) && !scaled.trunc().is_zero() {
        "fixed:carry-into-new-digit"
    } else if Rat::int(y.clone()).sub(&scaled).abs() == Rat::new(BigInt::one(), BigInt::from(2)) {
        "fixed:tie"
    } else {
        "fixed:inexact"
    };
    if y.is_negative() {
        (format!("-{}", body), None, class)
    } else if y.is_zero() && x.is_neg() {
        (body.clone(), Some(format!("-{}", body)), class)
    } else {
        (body, None, class)
    }
}

/// `{:.ke}`: one digit, '.', k digits of x rounded to k+1 significant digits, marker, exponent
fn ref_sci(x: &Rat, base: u32, k: usize, m: Mode, marker: char, upper: bool) -> (String, &'static str) {
    if x.is_zero() {
        let body = if k > 0 { format!("0.{}", "0".repeat(k)) } else { "0".to_string() };
        return (format!("{}{}0", body, marker), "sci:zero");
    }
    let mut d = x.floor_log(base);
    let scaled = x.div(&Rat::scaled(&BigInt::one(), base, d - k as i64));
    let mut q = round_rat(&scaled, m);
    let mut class = if scaled.is_int() { "sci:exact" } else { "sci:inexact" };
    if q.abs() == pow_b(base, k as u64 + 1) {
        q /= BigInt::from(base);
        d += 1;
        class = "sci:carry-into-new-digit";
    }
    let mut digs = q.magnitude().to_str_radix(base);
    if upper {
        digs = digs.to_uppercase();
    }
    let (ip, fp) = digs.split_at(1);
    let body = if k > 0 { format!("{}.{}", ip, fp) } else { ip.to_string() };
    (format!("{}{}{}{}", if q.is_negative() { "-" } else { "" }, body, marker, d), class)
}

/// read a printed float back with the reference recogniser: Some((sig, exp)) when it is a strict
/// literal of the grammar
fn ref_read(base: u32, s: &str) -> Option<(BigInt, i128)> {
    match ref_parse(base, s).0 {
        RefParse::Strict { sig, exp, .. } => Some((sig, exp)),
        _ => None,
    }
}

fn extra_formats(base: u32, s: &BigInt, e: i64, prec: usize) -> Vec<(&'static str, Result<String, String>)> {
    match base {
        2 => {
            let f = fbig_of::<mode::Zero, 2>(s, e, prec);
            vec![("{:b}", guard(|| format!("{:b}", f))), ("{:x}", guard(|| format!("{:x}", f))), ("{:X}", guard(|| format!("{:X}", f))), ("Repr {:x}", guard(|| format!("{:x}", f.repr())))]
        }
        8 => {
            let f = fbig_of::<mode::Zero, 8>(s, e, prec);
            vec![("{:o}", guard(|| format!("{:o}", f)))]
        }
        16 => {
            let f = fbig_of::<mode::Zero, 16>(s, e, prec);
            vec![("{:x}", guard(|| format!("{:x}", f))), ("{:X}", guard(|| format!("{:X}", f)))]
        }
        _ => vec![],
    }
}

fn print_roundtrip<const B: Word>(ctx: &mut Ctx, p: u32, e: i64) {
    let mut u = f_universe(B as u32, p, e);
    for s in big_sigs(B as u32) {
        for ex in [-e, -45, -21, -1, 0, 1, 7, e] {
            u.push((s.clone(), ex));
            u.push((-s.clone(), ex));
        }
    }
    let vals = fvs(B as u32, &u);
    let name = format!("print.roundtrip.B{}", B);
    let vr = &vals;
    ctx.sweep(&name, vals.len() as u64, |i, rec| {
        let v = &vr[i as usize];
        let prec = v.digits.max(1);
        let f = fbig_of::<mode::HalfEven, B>(&v.s, v.e, prec);
        let want = if v.s.is_zero() { (BigInt::zero(), 0i128) } else { (v.s.clone(), v.e as i128) };
        let case = |fmtname: &str| format!("base {} value {} * {}^{} printed with {}", B, v.s, B, v.e, fmtname);
        let mut outs: Vec<(&'static str, Result<String, String>)> = vec![
            ("{}", guard(|| format!("{}", f))),
            ("{:e}", guard(|| format!("{:e}", f))),
            ("{:E}", guard(|| format!("{:E}", f))),
            ("Repr {}", guard(|| format!("{}", f.repr()))),
            ("Repr {:e}", guard(|| format!("{:e}", f.repr()))),
        ];
        outs.extend(extra_formats(B as u32, &v.s, v.e, prec));
        for (fmtname, out) in outs {
            rec.step();
            let text = match out {
                Ok(t) => t,
                Err(pm) => {
                    rec.fail(format!("{}|FBig::fmt {}|panic|B{}", P, fmtname, B), case(fmtname), pm, "a string");
                    continue;
                }
            };
            // (1) the text denotes the value, by the reference reading of the grammar
            match ref_read(B as u32, &text) {
                Some(r) if r == want => {}
                Some(r) => rec.fail(format!("{}|FBig::fmt {}|prints-wrong-value|B{}", P, fmtname, B), case(fmtname), format!("{:?} which reads as {} * {}^{}", text, r.0, B, r.1), format!("{} * {}^{}", want.0, B, want.1)),
                None => rec.fail(format!("{}|FBig::fmt {}|prints-outside-grammar|B{}", P, fmtname, B), case(fmtname), format!("{:?}", text), "a literal of the documented grammar"),
            }
            // (2) dashu's own parser returns an equal number
            rec.step();
            match guard(|| text.parse::<FBig<mode::HalfEven, B>>()) {
                Ok(Ok(g)) => {
                    let same = guard(|| g == f).unwrap_or(false);
                    if i_to_ref(g.repr().significand()) != want.0 || g.repr().exponent() as i128 != want.1 || !same {
                        rec.fail(format!("{}|FBig::fmt {} then from_str|roundtrip-differs|B{}", P, fmtname, B), case(fmtname), format!("{:?} parsed back as {} * {}^{}", text, i_to_ref(g.repr().significand()), B, g.repr().exponent()), format!("{} * {}^{}", want.0, B, want.1));
                    }
                }
                Ok(Err(e)) => rec.fail(format!("{}|FBig::fmt {} then from_str|roundtrip-rejected|B{}", P, fmtname, B), case(fmtname), format!("{:?} -> Err({:?})", text, e), "Ok(equal number)"),
                Err(pm) => rec.fail(format!("{}|FBig::fmt {} then from_str|panic|B{}", P, fmtname, B), case(fmtname), format!("{:?} -> {}", text, pm), "Ok(equal number)"),
            }
            if fmtname == "{}" {
                let nd = v.digits as i64;
                rec.hit(if v.s.is_zero() {
                    "layout:zero"
                } else if v.e > 0 {
                    "layout:integer-with-appended-zeros"
                } else if v.e == 0 {
                    "layout:integer"
                } else if -v.e >= nd {
                    "layout:fraction-with-leading-zeros"
                } else {
                    "layout:digits-on-both-sides"
                });
            }
        }
        // Debug shows the parts (documented by example in the FBig docs); judged for one-word significands
        if v.s.magnitude().bits() <= 60 {
            rec.step();
            let want_dbg = format!("{} * {} ^ {} (prec: {})", want.0, B, want.1, prec);
            match guard(|| format!("{:?}", f)) {
                Ok(t) if t == want_dbg => {}
                Ok(t) => rec.fail(format!("{}|FBig::fmt {{:?}}|debug-shows-wrong-parts|B{}", P, B), case("{:?}"), t, want_dbg),
                Err(pm) => rec.fail(format!("{}|FBig::fmt {{:?}}|panic|B{}", P, B), case("{:?}"), pm, want_dbg),
            }
        } else {
            rec.hit("multi-word-significand");
        }
        if !v.s.is_zero() {
            rec.nontrivial();
        }
        rec.sample(|| format!("base {}: {} * {}^{} prints as {:?} / {:?}", B, v.s, B, v.e, format!("{}", f), format!("{:e}", f)));
    });
    ctx.require_classes(&name, &["layout:zero", "layout:integer", "layout:integer-with-appended-zeros", "layout:fraction-with-leading-zeros", "layout:digits-on-both-sides", "multi-word-significand"]);
}

/// call `$f::<Mode, ..>(args)` for the mode with index `$im` in fref::MODES
macro_rules! by_mode {
    ($im:expr, $f:ident, [$($g:tt)*], ($($a:expr),*)) => {
        match $im {
            0 => $f::<mode::Zero, $($g)*>($($a),*),
            1 => $f::<mode::Away, $($g)*>($($a),*),
            2 => $f::<mode::Up, $($g)*>($($a),*),
            3 => $f::<mode::Down, $($g)*>($($a),*),
            4 => $f::<mode::HalfEven, $($g)*>($($a),*),
            _ => $f::<mode::HalfAway, $($g)*>($($a),*),
        }
    };
}

fn hit_m(rec: &mut Rec, m: Mode, class: &str) {
    rec.hit(&format!("{}:{}", m.name(), class));
}

fn require_m(ctx: &mut Ctx, sweep: &str, m: Mode, classes: &[&str]) {
    let v: Vec<String> = classes.iter().map(|c| format!("{}:{}", m.name(), c)).collect();
    let r: Vec<&str> = v.iter().map(|x| x.as_str()).collect();
    ctx.require_classes(sweep, &r);
}

fn print_precision<const B: Word>(ctx: &mut Ctx, p: u32, e: i64) {
    let vals = fvs(B as u32, &f_universe(B as u32, p, e));
    let mut ks: Vec<usize> = (0..=(p as usize + 3)).collect();
    ks.push(e as usize + p as usize + 2); // longer than any fraction: zeros are appended
    let (nv, nk) = (vals.len() as u64, ks.len() as u64);
    let name = format!("print.precision.B{}", B);
    let (vr, kr) = (&vals, &ks);
    ctx.sweep(&name, nv * nk * 6, |i, rec| {
        let [iv, ik, im] = unflatten(i, [nv, nk, 6]);
        by_mode!(im, print_precision_case, [B], (rec, &vr[iv], kr[ik]));
    });
    for m in MODES {
        let mut req = vec!["fixed:exact", "fixed:inexact", "sci:exact", "sci:inexact", "sci:zero"];
        if m != Mode::Away {
            req.push("fixed:rounds-to-zero");
        }
        if m != Mode::Zero {
            req.push("fixed:carry-into-new-digit");
            req.push("sci:carry-into-new-digit");
        }
        if B % 2 == 0 {
            req.push("fixed:tie");
        }
        require_m(ctx, &name, m, &req);
    }
}

fn print_precision_case<R: ModeTag, const B: Word>(rec: &mut Rec, v: &FV, k: usize) {
    let marker = if B == 10 { 'e' } else { '@' };
    {
        let f = fbig_of::<R, B>(&v.s, v.e, v.digits.max(1));
        let case = |what: &str| format!("base {} mode {} value {} * {}^{} printed with {{:.{}{}}}", B, R::MODE.name(), v.s, B, v.e, k, what);
        // fixed
        rec.step();
        let (want, alt, class) = ref_fixed(&v.rat, B as u32, k, R::MODE);
        hit_m(rec, R::MODE, class);
        match guard(|| format!("{:.*}", k, f)) {
            Ok(t) => {
                if t == want {
                } else if alt.as_deref() == Some(t.as_str()) {
                    rec.hit("unspecified:minus-sign-on-zero-result");
                } else {
                    let kind = match ref_read(B as u32, &t) {
                        Some(r) if Rat::scaled(&r.0, B as u32, r.1 as i64) == ref_read(B as u32, &want).map(|w| Rat::scaled(&w.0, B as u32, w.1 as i64)).unwrap_or(Rat::zero()) => "right-value-wrong-layout",
                        Some(_) => "wrong-rounding",
                        None => "prints-outside-grammar",
                    };
                    let cls = if kind == "wrong-rounding" { R::MODE.name().to_string() } else { class.to_string() };
                    rec.fail(format!("{}|FBig::fmt {{:.k}}|{}|{}", P, kind, cls), case(""), format!("{:?}", t), format!("{:?}", want));
                }
            }
            Err(pm) => rec.fail(format!("{}|FBig::fmt {{:.k}}|panic|B{},{}", P, B, class), case(""), pm, format!("{:?}", want)),
        }
        if R::MODE == Mode::Zero {
            // Repr has no mode of its own: documented to print like the Zero mode
            rec.step();
            match guard(|| format!("{:.*}", k, f.repr())) {
                Ok(t) if t == want || alt.as_deref() == Some(t.as_str()) => {}
                Ok(t) => rec.fail(format!("{}|Repr::fmt {{:.k}}|differs-from-zero-mode|{}", P, class), case(" (Repr)"), format!("{:?}", t), format!("{:?}", want)),
                Err(pm) => rec.fail(format!("{}|Repr::fmt {{:.k}}|panic|{}", P, class), case(" (Repr)"), pm, format!("{:?}", want)),
            }
        }
        // scientific
        rec.step();
        let (want, class) = ref_sci(&v.rat, B as u32, k, R::MODE, marker, false);
        hit_m(rec, R::MODE, class);
        match guard(|| format!("{:.*e}", k, f)) {
            Ok(t) => {
                if t != want {
                    let val = |s: &str| ref_read(B as u32, s).map(|w| Rat::scaled(&w.0, B as u32, w.1 as i64));
                    let kind = match (val(&t), val(&want)) {
                        (Some(a), Some(b)) if a == b => "right-value-wrong-layout",
                        (Some(_), _) => "wrong-rounding",
                        _ => "prints-outside-grammar",
                    };
                    let cls = if kind == "wrong-rounding" { R::MODE.name().to_string() } else { class.to_string() };
                    rec.fail(format!("{}|FBig::fmt {{:.ke}}|{}|{}", P, kind, cls), case("e"), format!("{:?}", t), format!("{:?}", want));
                }
            }
            Err(pm) => rec.fail(format!("{}|FBig::fmt {{:.ke}}|panic|B{},{}", P, B, class), case("e"), pm, format!("{:?}", want)),
        }
        // the upper-case exponent form must print the same digits (only letter case may differ)
        rec.step();
        match (guard(|| format!("{:.*E}", k, f)), guard(|| format!("{:.*e}", k, f))) {
            (Ok(u), Ok(l)) => {
                if u.to_lowercase() != l.to_lowercase() {
                    rec.fail(format!("{}|FBig::fmt {{:.kE}}|differs-from-lower-case-form|{}", P, R::MODE.name()), case("E"), format!("{:?}", u), format!("{:?} (upper-cased)", l));
                }
            }
            (Err(pm), Ok(_)) => rec.fail(format!("{}|FBig::fmt {{:.kE}}|panic|B{}", P, B), case("E"), pm, "same text as {:.ke}"),
            _ => {}
        }
        if !v.s.is_zero() {
            rec.nontrivial();
        }
        rec.sample(|| format!("base {} {} {} * {}^{} with {{:.{}}} -> {:?}, {{:.{}e}} -> {:?}", B, R::MODE.name(), v.s, B, v.e, k, format!("{:.*}", k, f), k, format!("{:.*e}", k, f)));
    }
}

// =============================================================================================
// with_precision

fn unwrap_rounded<T>(a: Approximation<T, Rounding>) -> (T, Flag) {
    match a {
        Approximation::Exact(v) => (v, Flag::Exact),
        Approximation::Inexact(v, r) => (v, Flag::Inexact(r)),
    }
}

fn with_precision_sweep<const B: Word>(ctx: &mut Ctx, p: u32, e: i64) {
    let vals = fvs(B as u32, &f_universe(B as u32, p, e));
    let tps: Vec<usize> = (0..=(p as usize + 1)).collect();
    let (nv, nt) = (vals.len() as u64, tps.len() as u64);
    let name = format!("with_precision.B{}", B);
    let (vr, tr) = (&vals, &tps);
    ctx.sweep(&name, nv * nt * 2 * 6, |i, rec| {
        let [iv, it, unl, im] = unflatten(i, [nv, nt, 2, 6]);
        by_mode!(im, with_precision_case, [B], (rec, &vr[iv], tr[it], unl, p as usize));
    });
    for m in MODES {
        require_m(ctx, &name, m, &["exact", "shrinks", "representable-in-target"]);
        require_m(ctx, &name, m, inexact_classes(m));
    }
}

fn with_precision_case<R: ModeTag, const B: Word>(rec: &mut Rec, v: &FV, tp: usize, unl: usize, p: usize) {
    {
        let srcp = if unl == 1 { 0 } else { p };
        let srcname = if unl == 1 { "src-unlimited" } else { "src-limited" };
        let case = || format!("base {} mode {}: ({} * {}^{} at precision {}).with_precision({})", B, R::MODE.name(), v.s, B, v.e, srcp, tp);
        rec.step();
        let got = guard(|| fbig_of::<R, B>(&v.s, v.e, srcp).with_precision(tp));
        match got {
            Ok(a) => {
                let (r, flag) = unwrap_rounded(a);
                if r.repr().is_infinite() {
                    rec.fail(format!("{}|FBig::with_precision|infinite-result|B{}", P, B), case(), "infinite", v.rat.show());
                    return;
                }
                let rv = fval(r.repr());
                match judge(&v.rat, &rv, flag, tp, R::MODE) {
                    Ok(class) => {
                        hit_m(rec, R::MODE, class);
                        if tp != 0 && v.digits > tp {
                            hit_m(rec, R::MODE, "shrinks");
                        }
                    }
                    Err((kind, why)) => rec.fail(format!("{}|FBig::with_precision|{}|{}", P, kind, if unl == 1 { srcname.to_string() } else { format!("{},B{},{}", srcname, B, if R::MODE.is_half() { "half" } else { "directed" }) }), case(), format!("{} flag {:?}: {}", rv.show(), flag, why), format!("{} rounded to {} digits in mode {}", v.rat.show(), tp, R::MODE.name())),
                }
                if r.precision() != tp {
                    rec.fail(format!("{}|FBig::with_precision|result-precision|B{}", P, B), case(), format!("precision {}", r.precision()), format!("{}", tp));
                }
                if tp != 0 && rv.digits() > tp {
                    rec.fail(format!("{}|FBig::with_precision|not-rounded|{}", P, srcname), case(), format!("{} has {} digits", rv.show(), rv.digits()), format!("at most {} digits", tp));
                }
                if tp != 0 && representable(&v.rat, B as u32, tp) {
                    hit_m(rec, R::MODE, "representable-in-target");
                }
            }
            Err(pm) => rec.fail(format!("{}|FBig::with_precision|panic|{}", P, srcname), case(), pm, "a rounded value"),
        }
        if !v.s.is_zero() {
            rec.nontrivial();
        }
        rec.sample(|| case());
    }
}

/// with_precision on long significands next to a power of the base (where digit counts estimated
/// from the bit length are off by one): patterns x every target precision around the digit count
fn with_precision_long<const B: Word>(ctx: &mut Ctx, lens: &[usize]) {
    let b = BigInt::from(B);
    let mut u: Vec<(BigInt, i64)> = vec![];
    for &l in lens {
        let top: BigInt = num_traits::pow(b.clone(), l - 1);
        let full: BigInt = &top * &b - 1;
        let mut pats = vec![full.clone(), &full - 1, &full - (B as i64 - 2), &top + 1, &full / 2 + 1];
        for k in [l - 1, l / 2 + 1] {
            if k >= 1 && k < l {
                pats.push((num_traits::pow(b.clone(), k) - 1) * num_traits::pow(b.clone(), l - k) + 1);
            }
        }
        for s in pats {
            if !(&s % &b).is_zero() {
                u.push((s.clone(), 0));
                u.push((-s, -(l as i64) - 3));
            }
        }
    }
    let vals = fvs(B as u32, &u);
    let nv = vals.len() as u64;
    let name = format!("with_precision.long.B{}", B);
    let vr = &vals;
    // target precisions relative to the digit count
    const REL: [i64; 8] = [-1, -2, -3, 0, 1, 3, i64::MIN, i64::MIN + 1];
    ctx.sweep(&name, nv * REL.len() as u64 * 2 * 6, |i, rec| {
        let [iv, it, unl, im] = unflatten(i, [nv, REL.len() as u64, 2, 6]);
        let v = &vr[iv];
        let tp = match REL[it] {
            i64::MIN => 1,
            x if x == i64::MIN + 1 => v.digits / 2,
            d => (v.digits as i64 + d).max(1) as usize,
        };
        by_mode!(im, with_precision_case, [B], (rec, v, tp, unl, v.digits));
    });
    for m in MODES {
        require_m(ctx, &name, m, &["exact", "shrinks"]);
        require_m(ctx, &name, m, inexact_classes(m));
    }
}

fn inexact_classes(m: Mode) -> &'static [&'static str] {
    match m {
        Mode::Zero => &["inexact-noop"],
        Mode::Away => &["inexact-addone", "inexact-subone"],
        Mode::Up => &["inexact-addone", "inexact-noop"],
        Mode::Down => &["inexact-subone", "inexact-noop"],
        _ => &["inexact-addone", "inexact-subone", "inexact-noop"],
    }
}

// =============================================================================================
// base conversion

/// threshold of Context::convert_base (float/src/convert.rs): |exponent| <= this -> exact power
fn small_exp_threshold() -> i64 {
    (Word::BITS as f32 * 0.60206) as i64
}

fn is_pow_of(n: u32, b: u32) -> bool {
    let mut x = b as u64;
    while x < n as u64 {
        x *= b as u64;
    }
    x == n as u64 && n > b
}

fn branch_of(b: u32, nb: u32, s: &BigInt, e: i64) -> &'static str {
    if b == nb {
        // a pure change of precision through the base-conversion entry points
        "same-base"
    } else if is_pow_of(nb, b) {
        "new-base-is-power"
    } else if is_pow_of(b, nb) {
        "old-base-is-power"
    } else if s.is_zero() {
        "zero"
    } else if e.abs() <= small_exp_threshold() {
        if e >= 0 {
            "small-exp>=0"
        } else {
            "small-exp<0"
        }
    } else {
        "large-exp"
    }
}

/// the documented target precision of with_base: max k with NB^k <= B^p
fn documented_precision(b: u32, nb: u32, p: usize) -> usize {
    if p == 0 {
        return 0;
    }
    let lim = pow_b(b, p as u64);
    let mut k = 0usize;
    let mut x = BigInt::from(nb);
    while x <= lim {
        k += 1;
        x *= nb;
    }
    k
}

/// One root cause in Context::convert_base shows through four public wrappers, six modes and many
/// failure kinds; the signature names the branch of convert_base, and buckets the kinds of the
/// (approximate) large-exponent branch.
fn conv_sig(site: &str, kind: &str, branch: &str, fam: &str) -> String {
    const ROUNDING: [&str; 6] = ["error>=1ulp", "error>half-ulp", "wrong-side", "flag-addone-but-below", "flag-subone-but-above", "nonzero-for-zero"];
    const FLAGS: [&str; 2] = ["flag-exact-but-inexact", "flag-inexact-but-exact"];
    if branch == "target-precision-0" {
        return format!("{}|FBig::{}|{}|target-precision-0", P, site, kind);
    }
    if branch == "large-exp" {
        let k = if ROUNDING.contains(&kind) {
            "inaccurate"
        } else if FLAGS.contains(&kind) {
            "wrong-flag"
        } else {
            kind
        };
        format!("{}|Context::convert_base|{}|{}", P, k, branch)
    } else if ROUNDING.contains(&kind) {
        format!("{}|Context::convert_base|{}|{},{}", P, kind, branch, fam)
    } else {
        format!("{}|Context::convert_base|{}|{}", P, kind, branch)
    }
}

#[allow(clippy::too_many_arguments)]
fn judge_conv<R2: Round, const NB: Word>(rec: &mut Rec, site: &str, class: &str, fam: &str, case: &dyn Fn() -> String, x: &Rat, got: Result<Approximation<FBig<R2, NB>, Rounding>, String>, tp: usize, m: Mode, want_prec: Option<usize>) {
    rec.step();
    match got {
        Ok(a) => {
            let (r, flag) = unwrap_rounded(a);
            if r.repr().is_infinite() {
                rec.fail(conv_sig(site, "infinite-result", class, fam), case(), "infinite", x.show());
                return;
            }
            if let Some(wp) = want_prec {
                if r.precision() != wp {
                    rec.fail(format!("{}|FBig::{}|result-precision|{}", P, site, if r.precision() < wp { "below-documented" } else { "above-documented" }), case(), format!("result precision {}", r.precision()), format!("{} (max k with NewB^k <= B^precision)", wp));
                }
            }
            let rv = fval(r.repr());
            // judged against the precision the result claims to carry
            let jp = want_prec.map(|_| r.precision()).unwrap_or(tp);
            match judge(x, &rv, flag, jp, m) {
                Ok(c) => hit_m(rec, m, c),
                Err((kind, why)) => rec.fail(conv_sig(site, kind, class, fam), case(), format!("{} flag {:?} (precision {}): {}", rv.show(), flag, r.precision(), why), format!("{} rounded to {} base-{} digits in mode {}", x.show(), jp, NB, m.name())),
            }
            if want_prec.is_none() && r.precision() != tp {
                rec.fail(format!("{}|FBig::{}|result-precision|{}", P, site, class), case(), format!("result precision {}", r.precision()), format!("{}", tp));
            }
        }
        Err(pm) => {
            let kind = if is_internal_panic(&pm) { "internal-panic" } else { "panic" };
            rec.fail(conv_sig(site, kind, class, fam), case(), pm, format!("{} rounded to {} base-{} digits in mode {}", x.show(), tp, NB, m.name()));
        }
    }
}

#[allow(non_upper_case_globals)]
fn conv_sweep<const B: Word, const NB: Word>(ctx: &mut Ctx, vals: &[FV], tps: &[usize], srcps: &[usize], tag: &str) {
    let (nv, nt) = (vals.len() as u64, tps.len() as u64);
    let name = format!("conv.{}.B{}toB{}", tag, B, NB);
    ctx.sweep(&name, nv * nt * 6, |i, rec| {
        let [iv, it, im] = unflatten(i, [nv, nt, 6]);
        by_mode!(im, conv_case, [B, NB], (rec, &vals[iv], tps[it], it, srcps));
    });
    if tag == "small" {
        for m in MODES {
            require_m(ctx, &name, m, &["representable-in-target", "exact"]);
        }
        ctx.require_classes(&name, &["with_base:documented-precision>0"]);
        ctx.require_classes(&name, if NB > B && !is_pow_of(NB as u32, B as u32) { &["with_base:documented-precision-0"] } else { &[] });
    }
}

#[allow(non_upper_case_globals)]
fn conv_case<R: ModeTag, const B: Word, const NB: Word>(rec: &mut Rec, v: &FV, tp: usize, it: usize, srcps: &[usize]) {
    let fam = if R::MODE.is_half() { "half" } else { "directed" };
    {
        let br = branch_of(B as u32, NB as u32, &v.s, v.e);
        rec.hit(&format!("branch:{}", br));
        let srcp = v.digits.max(1);
        let case = move || format!("mode {}: ({} * {}^{}, precision {}).with_base_and_precision::<{}>({})", R::MODE.name(), v.s, B, v.e, srcp, NB, tp);
        judge_conv::<R, NB>(rec, "with_base_and_precision", br, fam, &case, &v.rat, guard(|| fbig_of::<R, B>(&v.s, v.e, srcp).with_base_and_precision::<NB>(tp)), tp, R::MODE, None);
        if tp != 0 && representable(&v.rat, NB as u32, tp) {
            hit_m(rec, R::MODE, "representable-in-target");
        }
        if it == 0 {
            // with_base: documented choice of the target precision, for several source precisions
            for &sp in srcps {
                if sp < v.digits {
                    continue;
                }
                let wp = documented_precision(B as u32, NB as u32, sp);
                let cls = if wp == 0 { "target-precision-0".to_string() } else { br.to_string() };
                if wp == 0 {
                    rec.hit("with_base:documented-precision-0");
                } else {
                    rec.hit("with_base:documented-precision>0");
                }
                let case = move || format!("mode {}: ({} * {}^{}, precision {}).with_base::<{}>()", R::MODE.name(), v.s, B, v.e, sp, NB);
                judge_conv::<R, NB>(rec, "with_base", &cls, fam, &case, &v.rat, guard(|| fbig_of::<R, B>(&v.s, v.e, sp).with_base::<NB>()), wp, R::MODE, Some(wp));
                // to_decimal / to_binary fix the mode themselves: run once (in the Zero instantiation)
                if R::MODE == Mode::Zero && wp != 0 {
                    if NB == 10 {
                        let case = move || format!("({} * {}^{}, precision {}).to_decimal()", v.s, B, v.e, sp);
                        judge_conv::<mode::HalfAway, 10>(rec, "to_decimal", br, "half", &case, &v.rat, guard(|| fbig_of::<R, B>(&v.s, v.e, sp).to_decimal()), wp, Mode::HalfAway, Some(wp));
                    }
                    if NB == 2 {
                        let case = move || format!("({} * {}^{}, precision {}).to_binary()", v.s, B, v.e, sp);
                        judge_conv::<mode::Zero, 2>(rec, "to_binary", br, "directed", &case, &v.rat, guard(|| fbig_of::<R, B>(&v.s, v.e, sp).to_binary()), wp, Mode::Zero, Some(wp));
                    }
                }
            }
            // unlimited precision: only power-related bases convert, the others panic as documented
            rec.step();
            let got = guard(|| fbig_of::<R, B>(&v.s, v.e, 0).with_base_and_precision::<NB>(0));
            let case0 = || format!("({} * {}^{}, unlimited precision).with_base_and_precision::<{}>(0)", v.s, B, v.e, NB);
            if br == "new-base-is-power" || br == "old-base-is-power" || br == "same-base" {
                match got {
                    Ok(a) => {
                        let (r, flag) = unwrap_rounded(a);
                        if fval(r.repr()).rat() != v.rat || flag != Flag::Exact {
                            rec.fail(format!("{}|FBig::with_base_and_precision|inexact-at-unlimited-precision|{}", P, br), case0(), format!("{} flag {:?}", fval(r.repr()).show(), flag), format!("Exact({})", v.rat.show()));
                        } else {
                            rec.hit("unlimited:exact");
                        }
                    }
                    Err(pm) => rec.fail(format!("{}|FBig::with_base_and_precision|panic|{},unlimited", P, br), case0(), pm, "Exact"),
                }
            } else {
                match got {
                    Err(pm) if !is_internal_panic(&pm) => rec.hit("unlimited:documented-panic"),
                    Err(pm) => rec.fail(format!("{}|FBig::with_base_and_precision|internal-panic|unlimited", P), case0(), pm, "the documented unlimited-precision panic"),
                    Ok(_) => rec.fail(format!("{}|FBig::with_base_and_precision|missing-panic|unlimited", P), case0(), "returned a value", "the documented unlimited-precision panic"),
                }
            }
        }
        if !v.s.is_zero() {
            rec.nontrivial();
        }
        rec.sample(&case);
    }
}

/// source universes of the conversion sweeps for one source base: (small-exponent, large-exponent)
fn conv_universe(base: u32, p: u32, p_large: u32, quick: bool) -> (Vec<FV>, Vec<FV>) {
    let thr = small_exp_threshold();
    let mut exps: Vec<i64> = (-8..=8).collect();
    for x in [19i64, 20, 37, 38, 39, 40, 100, 1000] {
        if quick && (x == 37 || x == 20) {
            continue;
        }
        exps.push(x);
        exps.push(-x);
    }
    let (lim, lim_large) = ((base as i64).pow(p), (base as i64).pow(p_large));
    let (mut small, mut large) = (vec![(BigInt::zero(), 0i64)], vec![]);
    for s in 1..lim {
        if s % base as i64 == 0 {
            continue;
        }
        for &ex in &exps {
            for sg in [1i64, -1] {
                let item = (BigInt::from(sg * s), ex);
                if ex.abs() <= thr {
                    small.push(item);
                } else if s < lim_large {
                    large.push(item);
                }
            }
        }
    }
    (fvs(base, &small), fvs(base, &large))
}

fn conv_from<const B: Word>(ctx: &mut Ctx, p: u32, p_large: u32) {
    let quick = ctx.quick();
    let (small, large) = conv_universe(B as u32, p, p_large, quick);
    let tps: Vec<usize> = vec![1, 2, 5, 17];
    // source precisions for with_base: the digit bound, some larger ones, and tiny ones (1..3
    // digits give a documented target precision of 0 for larger target bases)
    let srcps: Vec<usize> = vec![1, 2, 3, p as usize, p as usize + 3, 10, 24];
    macro_rules! to {
        ($nb:expr) => {
            // (the target base may equal the source base: a pure change of precision)
            conv_sweep::<B, $nb>(ctx, &small, &tps, &srcps, "small");
            conv_sweep::<B, $nb>(ctx, &large, &tps, &srcps, "large");
        };
    }
    to!(2);
    to!(3);
    to!(10);
    to!(16);
}

// =============================================================================================
// f32 / f64 import

fn from_floats(ctx: &mut Ctx) {
    let m32: Vec<u32> = if ctx.quick() { vec![0, 1, 2, 3, 0x40_0000, 0x7F_FFFF, 0x55_5555, 0x2A_AAAA, 0x7F_FFFE, 0x00_0100, 0x70_0000, 0x0F_F000] } else { (0..23).map(|k| 1u32 << k).chain((1..23).map(|k| (1u32 << k) - 1)).chain([0, 0x7F_FFFF, 0x55_5555, 0x2A_AAAA, 0x7F_FFFE, 0x70_0000, 0x0F_F000, 0x12_3456]).collect() };
    let n32 = m32.len() as u64;
    let mr = &m32;
    ctx.sweep("from_f32", 256 * n32 * 2, |i, rec| {
        let [ef, im, sg] = unflatten(i, [256, n32, 2]);
        let bits = ((sg as u32) << 31) | ((ef as u32) << 23) | mr[im];
        let f = f32::from_bits(bits);
        let (mant, e) = if ef == 0 { (mr[im] as i64, -126 - 23) } else { ((mr[im] | (1 << 23)) as i64, ef as i64 - 127 - 23) };
        let want = Rat::scaled(&BigInt::from(if sg == 1 { -mant } else { mant }), 2, e);
        float_case(rec, "f32", format!("f32::from_bits({:#010x}) = {:e}", bits, f), ef == 255, mr[im] != 0, sg == 1, &want, guard(|| FBig::<mode::Zero, 2>::try_from(f)), guard(|| Repr::<2>::try_from(f)));
        rec.sample(|| format!("f32::from_bits({:#010x})", bits));
    });
    ctx.require_classes("from_f32", &["finite", "subnormal", "zero", "infinite", "nan"]);
    let m64: Vec<u64> = if ctx.quick() { vec![0, 1, 2, 3, 1 << 51, (1 << 52) - 1, 0x5_5555_5555_5555, 0xA_AAAA_AAAA_AAAA, (1 << 52) - 2, 1 << 32, 0xF_0000_0000_0000, 0x0_0000_FFFF_0000] } else { (0..52).map(|k| 1u64 << k).chain((1..52).map(|k| (1u64 << k) - 1)).chain([0, (1 << 52) - 1, 0x5_5555_5555_5555, 0xA_AAAA_AAAA_AAAA, (1 << 52) - 2, 0xF_0000_0000_0000, 0x1_2345_6789_ABCD]).collect() };
    let n64 = m64.len() as u64;
    let mr = &m64;
    ctx.sweep("from_f64", 2048 * n64 * 2, |i, rec| {
        let [ef, im, sg] = unflatten(i, [2048, n64, 2]);
        let bits = ((sg as u64) << 63) | ((ef as u64) << 52) | mr[im];
        let f = f64::from_bits(bits);
        let (mant, e) = if ef == 0 { (mr[im] as i64, -1022 - 52) } else { ((mr[im] | (1 << 52)) as i64, ef as i64 - 1023 - 52) };
        let want = Rat::scaled(&BigInt::from(if sg == 1 { -mant } else { mant }), 2, e);
        float_case(rec, "f64", format!("f64::from_bits({:#018x}) = {:e}", bits, f), ef == 2047, mr[im] != 0, sg == 1, &want, guard(|| FBig::<mode::Zero, 2>::try_from(f)), guard(|| Repr::<2>::try_from(f)));
        rec.sample(|| format!("f64::from_bits({:#018x})", bits));
    });
    ctx.require_classes("from_f64", &["finite", "subnormal", "zero", "infinite", "nan"]);
}

#[allow(clippy::too_many_arguments)]
fn float_case<E: std::fmt::Debug>(rec: &mut Rec, ty: &str, case: String, special: bool, mant_nonzero: bool, neg: bool, want: &Rat, got_f: Result<Result<FBig<mode::Zero, 2>, E>, String>, got_r: Result<Result<Repr<2>, E>, String>) {
    rec.steps(2);
    let reprs: [(&str, Result<Result<(Repr<2>, Option<usize>), E>, String>); 2] = [("FBig", got_f.map(|r| r.map(|f| (f.repr().clone(), Some(f.precision()))))), ("Repr", got_r.map(|r| r.map(|x| (x, None))))];
    for (site, got) in reprs {
        let site = format!("{}::try_from({})", site, ty);
        match got {
            Err(pm) => rec.fail(format!("{}|{}|panic|{}", P, site, if special { "special" } else { "finite" }), case.clone(), pm, "Ok / Err"),
            Ok(Err(e)) => {
                if special && mant_nonzero {
                    rec.hit("nan");
                } else {
                    rec.fail(format!("{}|{}|refused|{}", P, site, if special { "infinity" } else { "finite" }), case.clone(), format!("Err({:?})", e), if special { "an infinity".to_string() } else { format!("Ok({})", want.show()) });
                }
            }
            Ok(Ok((r, prec))) => {
                if special && mant_nonzero {
                    rec.fail(format!("{}|{}|nan-accepted|nan", P, site), case.clone(), format!("Ok({})", fval(&r).show()), "Err (NaN is documented to be refused)");
                } else if special {
                    let ok = r.is_infinite() && (r.sign() == dashu_base::Sign::Negative) == neg;
                    if ok {
                        rec.hit("infinite");
                    } else {
                        rec.fail(format!("{}|{}|wrong-value|infinity", P, site), case.clone(), format!("{}", fval(&r).show()), "the infinity of the same sign");
                    }
                } else {
                    if r.is_infinite() || &fval(&r).rat() != want {
                        rec.fail(format!("{}|{}|wrong-value|{}", P, site, if want.is_zero() { "zero" } else { "finite" }), case.clone(), fval(&r).show(), want.show());
                    } else {
                        rec.hit(if want.is_zero() { "zero" } else { "finite" });
                        if !want.is_zero() && site.starts_with("FBig") {
                            rec.nontrivial();
                        }
                    }
                    if let Some(p) = prec {
                        // the value must fit the precision the result claims (p = 0: unlimited)
                        let d = fval(&r).digits();
                        if p != 0 && d > p {
                            rec.fail(format!("{}|{}|precision-below-digits|finite", P, site), case.clone(), format!("precision {} for a {}-bit significand", p, d), "precision >= digits");
                        }
                    }
                }
            }
        }
    }
    if !special && !want.is_zero() && want.abs() < Rat::scaled(&BigInt::one(), 2, if ty == "f32" { -126 } else { -1022 }) {
        rec.hit("subnormal");
    }
}

// =============================================================================================

fn self_check(ctx: &mut Ctx) {
    let st = |s: i64, e: i128, p: usize| RefParse::Strict { sig: BigInt::from(s), exp: e, prec: p };
    let cases: Vec<(u32, &str, RefParse)> = vec![
        (10, "-1.23400e-3", st(-1234, -6, 6)),
        (10, "-123.4@-05", st(-1234, -6, 4)),
        (10, "12.34000", st(1234, -2, 7)),
        (10, "00012.34", st(1234, -2, 7)),
        (10, ".5", st(5, -1, 1)),
        (10, "5.", st(5, 0, 1)),
        (10, "1_000", st(1, 3, 4)),
        (10, "0e7", st(0, 0, 1)),
        (2, "0x1.8p1", st(3, 0, 8)),
        (2, "0x1.234p-4", st(1165, -14, 16)),
        (2, "-0x1234", st(-1165, 2, 16)),
        (2, "1.01b3", st(5, 1, 3)),
        (16, "1.234", st(0x1234, -3, 4)),
        (16, "f.fh-1", st(0xff, -2, 2)),
        (8, "7.1o2", st(57, 1, 2)),
        (36, "z@1", st(35, 1, 1)),
        (10, "-0x1.234p-3", RefParse::Reject("invalid-digit")),
        (10, "-1.234H-3", RefParse::Reject("invalid-digit")),
        (10, ".", RefParse::Reject("no-digits")),
        (10, "", RefParse::Reject("no-digits")),
        (10, "1.+5", RefParse::Reject("sign-in-fraction")),
        (10, "-+5", RefParse::Reject("double-sign")),
        (10, "1+5", RefParse::Reject("misplaced-sign")),
        (10, "1e", RefParse::Reject("empty-exponent")),
        (10, "1.2.3", RefParse::Reject("second-point")),
        (2, "1p3", RefParse::Reject("invalid-digit")),
        (2, "0x.p1", RefParse::Reject("no-digits")),
    ];
    for (b, s, want) in cases {
        let got = ref_parse(b, s).0;
        if got != want {
            ctx.machinery(format!("reference self-check: ref_parse({}, {:?}) = {:?}, hand value {:?}", b, s, got, want));
        }
    }
    // rounding definition on hand-computed cases: x = n/4 at the six modes (Zero Away Up Down HalfEven HalfAway)
    let table: [(i64, [i64; 6]); 6] = [(5, [1, 2, 2, 1, 1, 1]), (6, [1, 2, 2, 1, 2, 2]), (10, [2, 3, 3, 2, 2, 3]), (-6, [-1, -2, -1, -2, -2, -2]), (-10, [-2, -3, -2, -3, -2, -3]), (-7, [-1, -2, -1, -2, -2, -2])];
    for (n, want) in table {
        for (k, m) in MODES.iter().enumerate() {
            let got = round_rat(&Rat::new(BigInt::from(n), BigInt::from(4)), *m);
            if got != BigInt::from(want[k]) {
                ctx.machinery(format!("reference self-check: round({}/4, {}) = {}, hand value {}", n, m.name(), got, want[k]));
            }
        }
    }
    let x = Rat::new(BigInt::from(-9996), BigInt::from(1000));
    let checks = [
        (ref_fixed(&x, 10, 2, Mode::HalfEven).0, "-10.00"),
        (ref_fixed(&x, 10, 0, Mode::Zero).0, "-9"),
        (ref_fixed(&Rat::new(BigInt::from(4), BigInt::from(1000)), 10, 2, Mode::Up).0, "0.01"),
        (ref_fixed(&Rat::from_i(1200), 10, 1, Mode::Down).0, "1200.0"),
        (ref_sci(&x, 10, 2, Mode::HalfEven, 'e', false).0, "-1.00e1"),
        (ref_sci(&x, 10, 3, Mode::Zero, 'e', false).0, "-9.996e0"),
        (ref_sci(&Rat::new(BigInt::from(5), BigInt::from(16)), 2, 1, Mode::Zero, '@', false).0, "1.0@-2"),
    ];
    for (got, want) in checks {
        if got != want {
            ctx.machinery(format!("reference self-check: layout {:?}, hand value {:?}", got, want));
        }
    }
    if documented_precision(2, 10, 10) != 3 || documented_precision(2, 10, 3) != 0 || documented_precision(10, 2, 3) != 9 || documented_precision(2, 16, 8) != 2 || documented_precision(16, 2, 2) != 8 {
        ctx.machinery("reference self-check: documented_precision");
    }
    let j = judge(&Rat::new(BigInt::from(1234), BigInt::from(1000)), &FVal { sig: BigInt::from(12), exp: -1, base: 10 }, Flag::Inexact(Rounding::NoOp), 2, Mode::Zero).is_ok() && judge(&Rat::new(BigInt::from(1234), BigInt::from(1000)), &FVal { sig: BigInt::from(12), exp: -1, base: 10 }, Flag::Exact, 2, Mode::Zero).is_err();
    if !j {
        ctx.machinery("reference self-check: rounding-contract judge");
    }
}

pub fn run(ctx: &mut Ctx) {
    ctx.rule = "parse: every string of length <= L over the per-base alphabet (16 symbols + the base's exponent marker) and every literal of a component grammar, each judged by an independent recogniser of the documented grammar (value compared as normalised (significand, exponent), precision = written digits); print: every value s*B^e of F(B,P,E) (|s| < B^P, B does not divide s, |e| <= E, both signs, plus multi-word significands) through every formatting trait, read back by the recogniser and by dashu's parser, and through {:.k}/{:.ke} for every k and mode against a reference layout of the exactly rounded value; with_precision and base conversions: every value x target precision x mode (x ordered base pair of {2,3,10,16}), judged against the exact rational by the rounding contract; f32/f64 import: every exponent field x listed mantissa patterns x sign. non-trivial = non-zero value".into();
    ctx.assume("the documented grammar is the one in the docs of FBig::from_str_native plus digit-separating underscores (digits(_digits)*); other underscore placements, the 0X prefix, underscores in the exponent, '@' after the hex form and exponents within 4096 of the isize limits are not judged beyond 'no panic' and 'if accepted, the obvious reading'");
    ctx.assume("exact rationals over num_bigint::BigInt are the reference; ties of half modes are judged exactly for printing (the mode table in round.rs) and as <= 1/2 ulp for conversions");
    ctx.assume("a negative value that rounds to zero may print with or without '-'");
    self_check(ctx);
    let quick = ctx.quick();

    // ---- (a) parsing
    let l = ctx.pick(5u32, 6u32);
    ctx.bound("parse.max_string_length", l);
    parse_strings::<2>(ctx, l);
    parse_strings::<10>(ctx, l);
    parse_strings::<16>(ctx, l);
    if !quick {
        parse_strings::<8>(ctx, l);
        parse_strings::<36>(ctx, l);
    }
    parse_valid::<2>(ctx);
    parse_valid::<10>(ctx);
    parse_valid::<16>(ctx);
    parse_valid::<8>(ctx);
    parse_valid::<36>(ctx);
    parse_valid::<3>(ctx);
    parse_extreme(ctx);

    // ---- (b) printing
    let e = ctx.pick(24i64, 60i64);
    let (p2, p10, p16) = ctx.pick((5u32, 2u32, 2u32), (7u32, 3u32, 2u32));
    ctx.bound("print.F(B,P,E)", serde_json::json!({"B2": [p2, e], "B10": [p10, e], "B16": [p16, e], "B8": [2, e], "B3": [3, e], "B36": [1, e]}));
    print_roundtrip::<2>(ctx, p2, e);
    print_roundtrip::<10>(ctx, p10, e);
    print_roundtrip::<16>(ctx, p16, e);
    let p8 = ctx.pick(1u32, 2u32);
    print_roundtrip::<8>(ctx, p8, e);
    if !quick {
        print_roundtrip::<3>(ctx, 3, e);
        print_roundtrip::<36>(ctx, 1, e);
    }
    let ep = ctx.pick(9i64, 14i64);
    ctx.bound("print.precision.E", ep);
    print_precision::<2>(ctx, p2, ep);
    print_precision::<10>(ctx, p10, ep);
    print_precision::<16>(ctx, p16, ep);
    if !quick {
        print_precision::<3>(ctx, 3, ep);
    }

    // ---- (c) with_precision
    let (w2, w10) = ctx.pick((6u32, 3u32), (8u32, 4u32));
    let ew = ctx.pick(4i64, 8i64);
    ctx.bound("with_precision.F(B,P,E)", serde_json::json!({"B2": [w2, ew], "B10": [w10, ew], "B3": [3, ew], "B16": [2, ew]}));
    with_precision_sweep::<2>(ctx, w2, ew);
    with_precision_sweep::<10>(ctx, w10, ew);
    with_precision_sweep::<3>(ctx, 3, ew);
    with_precision_sweep::<16>(ctx, 2, ew);

    let (wl2, wl10): (Vec<usize>, Vec<usize>) = if quick { (vec![19, 20, 21, 24, 33, 64, 65], vec![6, 7, 8, 9, 10, 20]) } else { (vec![8, 19, 20, 21, 22, 24, 25, 32, 33, 53, 64, 65, 128, 129, 200], vec![5, 6, 7, 8, 9, 10, 11, 19, 20, 21, 39, 40, 78]) };
    ctx.bound("with_precision.long.digit_counts", serde_json::json!({"B2": wl2, "B10": wl10, "B3(thorough)": [13, 14, 20, 41], "B16(thorough)": [5, 6, 16, 17]}));
    with_precision_long::<2>(ctx, &wl2);
    with_precision_long::<10>(ctx, &wl10);
    if !quick {
        with_precision_long::<3>(ctx, &[13, 14, 20, 41]);
        with_precision_long::<16>(ctx, &[5, 6, 16, 17]);
    }

    // ---- (d) base conversion
    ctx.bound("conv.small_exp_threshold", small_exp_threshold());
    ctx.bound("conv.target_precisions", serde_json::json!([1, 2, 5, 17]));
    ctx.bound("conv.exponents", serde_json::json!("-8..=8 and +-{19,20,37,38,39,40,100,1000} (quick: without 20, 37)"));
    let (c2, c3, c10, c16) = ctx.pick((5u32, 3u32, 2u32, 2u32), (7u32, 4u32, 3u32, 2u32));
    let (l2, l3, l10, l16) = ctx.pick((4u32, 2u32, 1u32, 1u32), (6u32, 3u32, 2u32, 2u32));
    ctx.bound("conv.source_digit_bound", serde_json::json!({"small-exponent": {"B2": c2, "B3": c3, "B10": c10, "B16": c16}, "large-exponent": {"B2": l2, "B3": l3, "B10": l10, "B16": l16}}));
    conv_from::<2>(ctx, c2, l2);
    conv_from::<3>(ctx, c3, l3);
    conv_from::<10>(ctx, c10, l10);
    conv_from::<16>(ctx, c16, l16);

    // ---- (e) IEEE import
    from_floats(ctx);
}
