//! C17 — memory safety and storage invariants of the hand-managed integer: BFS over all
//! operation histories of a pool of live values (capacity in the state key), tracking-allocator
//! monitors on every transition, storage invariants and reference value in every state.

use crate::core::Ctx;
use crate::explore::{explore, Cfg};

pub fn run(ctx: &mut Ctx) {
    ctx.rule = "breadth-first exploration of all operation histories (alphabet: clone_from, clone-assign, mem::take, x op= &y / y.clone() / &x.clone(), x = &x op &y for + - * / % & | ^, shifts, neg, pow, byte/word/parts round trips, set/clear bit, split_bits, clear_high_bits, ones, re-initialisation, reading a static value, IBig<->UBig moves) over a pool of 2 IBig + 1 UBig from 3 start pools, up to the stated depth and word bound; a state = (sign, words, exact capacity) of every slot; every state is checked for: value == num_bigint mirror, <=2 words inline, heap values >= 3 words without leading zero word, len <= capacity <= compact bound, zero never negative, capacity field == real allocation size (allocator header), and every transition runs under the tracking allocator (red zones, layout-exact free, double free, write-after-free quarantine) with a leak check after the pool is dropped. non-trivial = transition executed and all invariants evaluated".into();
    ctx.assume("out-of-bounds *reads* are only caught when the value read influences a result (fresh memory is filled with 0xCD, freed memory with 0xDD)");
    ctx.assume("the storage probe is the cfg(dashu_verif) hook verif_repr_probe; its capacity is cross-checked against the allocator's own header");
    let cfg = Cfg {
        prop: "C17",
        with_capacity: true,
        with_order: false,
        max_words: 12,
        depth: ctx.pick(3, 4),
        full_alphabet: !ctx.quick(),
        max_states_per_level: ctx.pick(60_000, 400_000),
    };
    explore(ctx, &cfg);
    ctx.require_classes("bfs.depth1", &["transition:inline->heap", "transition:heap->inline", "transition:heap-reallocated", "new-state", "pruned:precondition(div by 0 / unsigned underflow)"]);
}
