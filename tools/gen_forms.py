#!/usr/bin/env python3
"""Generates /verif/harness/dv/src/gen_forms.rs: one closure per operator/ops-trait impl found in
the rustdoc JSON of the working tree (dashu-int, dashu-float, dashu-ratio).  C15 (all call forms
agree) enumerates these forms; an impl of a covered trait that cannot be turned into a closure is
listed in UNCOVERED so that silent omission is impossible.

usage: gen_forms.py [--repo /repo] [--out path] [--target-dir dir]
"""
import json, os, subprocess, sys

args = sys.argv[1:]
def opt(name, default):
    return args[args.index(name) + 1] if name in args else default
REPO = opt('--repo', os.environ.get('DV_REPO', '/repo'))
HERE = os.path.dirname(os.path.abspath(__file__))
OUT = opt('--out', os.path.join(os.path.dirname(HERE), 'harness', 'dv', 'src', 'gen_forms.rs'))
TARGET = opt('--target-dir', os.path.join(os.path.dirname(HERE), 'harness', 'target-rustdoc'))

CRATES = [('dashu-int', 'dashu_int', []), ('dashu-float', 'dashu_float', []), ('dashu-ratio', 'dashu_ratio', ['--features', 'dashu-float'])]
PRIMS = ['u8', 'u16', 'u32', 'u64', 'u128', 'usize', 'i8', 'i16', 'i32', 'i64', 'i128', 'isize']

# trait -> (family, method, kind)   kind: bin | assign | un | divremassign
TRAITS = {
    'Add': ('add', 'add', 'bin'), 'Sub': ('sub', 'sub', 'bin'), 'Mul': ('mul', 'mul', 'bin'), 'Div': ('div', 'div', 'bin'), 'Rem': ('rem', 'rem', 'bin'),
    'BitAnd': ('bitand', 'bitand', 'bin'), 'BitOr': ('bitor', 'bitor', 'bin'), 'BitXor': ('bitxor', 'bitxor', 'bin'),
    'Shl': ('shl', 'shl', 'bin'), 'Shr': ('shr', 'shr', 'bin'),
    'AddAssign': ('add', 'add_assign', 'assign'), 'SubAssign': ('sub', 'sub_assign', 'assign'), 'MulAssign': ('mul', 'mul_assign', 'assign'),
    'DivAssign': ('div', 'div_assign', 'assign'), 'RemAssign': ('rem', 'rem_assign', 'assign'),
    'BitAndAssign': ('bitand', 'bitand_assign', 'assign'), 'BitOrAssign': ('bitor', 'bitor_assign', 'assign'), 'BitXorAssign': ('bitxor', 'bitxor_assign', 'assign'),
    'ShlAssign': ('shl', 'shl_assign', 'assign'), 'ShrAssign': ('shr', 'shr_assign', 'assign'),
    'DivRem': ('divrem', 'div_rem', 'bin'), 'DivEuclid': ('diveuclid', 'div_euclid', 'bin'), 'RemEuclid': ('remeuclid', 'rem_euclid', 'bin'),
    'DivRemEuclid': ('divremeuclid', 'div_rem_euclid', 'bin'), 'DivRemAssign': ('divrem', 'div_rem_assign', 'divremassign'),
    'Gcd': ('gcd', 'gcd', 'bin'), 'ExtendedGcd': ('gcdext', 'gcd_ext', 'bin'),
    'Neg': ('neg', 'neg', 'un'), 'Not': ('not', 'not', 'un'), 'Abs': ('abs', 'abs', 'un'), 'UnsignedAbs': ('unsignedabs', 'unsigned_abs', 'un'),
    'Inverse': ('inv', 'inv', 'un'),
}
TRAIT_PATH = {
    'DivRem': 'dashu_base::DivRem', 'DivEuclid': 'dashu_base::DivEuclid', 'RemEuclid': 'dashu_base::RemEuclid', 'DivRemEuclid': 'dashu_base::DivRemEuclid',
    'DivRemAssign': 'dashu_base::DivRemAssign', 'Gcd': 'dashu_base::Gcd', 'ExtendedGcd': 'dashu_base::ExtendedGcd', 'Abs': 'dashu_base::Abs',
    'UnsignedAbs': 'dashu_base::UnsignedAbs', 'Inverse': 'dashu_base::Inverse',
}
# concrete instantiation of the named types in generated code
NAMED = {'UBig': 'UBig', 'IBig': 'IBig', 'RBig': 'RBig', 'Relaxed': 'Relaxed', 'FBig': 'F', 'ConstDivisor': 'ConstDivisor', 'Reduced': "Reduced<'static>", 'Sign': 'Sign'}

def ty(t):
    """-> (rust type without refs, nrefs) or None"""
    if t is None:
        return None
    if 'borrowed_ref' in t:
        if t['borrowed_ref'].get('is_mutable'):
            return None
        r = ty(t['borrowed_ref']['type'])
        return None if r is None else (r[0], r[1] + 1)
    if 'primitive' in t:
        return (t['primitive'], 0) if t['primitive'] in PRIMS else None
    if 'resolved_path' in t:
        name = t['resolved_path']['path'].split('::')[-1]
        if name in NAMED:
            return (NAMED[name], 0)
        return None
    if 'generic' in t and t['generic'] == 'Self':
        return ('Self', 0)
    if 'tuple' in t:
        parts = [ty(x) for x in t['tuple']]
        if any(p is None or p[1] for p in parts):
            return None
        return ('(' + ', '.join(p[0] for p in parts) + ')', 0)
    return None

def docjson(pkg, mod, extra):
    env = dict(os.environ, CARGO_TARGET_DIR=TARGET, CARGO_NET_OFFLINE='true')
    cmd = ['cargo', '+nightly', 'rustdoc', '--offline', '-p', pkg, '--lib'] + extra + ['--', '-Zunstable-options', '--output-format', 'json']
    r = subprocess.run(cmd, cwd=REPO, env=env, capture_output=True, text=True)
    if r.returncode != 0:
        sys.stderr.write(r.stderr[-3000:])
        sys.exit(2)
    return json.load(open(os.path.join(TARGET, 'doc', mod + '.json')))

forms, uncovered, seen = [], [], set()
api = set()  # public inherent methods of the number types: "Type::method"
API_TYPES = {'UBig', 'IBig', 'FBig', 'RBig', 'Relaxed', 'ConstDivisor', 'Reduced', 'Repr', 'Context'}
for pkg, mod, extra in CRATES:
    d = docjson(pkg, mod, extra)
    for k, v in d['index'].items():
        im = v['inner'].get('impl') if isinstance(v['inner'], dict) else None
        if im and not im.get('trait') and 'resolved_path' in im['for']:
            tname = im['for']['resolved_path']['path'].split('::')[-1]
            if tname in API_TYPES:
                for it in im['items']:
                    item = d['index'].get(str(it))
                    if item and isinstance(item['inner'], dict) and 'function' in item['inner'] and item.get('visibility') == 'public' and item.get('name'):
                        api.add(f"{tname}::{item['name']}")
    for k, v in d['index'].items():
        im = v['inner'].get('impl') if isinstance(v['inner'], dict) else None
        if not im or not im.get('trait'):
            continue
        tname = im['trait']['path'].split('::')[-1]
        if tname not in TRAITS:
            continue
        fam, method, kind = TRAITS[tname]
        lhs = ty(im['for'])
        targs = (im['trait'].get('args') or {}).get('angle_bracketed', {}).get('args', [])
        rhs = None
        if kind != 'un':
            if targs:
                rhs = ty(targs[0].get('type'))
                if rhs and rhs[0] == 'Self':
                    rhs = lhs
            else:
                rhs = (lhs[0], 0) if lhs else None
        # output type(s)
        outs = []
        for it in im['items']:
            item = d['index'][str(it)]
            at = item['inner'].get('assoc_type') if isinstance(item['inner'], dict) else None
            if at and at.get('type'):
                o = ty(at['type'])
                outs.append(o[0] if o and o[1] == 0 else None)
        desc = f"impl {tname}" + (f"<{'&' * rhs[1]}{rhs[0]}>" if rhs else '') + f" for {'&' * lhs[1]}{lhs[0]}" if lhs and (kind == 'un' or rhs) else None
        if lhs is None or (kind != 'un' and rhs is None) or any(o is None for o in outs):
            uncovered.append(f"{mod}: impl {tname} for {json.dumps(im['for'])[:120]} (args {json.dumps(targs)[:120]})")
            continue
        if 'Reduced' in lhs[0] or (rhs and 'Reduced' in rhs[0]) or 'Sign' in (lhs[0], rhs[0] if rhs else ''):
            # ring elements need a shared ring instance / Sign is not a number: covered by hand-written forms in c15.rs
            uncovered.append(f"{mod}: {desc} [hand-written group]")
            continue
        key = (mod if lhs[0] in ('F',) else '', desc)
        if key in seen:
            continue
        seen.add(key)
        if kind in ('assign', 'divremassign'):
            out = lhs[0] if kind == 'assign' else '(' + lhs[0] + ', ' + (outs[0] if outs else '?') + ')'
        else:
            out = outs[0] if len(outs) == 1 else '(' + ', '.join(outs) + ')' if outs else '?'
        forms.append(dict(mod=mod, trait=tname, fam=fam, method=method, kind=kind, lhs=lhs, rhs=rhs, out=out, desc=desc))

def tstr(t):
    return '&' * t[1] + t[0]
def operand(var, t):
    return ('&' * t[1]) + var
def tpath(tr):
    return TRAIT_PATH.get(tr, 'core::ops::' + tr)

lines = []
lines.append('// @generated by /verif/tools/gen_forms.py from the rustdoc JSON of the working tree — do not edit')
lines.append('#[allow(unused_imports, clippy::all)]')
lines.append('pub fn forms() -> Vec<Form> {')
lines.append('    let mut v: Vec<Form> = Vec::new();')
for f in sorted(forms, key=lambda f: (f['fam'], f['out'], f['desc'])):
    L, R = f['lhs'], f['rhs']
    tp = tpath(f['trait'])
    mk = f"let x = <{L[0]} as Mk>::mk(a)?;" + (f" let y = <{R[0]} as Mk>::mk(b)?;" if R else '')
    if f['kind'] == 'bin':
        expr = f"<{tstr(L)} as {tp}<{tstr(R)}>>::{f['method']}({operand('x', L)}, {operand('y', R)})"
    elif f['kind'] == 'un':
        expr = f"<{tstr(L)} as {tp}>::{f['method']}({operand('x', L)})"
    elif f['kind'] == 'assign':
        if L[1]:
            uncovered.append(f"{f['mod']}: {f['desc']} (assign on a reference)")
            continue
        expr = f"{{ let mut x = x; <{L[0]} as {tp}<{tstr(R)}>>::{f['method']}(&mut x, {operand('y', R)}); x }}"
    else:
        if L[1]:
            uncovered.append(f"{f['mod']}: {f['desc']} (assign on a reference)")
            continue
        expr = f"{{ let mut x = x; let r = <{L[0]} as {tp}<{tstr(R)}>>::{f['method']}(&mut x, {operand('y', R)}); (x, r) }}"
    arity = 1 if f['kind'] == 'un' else 2
    lines.append(f"    v.push(Form {{ fam: \"{f['fam']}\", out: \"{f['out']}\", desc: \"{f['desc']}\", arity: {arity}, f: |a: &Val, b: &Val| {{ let _ = b; {mk} Some(guard(move || out({expr}))) }} }});")
lines.append('    v')
lines.append('}')
lines.append('')
lines.append('pub const UNCOVERED: &[&str] = &[')
for u in sorted(set(uncovered)):
    lines.append('    ' + json.dumps(u) + ',')
lines.append('];')
lines.append('')
lines.append('/// public inherent methods of the number types (inventory for the C16 coverage report)')
lines.append('pub const API: &[&str] = &[')
for a in sorted(api):
    lines.append('    ' + json.dumps(a) + ',')
lines.append('];')
new = '\n'.join(lines) + '\n'
old = open(OUT).read() if os.path.exists(OUT) else ''
if new != old:
    open(OUT, 'w').write(new)
print(f"forms: {len(forms)}  uncovered: {len(set(uncovered))}  -> {OUT}" + ('' if new != old else '  (unchanged)'))
