//! State-space explorer over histories of a small pool of live integers (DESIGN §3.2).
//! Pool = two IBig + one UBig.  A state is identified by the canonical key of the pool
//! (sign, words and — for C17 — exact capacity of every slot) and stored as the shortest operation
//! path reaching it; it is re-materialised by replaying that path on fresh values, because live
//! values cannot be copied without losing their capacity.  Every transition executes the real
//! operation and the same operation on the reference pool (num_bigint); invariants are evaluated in
//! every state.  Used by C17 (capacity in the key, memory monitors) and C05 (value key, ==/cmp/hash).

use crate::alloc;
use crate::core::{guard, Ctx, Mode, Rec};
use crate::uni::*;
use dashu_base::{AbsOrd, UnsignedAbs};
use dashu_int::{IBig, Sign, UBig, Word};
use num_bigint::{BigInt, BigUint, Sign as NSign};
use num_traits::{One, Signed, Zero};
use std::collections::HashMap;
use std::hash::{Hash, Hasher};
use std::sync::Mutex;

pub use crate::ops::*;

// ---------------------------------------------------------------------------------------------
// observation of a pool: key + invariant violations

pub struct Cfg {
    pub prop: &'static str,
    pub with_capacity: bool, // key includes capacity; storage invariants + allocator view checked
    pub with_order: bool,    // ==, cmp, hash, abs_cmp against the canonical construction
    pub max_words: usize,
    pub depth: usize,
    pub full_alphabet: bool,
    pub max_states_per_level: usize,
}

fn slot_key(out: &mut Vec<u8>, sign: Sign, words: &[Word], cap: isize, with_cap: bool) {
    out.push(if sign == Sign::Negative { 1 } else { 0 });
    out.extend_from_slice(&(words.len() as u32).to_le_bytes());
    if with_cap {
        out.extend_from_slice(&(cap.unsigned_abs() as u32).to_le_bytes());
    }
    for w in words {
        out.extend_from_slice(&(*w as u64).to_le_bytes());
    }
}

fn hash2<T: Hash>(x: &T) -> (u64, u64) {
    let mut h1 = std::collections::hash_map::DefaultHasher::new();
    x.hash(&mut h1);
    struct Fnv(u64);
    impl Hasher for Fnv {
        fn finish(&self) -> u64 {
            self.0
        }
        fn write(&mut self, bytes: &[u8]) {
            for b in bytes {
                self.0 ^= *b as u64;
                self.0 = self.0.wrapping_mul(0x100000001b3);
            }
        }
    }
    let mut h2 = Fnv(0xcbf29ce484222325);
    x.hash(&mut h2);
    (h1.finish(), h2.finish())
}

/// storage invariants of one value (C17): returns a violation kind
fn storage_check(probe: (isize, usize, bool), words: &[Word], self_addr: usize, self_size: usize, is_static: bool) -> Option<String> {
    let (cap_signed, len, inline) = probe;
    let cap = cap_signed.unsigned_abs();
    if len != words.len() {
        return Some(format!("len-field-mismatch: probe len {} vs {} words", len, words.len()));
    }
    if len <= 2 && !inline {
        return Some(format!("small-value-on-heap: {} words with capacity {}", len, cap));
    }
    if len == 0 && cap_signed < 0 {
        return Some("negative-zero".into());
    }
    if !inline {
        if len < 3 {
            return Some(format!("heap-value-shorter-than-3-words: len {}", len));
        }
        if words[len - 1] == 0 {
            return Some("leading-zero-word".into());
        }
        let max_compact = len + len / 4 + 4;
        if cap < len {
            return Some(format!("capacity-below-length: cap {} len {}", cap, len));
        }
        if cap > max_compact {
            return Some(format!("capacity-above-compact-bound: cap {} len {} bound {}", cap, len, max_compact));
        }
        if !is_static {
            // allocator view must agree with the hand-maintained capacity field
            match unsafe { alloc::header_of(words.as_ptr() as *const u8) } {
                Some((size, _align)) => {
                    if size != cap * std::mem::size_of::<Word>() {
                        return Some(format!("capacity-field-differs-from-allocation: cap {} words, allocation {} bytes", cap, size));
                    }
                }
                None => return Some("heap-pointer-not-an-allocation".into()),
            }
        }
    } else {
        if len == 2 && words[1] == 0 || len == 1 && words[0] == 0 {
            return Some("leading-zero-word(inline)".into());
        }
        let p = words.as_ptr() as usize;
        if len > 0 && !(p >= self_addr && p + len * std::mem::size_of::<Word>() <= self_addr + self_size) {
            return Some("inline-words-outside-the-value".into());
        }
    }
    None
}

pub struct Obs {
    pub key: Vec<u8>,
    pub problems: Vec<(String, String, String)>, // (kind-for-signature, observed, expected)
}

pub fn observe(p: &Pool, m: &Mirror, cfg: &Cfg) -> Obs {
    let mut key = Vec::with_capacity(128);
    let mut problems = vec![];
    for k in 0..2 {
        let x = &p.i[k];
        let (sign, words) = x.as_sign_words();
        let probe = x.verif_repr_probe();
        slot_key(&mut key, sign, words, probe.0, cfg.with_capacity);
        let got = i_to_ref(x);
        if got != m.i[k] {
            problems.push((format!("wrong-value|IBig slot {}", k), hex(&got), hex(&m.i[k])));
        }
        if cfg.with_capacity {
            if let Some(v) = storage_check(probe, words, x as *const IBig as usize, std::mem::size_of::<IBig>(), false) {
                let kind = v.split(':').next().unwrap().to_string();
                problems.push((format!("storage-invariant|{}", kind), v, "documented storage invariants of a live integer".into()));
            }
        }
    }
    {
        let x = &p.u;
        let words = x.as_words();
        let probe = x.verif_repr_probe();
        slot_key(&mut key, Sign::Positive, words, probe.0, cfg.with_capacity);
        let got = u_to_ref(x);
        if got != m.u {
            problems.push(("wrong-value|UBig slot".into(), hexu(&got), hexu(&m.u)));
        }
        if cfg.with_capacity {
            if probe.0 < 0 {
                problems.push(("storage-invariant|negative-ubig".into(), "UBig with a negative sign flag".into(), "positive".into()));
            }
            if let Some(v) = storage_check(probe, words, x as *const UBig as usize, std::mem::size_of::<UBig>(), false) {
                let kind = v.split(':').next().unwrap().to_string();
                problems.push((format!("storage-invariant|{}", kind), v, "documented storage invariants of a live integer".into()));
            }
        }
    }
    if cfg.with_order && problems.is_empty() {
        // every live value against the canonical construction of the same mathematical value
        for k in 0..2 {
            let x = &p.i[k];
            let c = ref_to_i(&m.i[k]);
            if !(x == &c && &c == x) {
                problems.push(("eq-vs-canonical|IBig".into(), format!("{} != canonical construction of the same value", hex(&m.i[k])), "==".into()));
            }
            if x.cmp(&c) != std::cmp::Ordering::Equal || c.cmp(x) != std::cmp::Ordering::Equal {
                problems.push(("cmp-vs-canonical|IBig".into(), format!("{:?}", x.cmp(&c)), "Equal".into()));
            }
            if hash2(x) != hash2(&c) {
                problems.push(("hash-vs-canonical|IBig".into(), "hash differs from the canonical construction".into(), "equal hashes".into()));
            }
            if x.abs_cmp(&c) != std::cmp::Ordering::Equal {
                problems.push(("abs_cmp-vs-canonical|IBig".into(), format!("{:?}", x.abs_cmp(&c)), "Equal".into()));
            }
        }
        let cu = ref_to_u(&m.u);
        if !(p.u == cu && cu == p.u) {
            problems.push(("eq-vs-canonical|UBig".into(), format!("{} != canonical construction", hexu(&m.u)), "==".into()));
        }
        if p.u.cmp(&cu) != std::cmp::Ordering::Equal || cu.cmp(&p.u) != std::cmp::Ordering::Equal {
            problems.push(("cmp-vs-canonical|UBig".into(), format!("{:?}", p.u.cmp(&cu)), "Equal".into()));
        }
        if hash2(&p.u) != hash2(&cu) {
            problems.push(("hash-vs-canonical|UBig".into(), "hash differs".into(), "equal hashes".into()));
        }
        // pairwise order among live values
        let want = m.i[0].cmp(&m.i[1]);
        if p.i[0].cmp(&p.i[1]) != want || p.i[1].cmp(&p.i[0]) != want.reverse() {
            problems.push(("cmp-pair|IBig,IBig".into(), format!("{:?}", p.i[0].cmp(&p.i[1])), format!("{:?}", want)));
        }
        if (p.i[0] == p.i[1]) != (want == std::cmp::Ordering::Equal) {
            problems.push(("eq-pair|IBig,IBig".into(), format!("{}", p.i[0] == p.i[1]), format!("{}", want == std::cmp::Ordering::Equal)));
        }
        if (want == std::cmp::Ordering::Equal) && hash2(&p.i[0]) != hash2(&p.i[1]) {
            problems.push(("hash-pair|IBig,IBig".into(), "equal values hash differently".into(), "equal hashes".into()));
        }
        let wabs = m.i[0].magnitude().cmp(&m.u);
        if p.i[0].abs_cmp(&p.u) != wabs {
            problems.push(("abs_cmp-pair|IBig,UBig".into(), format!("{:?}", p.i[0].abs_cmp(&p.u)), format!("{:?}", wabs)));
        }
        let wub = m.i[1].cmp(&BigInt::from(m.u.clone()));
        if p.i[1].cmp(p.u.as_ibig()) != wub {
            problems.push(("cmp-pair|IBig,UBig.as_ibig".into(), format!("{:?}", p.i[1].cmp(p.u.as_ibig())), format!("{:?}", wub)));
        }
    }
    Obs { key, problems }
}

// ---------------------------------------------------------------------------------------------

#[derive(Clone)]
struct Node {
    start: u8,
    path: Vec<u16>,
    mirror: Mirror,
}

fn path_text(start: u8, path: &[u16], ops: &[Op]) -> String {
    let names: Vec<String> = path.iter().map(|&o| format!("{:?}", ops[o as usize])).collect();
    format!("start pool #{} ; {}", start, names.join(" ; "))
}

fn payload_of(start: u8, path: &[u16]) -> String {
    let mut s = format!("{}", start);
    for o in path {
        s.push_str(&format!(",{}", o));
    }
    s
}

/// Execute a whole path step by step with full checking (used by replay and for the
/// transition cover); returns the problems found.
fn run_path(cfg: &Cfg, ops: &[Op], start: u8, path: &[u16], rec: &mut Rec) {
    let starts = start_pools();
    let mut m = starts[start as usize].clone();
    let desc = path_text(start, path, ops);
    crate::core::arm_fatal(crate::core::FatalCase { sweep: "path".into(), payload: Some(payload_of(start, path)), site: "history".into(), case: desc.clone() });
    let res = guard(|| {
        let mut probs = vec![];
        let live0 = alloc::live_bytes();
        let mut pool = build_pool(&m);
        let mut obs_bytes = 0isize;
        for (step, &o) in path.iter().enumerate() {
            let op = ops[o as usize];
            if apply_ref(&mut m, op, cfg.max_words).is_err() {
                probs.push((format!("replay|step {} not applicable", step), String::new(), String::new()));
                break;
            }
            apply_real(&mut pool, op);
            let l0 = alloc::live_bytes();
            let obs = observe(&pool, &m, cfg);
            if !obs.problems.is_empty() {
                for mut p in obs.problems {
                    p.1 = format!("after step {} ({:?}): {}", step, op, p.1);
                    probs.push(p);
                }
                break;
            }
            drop(obs);
            obs_bytes += alloc::live_bytes() - l0;
        }
        let had = !probs.is_empty();
        drop(pool);
        let live1 = alloc::live_bytes() - obs_bytes;
        (probs, if had { live0 } else { live1 }, live0)
    });
    crate::core::disarm_fatal();
    match res {
        Ok((probs, live1, live0)) => {
            for (kind, o, e) in &probs {
                rec.fail(format!("{}|history|{}", cfg.prop, kind), desc.clone(), o.clone(), e.clone());
            }
            if probs.is_empty() && cfg.with_capacity && live1 != live0 {
                rec.fail(format!("{}|history|memory|leak", cfg.prop), desc, format!("{} bytes still allocated after every value of the history was dropped", live1 - live0), "0 bytes");
            }
        }
        Err(p) => rec.fail(format!("{}|history|panic|{}", cfg.prop, crate::core::panic_class(&p)), desc, p, "no panic on a valid history"),
    }
}

pub fn explore(ctx: &mut Ctx, cfg: &Cfg) {
    let ops = alphabet(cfg.full_alphabet);
    let nops = ops.len() as u64;
    ctx.bound("alphabet_size", nops);
    ctx.bound("depth", cfg.depth as u64);
    ctx.bound("max_words_per_value", cfg.max_words as u64);
    ctx.bound("pool", "2 x IBig + 1 x UBig");
    let opsr = &ops;

    // replay of one recorded path (only runs in Replay mode; carries the payload)
    if let Mode::Replay { sweep, payload, .. } = ctx.mode.clone() {
        if sweep == "path" {
            let pl = payload.unwrap_or_default();
            let nums: Vec<u16> = pl.split(',').filter_map(|s| s.parse().ok()).collect();
            ctx.sweep("path", 1, |_, rec| {
                if nums.is_empty() {
                    return;
                }
                run_path(cfg, opsr, nums[0] as u8, &nums[1..], rec);
            });
        }
        return;
    }

    // transition cover: shortest path per (operation, storage transition of each slot), replayed
    // under Miri by the thorough tier of C17
    let cover: Mutex<HashMap<String, (usize, String)>> = Mutex::new(HashMap::new());
    let coverr = &cover;
    let starts = start_pools();
    let mut seen: HashMap<Vec<u8>, ()> = HashMap::new();
    let mut frontier: Vec<Node> = vec![];
    for (k, m) in starts.iter().enumerate() {
        let pool = build_pool(m);
        let obs = observe(&pool, m, cfg);
        if seen.insert(obs.key, ()).is_none() {
            frontier.push(Node { start: k as u8, path: vec![], mirror: m.clone() });
        }
    }
    let mut total_states = frontier.len() as u64;
    let mut capped = false;
    for depth in 0..cfg.depth {
        let nf = frontier.len() as u64;
        if nf == 0 {
            break;
        }
        const SHARDS: usize = 64;
        let next: Vec<Mutex<HashMap<Vec<u8>, (u64, Mirror)>>> = (0..SHARDS).map(|_| Mutex::new(HashMap::new())).collect();
        let last_level = depth + 1 == cfg.depth;
        let fps: Vec<Mutex<std::collections::HashSet<u64>>> = (0..SHARDS).map(|_| Mutex::new(std::collections::HashSet::new())).collect();
        let fpsr = &fps;
        let fr = &frontier;
        let seenr = &seen;
        let nextr = &next;
        let name = format!("bfs.depth{}", depth + 1);
        ctx.sweep(&name, nf * nops, |i, rec| {
            let (si, oi) = ((i / nops) as usize, (i % nops) as usize);
            let node = &fr[si];
            let op = opsr[oi];
            let mut m = node.mirror.clone();
            match apply_ref(&mut m, op, cfg.max_words) {
                Err(Skip::Precondition) => {
                    rec.hit("pruned:precondition(div by 0 / unsigned underflow)");
                    return;
                }
                Err(Skip::TooLarge) => {
                    rec.hit("pruned:value-above-word-bound");
                    return;
                }
                Ok(()) => {}
            }
            let starts = start_pools();
            {
                let mut path = node.path.clone();
                path.push(oi as u16);
                crate::core::arm_fatal(crate::core::FatalCase { sweep: "path".into(), payload: Some(payload_of(node.start, &path)), site: "history".into(), case: path_text(node.start, &path, opsr) });
            }
            let res = guard(|| {
                // re-materialise the state by replaying its path on fresh values
                let live0 = alloc::live_bytes();
                let mut pool = build_pool(&starts[node.start as usize]);
                for &o in &node.path {
                    apply_real(&mut pool, opsr[o as usize]);
                }
                let cap_before = [pool.i[0].verif_repr_probe(), pool.i[1].verif_repr_probe(), pool.u.verif_repr_probe()];
                apply_real(&mut pool, op);
                let l0 = alloc::live_bytes();
                let obs = observe(&pool, &m, cfg);
                let obs_bytes = alloc::live_bytes() - l0;
                let cap_after = [pool.i[0].verif_repr_probe(), pool.i[1].verif_repr_probe(), pool.u.verif_repr_probe()];
                drop(pool);
                let leaked = alloc::live_bytes() - obs_bytes - live0;
                (obs, cap_before, cap_after, leaked)
            });
            crate::core::disarm_fatal();
            rec.step();
            let mut path = node.path.clone();
            path.push(oi as u16);
            rec.replay_as("path", payload_of(node.start, &path));
            match res {
                Ok((obs, before, after, leaked)) => {
                    if cfg.with_capacity && obs.problems.is_empty() {
                        let mut key = format!("{:?}", op);
                        for k in 0..3 {
                            key.push(match (before[k].2, after[k].2) {
                                (true, true) => 'i',
                                (true, false) => 'G',
                                (false, true) => 'S',
                                (false, false) => if before[k].0.unsigned_abs() != after[k].0.unsigned_abs() { 'R' } else { 'h' },
                            });
                        }
                        let pl = payload_of(node.start, &path);
                        let mut g = coverr.lock().unwrap();
                        let better = match g.get(&key) {
                            Some((l, p)) => (path.len(), &pl) < (*l, p),
                            None => true,
                        };
                        if better {
                            g.insert(key, (path.len(), pl));
                        }
                    }
                    for k in 0..3 {
                        match (before[k].2, after[k].2) {
                            (true, false) => rec.hit("transition:inline->heap"),
                            (false, true) => rec.hit("transition:heap->inline"),
                            (false, false) if before[k].0.unsigned_abs() != after[k].0.unsigned_abs() => rec.hit("transition:heap-reallocated"),
                            _ => {}
                        }
                    }
                    if !obs.problems.is_empty() {
                        let desc = path_text(node.start, &path, opsr);
                        for (kind, o, e) in &obs.problems {
                            rec.fail(format!("{}|history|{}", cfg.prop, kind), desc.clone(), format!("after {:?}: {}", op, o), e.clone());
                        }
                        return; // do not expand states that already violate an invariant
                    }
                    if cfg.with_capacity && leaked != 0 {
                        rec.fail(format!("{}|history|memory|leak", cfg.prop), path_text(node.start, &path, opsr), format!("{} bytes still allocated after every value of the history was dropped", leaked), "0 bytes");
                        return;
                    }
                    rec.nontrivial();
                    if last_level {
                        // states of the last level are only counted (64-bit fingerprints), not stored
                        if !seenr.contains_key(&obs.key) {
                            let fp = crate::explore::fnv(&obs.key);
                            if fpsr[(fp % SHARDS as u64) as usize].lock().unwrap().insert(fp) {
                                rec.hit("new-state");
                            } else {
                                rec.hit("revisit");
                            }
                        } else {
                            rec.hit("revisit");
                        }
                    } else if !seenr.contains_key(&obs.key) {
                        let shard = (crate::explore::fnv(&obs.key) % SHARDS as u64) as usize;
                        let mut g = nextr[shard].lock().unwrap();
                        match g.get_mut(&obs.key) {
                            Some(e) => {
                                if i < e.0 {
                                    *e = (i, m);
                                }
                            }
                            None => {
                                g.insert(obs.key, (i, m));
                            }
                        }
                        rec.hit("new-state");
                    } else {
                        rec.hit("revisit");
                    }
                    rec.sample(|| path_text(node.start, &path, opsr));
                }
                Err(pm) => {
                    rec.fail(format!("{}|history|panic|{}", cfg.prop, crate::core::panic_class(&pm)), path_text(node.start, &path, opsr), pm, "no panic on a valid history");
                }
            }
        });
        if !matches!(ctx.mode, Mode::Run) {
            return;
        }
        // next frontier, deterministic order
        let mut nodes: Vec<(u64, Vec<u8>, Mirror)> = vec![];
        for sh in next {
            for (k, (i, m)) in sh.into_inner().unwrap() {
                nodes.push((i, k, m));
            }
        }
        nodes.sort_by(|a, b| a.0.cmp(&b.0));
        let mut nf2 = vec![];
        for (i, k, m) in nodes {
            let (si, oi) = ((i / nops) as usize, (i % nops) as usize);
            seen.insert(k, ());
            let mut path = frontier[si].path.clone();
            path.push(oi as u16);
            nf2.push(Node { start: frontier[si].start, path, mirror: m });
        }
        let last_new: usize = fps.iter().map(|m| m.lock().unwrap().len()).sum();
        total_states += nf2.len() as u64 + last_new as u64;
        if last_level {
            if let Some(s) = ctx.sweeps.last_mut() {
                s.extra.insert("new_states".into(), serde_json::json!(last_new));
                s.extra.insert("states_so_far".into(), serde_json::json!(total_states));
                s.states = last_new as u64;
            }
            break;
        }
        if let Some(s) = ctx.sweeps.last_mut() {
            s.extra.insert("new_states".into(), serde_json::json!(nf2.len()));
            s.extra.insert("states_so_far".into(), serde_json::json!(total_states));
            s.states = nf2.len() as u64;
        }
        if nf2.len() > cfg.max_states_per_level && depth + 1 < cfg.depth {
            capped = true;
            ctx.bound("frontier_cap_hit_at_depth", (depth + 1) as u64);
            nf2.truncate(cfg.max_states_per_level);
        }
        frontier = nf2;
    }
    ctx.bound("distinct_states", total_states);
    if cfg.with_capacity && matches!(ctx.mode, Mode::Run) {
        let g = cover.lock().unwrap();
        let mut lines: Vec<&String> = g.values().map(|(_, p)| p).collect();
        lines.sort();
        lines.dedup();
        let path = format!("{}/replays/{}-transition-cover.txt", crate::core::verif_root(), cfg.prop);
        let _ = std::fs::create_dir_all(format!("{}/replays", crate::core::verif_root()));
        let head = format!("# alphabet {}\n", if cfg.full_alphabet { "full" } else { "quick" });
        let _ = std::fs::write(&path, head + &lines.iter().map(|s| s.as_str()).collect::<Vec<_>>().join("\n") + "\n");
        ctx.bound("transition_cover_paths", lines.len() as u64);
    }
    if capped {
        // a capped frontier is reported, never called exhaustive
        if let Some(s) = ctx.sweeps.last_mut() {
            s.exhaustive = false;
        }
        ctx.assume("the frontier cap was hit: deeper levels expand only the first max_states_per_level states of the capped level (reported as exhaustive:false)");
    }
}

pub fn fnv(b: &[u8]) -> u64 {
    let mut h: u64 = 0xcbf29ce484222325;
    for x in b {
        h ^= *x as u64;
        h = h.wrapping_mul(0x100000001b3);
    }
    h
}

#[allow(dead_code)]
pub fn unused(_: &BigInt) -> bool {
    BigInt::zero().is_negative()
}
