//! dv — bounded exhaustive exploration of cmpute/dashu against reference models.
//! One subcommand per property (c01 … c20).  See /verif/DESIGN.md.

mod alloc;
mod core;
mod uni;
mod h;
mod ops;
mod fref;
#[cfg(not(feature = "lite"))]
mod explore;
#[cfg(not(feature = "lite"))]
mod c01;
#[cfg(not(feature = "lite"))]
mod c02;
#[cfg(not(feature = "lite"))]
mod c03;
#[cfg(not(feature = "lite"))]
mod c04;
#[cfg(not(feature = "lite"))]
mod c05;
#[cfg(not(feature = "lite"))]
mod c06;
#[cfg(not(feature = "lite"))]
mod c07;
#[cfg(not(feature = "lite"))]
mod c08;
#[cfg(not(feature = "lite"))]
mod c09;
#[cfg(not(feature = "lite"))]
mod c10;
#[cfg(not(feature = "lite"))]
mod c11;
#[cfg(not(feature = "lite"))]
mod c12;
#[cfg(not(feature = "lite"))]
mod c13;
#[cfg(not(feature = "lite"))]
mod c14;
mod c15;
mod c16;
#[cfg(not(feature = "lite"))]
mod c17;
#[cfg(not(feature = "lite"))]
mod c18;
mod c19;
#[cfg(not(feature = "lite"))]
mod c20;

#[global_allocator]
static GLOBAL: alloc::Tracking = alloc::Tracking;

use crate::core::{Ctx, Mode, Tier};

type CheckFn = fn(&mut Ctx);

fn registry() -> Vec<(&'static str, CheckFn)> {
    let mut v: Vec<(&'static str, CheckFn)> = Vec::new();
    #[cfg(not(feature = "lite"))]
    v.push(("C01", c01::run as CheckFn));
    #[cfg(not(feature = "lite"))]
    v.push(("C02", c02::run as CheckFn));
    #[cfg(not(feature = "lite"))]
    v.push(("C03", c03::run as CheckFn));
    #[cfg(not(feature = "lite"))]
    v.push(("C04", c04::run as CheckFn));
    #[cfg(not(feature = "lite"))]
    v.push(("C05", c05::run as CheckFn));
    #[cfg(not(feature = "lite"))]
    v.push(("C06", c06::run as CheckFn));
    #[cfg(not(feature = "lite"))]
    v.push(("C07", c07::run as CheckFn));
    #[cfg(not(feature = "lite"))]
    v.push(("C08", c08::run as CheckFn));
    #[cfg(not(feature = "lite"))]
    v.push(("C09", c09::run as CheckFn));
    #[cfg(not(feature = "lite"))]
    v.push(("C10", c10::run as CheckFn));
    #[cfg(not(feature = "lite"))]
    v.push(("C11", c11::run as CheckFn));
    #[cfg(not(feature = "lite"))]
    v.push(("C12", c12::run as CheckFn));
    #[cfg(not(feature = "lite"))]
    v.push(("C13", c13::run as CheckFn));
    #[cfg(not(feature = "lite"))]
    v.push(("C14", c14::run as CheckFn));
    v.push(("C15", c15::run as CheckFn));
    v.push(("C16", c16::run as CheckFn));
    #[cfg(not(feature = "lite"))]
    v.push(("C17", c17::run as CheckFn));
    #[cfg(not(feature = "lite"))]
    v.push(("C18", c18::run as CheckFn));
    v.push(("C19", c19::run as CheckFn));
    #[cfg(not(feature = "lite"))]
    v.push(("C20", c20::run as CheckFn));
    v
}

fn usage() -> ! {
    eprintln!("usage: dv <c01..c20> [--tier quick|thorough] [--seed N] [--replay file] [--worker sweep lo hi [--verbose]]");
    std::process::exit(2);
}

fn main() {
    let args: Vec<String> = std::env::args().collect();
    if args.len() < 2 {
        usage();
    }
    let id = args[1].to_uppercase();
    let reg = registry();
    let (prop, f) = match reg.iter().find(|(p, _)| *p == id) {
        Some(x) => *x,
        None => {
            eprintln!("MACHINERY: unknown check {}", id);
            std::process::exit(2);
        }
    };
    let mut tier = match std::env::var("VERIF_TIER").as_deref() {
        Ok("thorough") => Tier::Thorough,
        _ => Tier::Quick,
    };
    let mut seed: u64 = std::env::var("VERIF_SEED").ok().and_then(|s| s.parse::<i128>().ok()).map(|v| v as u64).unwrap_or(0);
    let mut mode = Mode::Run;
    let mut i = 2;
    while i < args.len() {
        match args[i].as_str() {
            "--tier" => {
                tier = if args.get(i + 1).map(|s| s.as_str()) == Some("thorough") { Tier::Thorough } else { Tier::Quick };
                i += 2;
            }
            "--seed" => {
                seed = args.get(i + 1).and_then(|s| s.parse::<i128>().ok()).map(|v| v as u64).unwrap_or(0);
                i += 2;
            }
            "--worker" => {
                let sweep = args[i + 1].clone();
                let lo = args[i + 2].parse().unwrap();
                let hi = args[i + 3].parse().unwrap();
                mode = Mode::Worker { sweep, lo, hi, verbose: false };
                i += 4;
            }
            "--verbose" => {
                if let Mode::Worker { verbose, .. } = &mut mode {
                    *verbose = true;
                }
                i += 1;
            }
            "--replay" => {
                let path = args.get(i + 1).cloned().unwrap_or_else(|| usage());
                let txt = std::fs::read_to_string(&path).unwrap_or_else(|e| {
                    eprintln!("MACHINERY: cannot read replay file {}: {}", path, e);
                    std::process::exit(2)
                });
                let j: serde_json::Value = serde_json::from_str(&txt).unwrap_or_else(|e| {
                    eprintln!("MACHINERY: bad replay file {}: {}", path, e);
                    std::process::exit(2)
                });
                if j["tier"].as_str() == Some("thorough") {
                    tier = Tier::Thorough;
                } else {
                    tier = Tier::Quick;
                }
                seed = j["seed"].as_u64().unwrap_or(0);
                mode = Mode::Replay {
                    sweep: j["sweep"].as_str().unwrap_or("").to_string(),
                    index: j["index"].as_u64().unwrap_or(0),
                    payload: j["payload"].as_str().map(|s| s.to_string()),
                };
                println!("replay of {}: {}", j["signature"], j["case"]);
                i += 2;
            }
            _ => usage(),
        }
    }
    core::install_panic_hook();
    let mut ctx = Ctx::new(prop, tier, seed, mode);
    if let Err(msg) = core::guard(|| f(&mut ctx)) {
        // a panic outside any case (universe construction, harness bug): never a verdict
        eprintln!("MACHINERY: the check itself panicked outside a case: {}", msg);
        println!("MACHINERY: the check itself panicked outside a case: {}", msg);
        std::process::exit(2);
    }
    let code = ctx.finish();
    std::process::exit(code);
}
