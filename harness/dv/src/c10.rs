//! C10 — rounding to integers / to fewer digits picks the mathematically right neighbour.
//!
//! Sweeps (all exhaustive walks over indexable universes, nothing sampled):
//! * `float.closed.B*`  every value of F(B,P,E) wrapped with every precision variant, all six modes:
//!   trunc floor ceil round fract split_at_point (FBig), to_int (FBig in the mode, Repr), and
//!   with_precision to every target precision 0..=P+1
//! * `float.shape.B*`   constructed multi-word values around the radix point (halves, half+-1 unit,
//!   all-(B-1) fractions, leading zeros on both sides of the `smaller_than_one` / `round` shortcuts)
//! * `rat.closed`, `rat.shape`  RBig / Relaxed trunc floor ceil round fract split_at_point
//! * `prim.fract.B*`, `prim.fract.shape.B*`  Round::round_fract::<B>(int, fract, k), six modes
//! * `prim.ratio`, `prim.ratio.shape`        Round::round_ratio(int, num, den), six modes
//!
//! Oracle: the definitions on exact rationals (num_bigint): trunc/floor/ceil, round = nearest with
//! ties away from zero, fract = x - trunc(x), the six modes as "the integer the mode names"
//! (`round_int`), rounding to p digits = round_int on x / B^(floor_log(x) - p + 1).

use crate::core::{guard, is_internal_panic, Ctx, Rec};
use crate::fref::*;
use crate::h::unflatten;
use crate::uni::*;
use dashu_base::Approximation;
use dashu_float::round::{mode, Round, Rounding};
use dashu_float::{Context, FBig, Repr};
use dashu_int::{IBig, Word};
use dashu_ratio::{RBig, Relaxed};
use num_bigint::{BigInt, BigUint};
use num_integer::Integer;
use num_traits::{One, Signed, ToPrimitive, Zero};
use std::cmp::Ordering;

const P: &str = "C10";

// ---------------------------------------------------------------------------------------------
// reference: the definitions

/// the integer that rounding mode `m` names for the exact value x
fn round_int(x: &Rat, m: Mode) -> BigInt {
    match m {
        Mode::Zero => x.trunc(),
        Mode::Away => {
            if x.is_neg() {
                x.floor()
            } else {
                x.ceil()
            }
        }
        Mode::Up => x.ceil(),
        Mode::Down => x.floor(),
        Mode::HalfEven | Mode::HalfAway => {
            let fl = x.floor();
            let fr = x.sub(&Rat::int(fl.clone())); // in [0, 1)
            match cmp_half(&fr) {
                Ordering::Less => fl,
                Ordering::Greater => fl + 1,
                Ordering::Equal => {
                    if m == Mode::HalfEven {
                        if fl.is_even() {
                            fl
                        } else {
                            fl + 1
                        }
                    } else if x.is_neg() {
                        fl
                    } else {
                        fl + 1
                    }
                }
            }
        }
    }
}

/// second, search-style statement of the same definitions on machine integers (self-check only):
/// scan the integers around n/d and pick the one the definition of the mode names
fn round_int_search(n: i64, d: i64, m: Mode) -> i64 {
    assert!(d > 0);
    let approx = n / d;
    let cands: Vec<i64> = (approx - 2..=approx + 2).collect();
    // c ? n/d  <=>  c*d ? n
    let le = |c: i64| c * d <= n;
    let ge = |c: i64| c * d >= n;
    let dist = |c: i64| (c * d - n).abs(); // |c - x| * d
    match m {
        Mode::Down => *cands.iter().filter(|&&c| le(c)).max().unwrap(),
        Mode::Up => *cands.iter().filter(|&&c| ge(c)).min().unwrap(),
        // the integer of largest magnitude that is not beyond x (seen from zero)
        Mode::Zero => *cands.iter().filter(|&&c| c.abs() * d <= n.abs() && (c == 0 || (c > 0) == (n > 0))).max_by_key(|c| c.abs()).unwrap(),
        // the integer of smallest magnitude that is not before x (seen from zero)
        Mode::Away => {
            if n == 0 {
                0
            } else {
                *cands.iter().filter(|&&c| c != 0 && (c > 0) == (n > 0) && c.abs() * d >= n.abs()).min_by_key(|c| c.abs()).unwrap()
            }
        }
        Mode::HalfEven | Mode::HalfAway => {
            let best = cands.iter().map(|&c| dist(c)).min().unwrap();
            let near: Vec<i64> = cands.iter().copied().filter(|&c| dist(c) == best).collect();
            if near.len() == 1 {
                near[0]
            } else if m == Mode::HalfEven {
                *near.iter().find(|c| *c % 2 == 0).unwrap()
            } else {
                *near.iter().max_by_key(|c| c.abs()).unwrap()
            }
        }
    }
}

/// x rounded to p significant base-B digits in mode m: (value, adjustment relative to the truncated
/// significand, position of the dropped part relative to one half: Less / Equal / Greater)
fn round_digits(x: &Rat, base: u32, p: usize, m: Mode) -> (Rat, i32, Ordering) {
    assert!(p > 0 && !x.is_zero());
    let q = x.floor_log(base) - p as i64 + 1;
    let unit = Rat::scaled(&BigInt::one(), base, q);
    let scaled = x.div(&unit);
    let r = round_int(&scaled, m);
    let t = scaled.trunc();
    let adj = (&r - &t).to_i32().unwrap();
    let low = scaled.sub(&Rat::int(t)).abs();
    let half = cmp_half(&low);
    (Rat::int(r).mul(&unit), adj, half)
}

/// 0, 1, -1, 2, -2, ...: index order = simplest first, so that the reported example of a signature is the simplest one
fn zigzag(i: usize) -> i64 {
    let h = ((i + 1) / 2) as i64;
    if i % 2 == 1 {
        h
    } else {
        -h
    }
}

/// |r| ? 1/2 for a non-negative fraction r
fn cmp_half(r: &Rat) -> Ordering {
    (&r.n * BigInt::from(2)).cmp(&r.d)
}

fn adj_i(r: Rounding) -> i32 {
    match r {
        Rounding::NoOp => 0,
        Rounding::AddOne => 1,
        Rounding::SubOne => -1,
    }
}
fn adj_name(a: i32) -> &'static str {
    match a {
        0 => "NoOp",
        1 => "AddOne",
        -1 => "SubOne",
        _ => "<not an adjustment>",
    }
}

macro_rules! mode_cls {
    ($pre:literal, $m:expr, $suf:literal) => {
        match $m {
            Mode::Zero => concat!($pre, "Zero", $suf),
            Mode::Away => concat!($pre, "Away", $suf),
            Mode::Up => concat!($pre, "Up", $suf),
            Mode::Down => concat!($pre, "Down", $suf),
            Mode::HalfEven => concat!($pre, "HalfEven", $suf),
            Mode::HalfAway => concat!($pre, "HalfAway", $suf),
        }
    };
}
macro_rules! mode_adj_cls {
    ($pre:literal, $m:expr, $a:expr) => {
        match $a {
            0 => mode_cls!($pre, $m, ":NoOp"),
            1 => mode_cls!($pre, $m, ":AddOne"),
            _ => mode_cls!($pre, $m, ":SubOne"),
        }
    };
}

/// adjustments an inexact rounding can produce in each mode (vacuity guards)
fn adjs_of(m: Mode) -> &'static [i32] {
    match m {
        Mode::Zero => &[0],
        Mode::Away => &[1, -1],
        Mode::Up => &[1, 0],
        Mode::Down => &[-1, 0],
        _ => &[1, -1, 0],
    }
}

fn half_name(o: Ordering) -> &'static str {
    match o {
        Ordering::Less => "below-half",
        Ordering::Equal => "tie",
        Ordering::Greater => "above-half",
    }
}

fn num(x: &BigInt) -> String {
    if x.bits() <= 64 {
        x.to_string()
    } else {
        hex(x)
    }
}

fn panic_kind(msg: &str) -> &'static str {
    if is_internal_panic(msg) {
        "internal-panic"
    } else {
        "panic"
    }
}

// ---------------------------------------------------------------------------------------------
// float values with their expected roundings

struct FV<const B: Word> {
    s: BigInt, // normalised: not divisible by B (or zero)
    e: i64,
    d: usize, // digits of s
    x: Rat,
    repr: Repr<B>,
    tr: BigInt,
    fl: BigInt,
    ce: BigInt,
    rd: BigInt, // nearest, ties away from zero
    fr: Rat,    // x - trunc(x)
    zone: &'static str,
    rd_half: Ordering, // |fract| ? 1/2
}

fn fv<const B: Word>(s: &BigInt, e: i64) -> FV<B> {
    let base = B as u32;
    let (mut s, mut e) = (s.clone(), e);
    if s.is_zero() {
        e = 0;
    } else {
        let b = BigInt::from(base);
        while (&s % &b).is_zero() {
            s /= &b;
            e += 1;
        }
    }
    let d = digits_b(&s, base);
    let x = Rat::scaled(&s, base, e);
    let tr = x.trunc();
    let fr = x.sub(&Rat::int(tr.clone()));
    let k = e + d as i64; // |x| in [B^(k-1), B^k)
    let zone = if e >= 0 {
        "integer"
    } else if k >= 1 {
        "mixed"
    } else {
        match k {
            0 => "frac:k=0",
            -1 => "frac:k=-1",
            -2 => "frac:k=-2",
            _ => "frac:k<=-3",
        }
    };
    let fa = fr.abs();
    FV { repr: mk_repr::<B>(&s, e), fl: x.floor(), ce: x.ceil(), rd: round_int(&x, Mode::HalfAway), rd_half: cmp_half(&fa), tr, fr, zone, x, d, s, e }
}

/// precision variants a value of d digits is wrapped with; the over-long one (precision < digits)
/// can only be built through `FBig::from_repr` in a build without debug assertions
const PV_NAMES: [&str; 5] = ["p=d", "p=d+1", "p=d+3", "unlimited", "overlong"];
fn pv_count() -> u64 {
    if cfg!(debug_assertions) {
        4
    } else {
        5
    }
}
fn pv_prec(d: usize, pv: usize) -> Option<usize> {
    match pv {
        0 => Some(d.max(1)),
        1 => Some(d + 1),
        2 => Some(d + 3),
        3 => Some(0),
        _ => {
            if d >= 2 {
                Some(d - 1)
            } else {
                None
            }
        }
    }
}

fn f_show<const B: Word>(v: &FV<B>) -> String {
    format!("{}*{}^{}", num(&v.s), B, v.e)
}

/// compare a float result with the exact expected value
#[allow(clippy::too_many_arguments)]
fn chk_f<R: ModeTag, const B: Word>(rec: &mut Rec, site: &str, class: &str, got: Result<FBig<R, B>, String>, want: &Rat, case: &dyn Fn() -> String) -> Option<FBig<R, B>> {
    rec.step();
    match got {
        Ok(r) => {
            if r.repr().is_infinite() {
                rec.fail(format!("{}|{}|infinite-result|{}", P, site, class), case(), "infinite", want.show());
                return None;
            }
            let rv = fval(r.repr());
            if &rv.rat() != want {
                rec.fail(format!("{}|{}|wrong-value|{}", P, site, class), case(), rv.show(), want.show());
                return None;
            }
            Some(r)
        }
        Err(pm) => {
            rec.fail(format!("{}|{}|{}|{}", P, site, panic_kind(&pm), class), case(), format!("panic: {}", pm), want.show());
            None
        }
    }
}

/// the six-mode independent part + to_int + with_precision of one (value, precision, mode)
fn float_mode_case<R: ModeTag, const B: Word>(rec: &mut Rec, v: &FV<B>, pv: usize, prec: usize, targets: &[usize]) {
    let m = R::MODE;
    let pvn = PV_NAMES[pv];
    let a: FBig<R, B> = match guard(|| FBig::<R, B>::from_repr(v.repr.clone(), Context::<R>::new(prec))) {
        Ok(a) => a,
        Err(pm) => {
            rec.step();
            rec.fail(format!("{}|FBig::from_repr|{}|B{},{}", P, panic_kind(&pm), B, pvn), format!("from_repr({}, precision {})", f_show(v), prec), format!("panic: {}", pm), "a float (digits <= precision)");
            return;
        }
    };
    // signature classes: magnitude zone (the two deepest zones merged), precision variant, and for the
    // mode-dependent calls the mode; the base is in the case text only (one root cause = a handful of signatures)
    let szone = if v.zone == "frac:k=-2" || v.zone == "frac:k<=-3" { "frac:k<=-2" } else { v.zone };
    let cls = format!("{},{}", szone, pvn);
    let cls = cls.as_str();
    let desc = |op: &'static str| move || format!("base {} mode {}: FBig({}, precision {}).{}", B, m.name(), f_show(v), prec, op);
    let int_rat = |i: &BigInt| Rat::int(i.clone());

    // --- integer-valued roundings (independent of the mode of the type)
    let t = chk_f::<R, B>(rec, "FBig::trunc", cls, guard(|| a.trunc()), &int_rat(&v.tr), &desc("trunc()"));
    let fl = chk_f::<R, B>(rec, "FBig::floor", cls, guard(|| a.floor()), &int_rat(&v.fl), &desc("floor()"));
    let ce = chk_f::<R, B>(rec, "FBig::ceil", cls, guard(|| a.ceil()), &int_rat(&v.ce), &desc("ceil()"));
    let rd = chk_f::<R, B>(rec, "FBig::round", cls, guard(|| a.round()), &int_rat(&v.rd), &desc("round()"));
    let f = chk_f::<R, B>(rec, "FBig::fract", cls, guard(|| a.fract()), &v.fr, &desc("fract()"));
    // trunc(x) + fract(x) = x on the values actually returned
    if let (Some(t), Some(f)) = (&t, &f) {
        rec.step();
        let sum = fval(t.repr()).rat().add(&fval(f.repr()).rat());
        if sum != v.x {
            rec.fail(format!("{}|FBig::trunc+fract|identity-broken|{}", P, cls), desc("trunc() + fract()")(), sum.show(), v.x.show());
        }
    }
    // documented precision of the integer results (FBig::round, section Precision): not part of
    // the property statement, so only counted
    let doc_prec = if v.e >= 0 { prec } else { prec.saturating_sub((-v.e) as usize) };
    for r in [&t, &fl, &ce, &rd].into_iter().flatten() {
        rec.hit(if r.precision() == doc_prec { "result-precision:as-documented" } else { "unspecified:result-precision-differs-from-doc-rule(not judged)" });
    }
    // split_at_point = (trunc, fract)
    rec.step();
    match guard(|| a.clone().split_at_point()) {
        Ok((st, sf)) => {
            if st.repr().is_infinite() || sf.repr().is_infinite() {
                rec.fail(format!("{}|FBig::split_at_point|infinite-result|{}", P, cls), desc("split_at_point()")(), "infinite", format!("({}, {})", v.tr, v.fr.show()));
            } else {
                let (gt, gf) = (fval(st.repr()), fval(sf.repr()));
                if gt.rat() != int_rat(&v.tr) || gf.rat() != v.fr {
                    rec.fail(format!("{}|FBig::split_at_point|wrong-value|{}", P, cls), desc("split_at_point()")(), format!("({}, {})", gt.show(), gf.show()), format!("({}, {})", v.tr, v.fr.show()));
                }
            }
        }
        Err(pm) => rec.fail(format!("{}|FBig::split_at_point|{}|{}", P, panic_kind(&pm), cls), desc("split_at_point()")(), format!("panic: {}", pm), format!("({}, {})", v.tr, v.fr.show())),
    }

    // --- to_int in the mode of the type
    let mcls = format!("{},{},{}", m.name(), szone, pvn);
    let mcls = mcls.as_str();
    rec.step();
    let want = round_int(&v.x, m);
    let want_adj = (&want - &v.tr).to_i32().unwrap();
    // outcome classes are those of the expected answer (the designed case), whatever dashu answers
    if v.e >= 0 {
        rec.hit("to_int:exact");
    } else {
        rec.hit(mode_adj_cls!("to_int:", m, want_adj));
        if v.rd_half == Ordering::Equal && m.is_half() {
            rec.hit(mode_cls!("to_int:", m, ":tie"));
        }
    }
    match guard(|| a.to_int()) {
        Ok(ap) => {
            let (val, flag) = match ap {
                Approximation::Exact(i) => (i, None),
                Approximation::Inexact(i, r) => (i, Some(r)),
            };
            let got = i_to_ref(&val);
            let expected = || if v.e >= 0 { format!("Exact({})", want) } else { format!("Inexact({}, {})", want, adj_name(want_adj)) };
            if got != want {
                rec.fail(format!("{}|FBig::to_int|wrong-value|{}", P, mcls), desc("to_int()")(), format!("{} flag {:?}", got, flag), expected());
            } else {
                match (flag, v.e >= 0) {
                    (None, true) => {}
                    (None, false) => rec.fail(format!("{}|FBig::to_int|wrong-flag|exact-but-inexact,{}", P, mcls), desc("to_int()")(), format!("Exact({})", got), expected()),
                    (Some(r), true) => rec.fail(format!("{}|FBig::to_int|wrong-flag|inexact-but-exact,{}", P, mcls), desc("to_int()")(), format!("Inexact({}, {:?})", got, r), expected()),
                    (Some(r), false) => {
                        if adj_i(r) != want_adj {
                            rec.fail(format!("{}|FBig::to_int|wrong-flag|adjustment,{}", P, mcls), desc("to_int()")(), format!("Inexact({}, {:?})", got, r), expected());
                        }
                    }
                }
            }
        }
        Err(pm) => rec.fail(format!("{}|FBig::to_int|{}|{}", P, panic_kind(&pm), cls), desc("to_int()")(), format!("panic: {}", pm), format!("{}", want)),
    }

    // --- with_precision to every target
    for &t in targets {
        if prec != 0 && prec < v.d && t >= prec {
            // over-long source (only in builds without debug assertions) and a target that is not below
            // the source precision: the documentation promises rounding only for a smaller target
            rec.hit("unspecified:overlong-source,target>=source-precision(not judged)");
            continue;
        }
        rec.step();
        let rounds = t != 0 && v.d > t;
        let (want_val, want_adj, half) = if rounds { round_digits(&v.x, B as u32, t, m) } else { (v.x.clone(), 0, Ordering::Less) };
        let from = if prec == 0 { "from-unlimited" } else if prec < v.d { "from-overlong" } else { "from-limited" };
        let wcls = format!("{},{},{}", m.name(), if rounds { half_name(half) } else { "nothing-to-round" }, from);
        let wcls = wcls.as_str();
        let wdesc = || format!("base {} mode {}: FBig({}, precision {}).with_precision({})", B, m.name(), f_show(v), prec, t);
        let expected = || if rounds { format!("Inexact({}, {})", want_val.show(), adj_name(want_adj)) } else { format!("Exact({})", want_val.show()) };
        if rounds {
            rec.hit(mode_adj_cls!("wp:", m, want_adj));
            if half == Ordering::Equal && m.is_half() {
                rec.hit(mode_cls!("wp:", m, ":tie"));
            }
            if want_adj != 0 && want_val.floor_log(B as u32) != v.x.floor_log(B as u32) {
                rec.hit("wp:carry-into-new-digit");
            }
            if prec == 0 {
                rec.hit("wp:rounded-from-unlimited");
            }
        } else {
            rec.hit("wp:kept-exact");
        }
        match guard(|| a.clone().with_precision(t)) {
            Ok(ap) => {
                let flag = flag_of(&ap);
                let r = match ap {
                    Approximation::Exact(r) => r,
                    Approximation::Inexact(r, _) => r,
                };
                if r.repr().is_infinite() {
                    rec.fail(format!("{}|FBig::with_precision|infinite-result|{}", P, wcls), wdesc(), "infinite", expected());
                    continue;
                }
                let rv = fval(r.repr());
                if rv.rat() != want_val {
                    if rounds && rv.rat() == v.x {
                        // returned unchanged although digits had to be dropped: one class whatever the mode
                        rec.fail(format!("{}|FBig::with_precision|not-rounded|{}", P, from), wdesc(), format!("{} flag {:?} ({} digits kept)", rv.show(), flag, rv.digits()), expected());
                    } else {
                        rec.fail(format!("{}|FBig::with_precision|wrong-value|{}", P, wcls), wdesc(), format!("{} flag {:?}", rv.show(), flag), expected());
                    }
                    continue;
                }
                let flag_ok = match flag {
                    Flag::Exact => !rounds,
                    Flag::Inexact(a) => rounds && adj_i(a) == want_adj,
                };
                if !flag_ok {
                    rec.fail(format!("{}|FBig::with_precision|wrong-flag|{}", P, wcls), wdesc(), format!("{} flag {:?}", rv.show(), flag), expected());
                    continue;
                }
                if r.precision() != t {
                    rec.fail(format!("{}|FBig::with_precision|result-precision|B{}", P, B), wdesc(), format!("result carries precision {}", r.precision()), format!("{}", t));
                }
                // the exact oracle must lie inside the shared rounding contract (consistency of the two oracles)
                if judge(&v.x, &rv, flag, t, m).is_err() {
                    rec.hit("machinery:exact-oracle-outside-the-shared-contract");
                }
            }
            Err(pm) => rec.fail(format!("{}|FBig::with_precision|{}|{}", P, panic_kind(&pm), from), wdesc(), format!("panic: {}", pm), expected()),
        }
    }
}

/// one (value, precision variant): Repr::to_int once, then everything in all six modes
fn float_case<const B: Word>(rec: &mut Rec, v: &FV<B>, pv: usize, targets: &[usize]) {
    let prec = match pv_prec(v.d, pv) {
        Some(p) => p,
        None => {
            rec.hit("skipped:no-overlong-variant-for-one-digit");
            return;
        }
    };
    if pv == 0 {
        // Repr::to_int: "the fractional part is always rounded to zero"
        rec.step();
        let cls = (if v.zone == "frac:k=-2" || v.zone == "frac:k<=-3" { "frac:k<=-2" } else { v.zone }).to_string();
        let case = || format!("Repr::<{}>({}).to_int()", B, f_show(v));
        let expected = || if v.e >= 0 { format!("Exact({})", v.tr) } else { format!("Inexact({}, NoOp)", v.tr) };
        rec.hit(if v.e >= 0 { "repr.to_int:exact" } else { "repr.to_int:inexact" });
        match guard(|| v.repr.to_int()) {
            Ok(ap) => {
                let (val, flag) = match ap {
                    Approximation::Exact(i) => (i, None),
                    Approximation::Inexact(i, r) => (i, Some(r)),
                };
                let got = i_to_ref(&val);
                if got != v.tr {
                    rec.fail(format!("{}|Repr::to_int|wrong-value|{}", P, cls), case(), format!("{} flag {:?}", got, flag), expected());
                } else if flag.is_none() != (v.e >= 0) || flag.map_or(false, |r| r != Rounding::NoOp) {
                    rec.fail(format!("{}|Repr::to_int|wrong-flag|{}", P, cls), case(), format!("{} flag {:?}", got, flag), expected());
                }
            }
            Err(pm) => rec.fail(format!("{}|Repr::to_int|{}|{}", P, panic_kind(&pm), cls), case(), format!("panic: {}", pm), expected()),
        }
    }
    float_mode_case::<mode::Zero, B>(rec, v, pv, prec, targets);
    float_mode_case::<mode::Away, B>(rec, v, pv, prec, targets);
    float_mode_case::<mode::Up, B>(rec, v, pv, prec, targets);
    float_mode_case::<mode::Down, B>(rec, v, pv, prec, targets);
    float_mode_case::<mode::HalfEven, B>(rec, v, pv, prec, targets);
    float_mode_case::<mode::HalfAway, B>(rec, v, pv, prec, targets);
    // classes of the value
    rec.hit(match v.zone {
        "integer" => "zone:integer",
        "mixed" => "zone:mixed",
        "frac:k=0" => "zone:frac:k=0",
        "frac:k=-1" => "zone:frac:k=-1",
        "frac:k=-2" => "zone:frac:k=-2",
        _ => "zone:frac:k<=-3",
    });
    if v.e < 0 {
        rec.hit(match (v.rd_half, v.x.is_neg()) {
            (Ordering::Less, false) => "round:below-half:pos",
            (Ordering::Less, true) => "round:below-half:neg",
            (Ordering::Equal, false) => "round:tie:pos",
            (Ordering::Equal, true) => "round:tie:neg",
            (Ordering::Greater, false) => "round:above-half:pos",
            (Ordering::Greater, true) => "round:above-half:neg",
        });
        if v.d == 1 && prec == 1 {
            rec.hit("precision-1");
        }
        if v.e + (v.d as i64) < 0 && ((-(v.e + v.d as i64)) as usize) > prec && prec != 0 {
            rec.hit("more-leading-zeros-than-precision");
        }
    }
    if !v.s.is_zero() {
        rec.nontrivial();
    }
    rec.sample(|| format!("base {}: {} wrapped with precision {} ({}): trunc floor ceil round fract split to_int with_precision{:?}, six modes", B, f_show(v), prec, PV_NAMES[pv], targets));
}

fn float_required(even_base: bool) -> Vec<&'static str> {
    let mut req = vec![
        "zone:integer", "zone:mixed", "zone:frac:k=0", "zone:frac:k=-1", "zone:frac:k=-2", "zone:frac:k<=-3",
        "round:below-half:pos", "round:below-half:neg", "round:above-half:pos", "round:above-half:neg",
        "to_int:exact", "repr.to_int:exact", "repr.to_int:inexact", "wp:kept-exact", "wp:carry-into-new-digit", "wp:rounded-from-unlimited",
        "precision-1", "more-leading-zeros-than-precision",
    ];
    if even_base {
        req.extend(["round:tie:pos", "round:tie:neg"]);
    }
    for m in MODES {
        for &a in adjs_of(m) {
            req.push(mode_adj_cls!("to_int:", m, a));
            req.push(mode_adj_cls!("wp:", m, a));
        }
        if even_base && m.is_half() {
            req.push(mode_cls!("to_int:", m, ":tie"));
            req.push(mode_cls!("wp:", m, ":tie"));
        }
    }
    req
}

fn check_machinery_class(ctx: &mut Ctx, name: &str) {
    let n: u64 = ctx.sweeps.iter().find(|s| s.name == name).map_or(0, |s| s.classes.iter().filter(|(k, _)| k.starts_with("machinery:")).map(|(_, v)| *v).sum());
    if n != 0 {
        ctx.machinery(format!("sweep {}: {} results accepted by the exact oracle lie outside the shared rounding contract (oracle inconsistency)", name, n));
    }
}

fn float_closed<const B: Word>(ctx: &mut Ctx, p: u32, e: i64) {
    let vals: Vec<FV<B>> = f_universe(B as u32, p, e).iter().map(|(s, e)| fv::<B>(s, *e)).collect();
    let targets: Vec<usize> = (0..=(p as usize + 1)).collect();
    let (nv, np) = (vals.len() as u64, pv_count());
    let name = format!("float.closed.B{}", B);
    ctx.sweep(&name, nv * np, |i, rec| {
        let [iv, pv] = unflatten(i, [nv, np]);
        float_case::<B>(rec, &vals[iv], pv, &targets);
    });
    ctx.require_classes(&name, &float_required(B % 2 == 0));
    check_machinery_class(ctx, &name);
    ctx.bound(&format!("F({},P,E)", B), serde_json::json!({"P": p, "E": e, "distinct_values": nv, "precision_variants": &PV_NAMES[..np as usize], "with_precision_targets": targets}));
}

// ---------------------------------------------------------------------------------------------
// constructed (shape) values

fn lcg_mag(bits: u64) -> BigUint {
    let words = (bits as usize + 63) / 64 + 1;
    shape(words, "lcgA", 0)
}

/// interesting fractions f with 0 < f < m: next to 0, next to m, around m/2
fn around_half(m: &BigInt) -> Vec<BigInt> {
    let h: BigInt = m / BigInt::from(2); // floor
    let mut v = vec![BigInt::one(), BigInt::from(2), &h - 1, h.clone(), &h + 1, m - 2, m - 1];
    // within 0.1% and within 2^-20 of one half, on both sides
    v.push(&h - &h / 1024);
    v.push(&h + &h / 1024);
    v.push(&h - &h / 1048576);
    v.push(&h + &h / 1048576 + 1);
    v.retain(|f| f.is_positive() && f < m);
    v.sort();
    v.dedup();
    v
}

fn shape_ks(quick: bool) -> Vec<u64> {
    if quick {
        vec![1, 2, 3, 19, 20, 64, 65]
    } else {
        vec![1, 2, 3, 4, 9, 10, 18, 19, 20, 21, 38, 39, 63, 64, 65, 66, 127, 128, 129, 200]
    }
}

fn shape_ints(base: u32) -> Vec<BigInt> {
    let b = |k: u64| pow_b(base, k);
    let two = |k: u64| BigInt::from(pow2(k));
    let mut v = vec![BigInt::zero(), BigInt::one(), BigInt::from(2), BigInt::from(3), BigInt::from(base - 1), BigInt::from(base), b(19) - 1, b(19), b(20) + 1, two(64) - 1, two(64), two(64) + 1, two(128) - 1, two(128) + 1];
    v.sort();
    v.dedup();
    v
}

fn float_shape_values<const B: Word>(quick: bool) -> Vec<FV<B>> {
    let base = B as u32;
    let mut out: Vec<(BigInt, i64)> = vec![];
    let ints = shape_ints(base);
    for k in shape_ks(quick) {
        let bk = pow_b(base, k);
        let mut fs = around_half(&bk);
        fs.push(pow_b(base, k - 1));
        let l = BigInt::from(lcg_mag(bk.bits())) % &bk;
        if l.is_positive() {
            fs.push(l);
        }
        fs.sort();
        fs.dedup();
        for f in &fs {
            for ip in &ints {
                let s = ip * &bk + f;
                out.push((s.clone(), -(k as i64)));
                out.push((-s, -(k as i64)));
            }
            // leading zeros after the radix point: both sides of the shortcuts for "certainly < 1" / "certainly < 1/2"
            for z in 1..=4i64 {
                out.push((f.clone(), -(k as i64) - z));
                out.push((-f.clone(), -(k as i64) - z));
            }
        }
    }
    // integers with a positive exponent and zero
    out.push((BigInt::zero(), 0));
    for ip in &ints {
        out.push((ip.clone(), 3));
        out.push((-ip.clone(), 1));
    }
    let mut vals: Vec<FV<B>> = out.iter().map(|(s, e)| fv::<B>(s, *e)).collect();
    // distinct values only
    vals.sort_by(|a, b| (a.e, &a.s).cmp(&(b.e, &b.s)));
    vals.dedup_by(|a, b| a.e == b.e && a.s == b.s);
    vals
}

fn shape_targets(d: usize, e: i64) -> Vec<usize> {
    let int_digits = d as i64 + e; // digits in front of the radix point
    let mut t: Vec<i64> = vec![0, 1, 2, 3, 19, 20, 21, d as i64 - 1, d as i64, d as i64 + 1, d as i64 / 2, int_digits - 1, int_digits, int_digits + 1];
    t.retain(|&x| x >= 0);
    t.sort();
    t.dedup();
    t.into_iter().map(|x| x as usize).collect()
}

fn float_shape<const B: Word>(ctx: &mut Ctx) {
    let vals = float_shape_values::<B>(ctx.quick());
    let (nv, np) = (vals.len() as u64, pv_count());
    let name = format!("float.shape.B{}", B);
    ctx.sweep(&name, nv * np, |i, rec| {
        let [iv, pv] = unflatten(i, [nv, np]);
        let v = &vals[iv];
        let targets = shape_targets(v.d, v.e);
        float_case::<B>(rec, v, pv, &targets);
        rec.hit(match v.s.bits() {
            0..=64 => "significand:<=64bit",
            65..=128 => "significand:65-128bit",
            _ => "significand:>128bit",
        });
    });
    let mut req = float_required(B % 2 == 0);
    req.retain(|c| *c != "precision-1");
    req.extend(["significand:<=64bit", "significand:65-128bit", "significand:>128bit"]);
    ctx.require_classes(&name, &req);
    check_machinery_class(ctx, &name);
    ctx.bound(&format!("float.shape.B{}", B), serde_json::json!({"fraction_digit_counts_k": shape_ks(ctx.quick()), "distinct_values": nv, "largest_significand_bits": vals.iter().map(|v| v.s.bits()).max().unwrap_or(0)}));
}

// ---------------------------------------------------------------------------------------------
// rationals

trait RatLike: Sized + Clone {
    const NAME: &'static str;
    const CANONICAL: bool;
    fn mk(n: &BigInt, d: &BigInt) -> Self;
    fn parts(&self) -> (BigInt, BigInt);
    fn ints(&self) -> [Result<IBig, String>; 4]; // trunc floor ceil round
    fn fr(&self) -> Result<Self, String>;
    fn split(self) -> Result<(IBig, Self), String>;
}

macro_rules! impl_ratlike {
    ($T:ty, $name:expr, $canon:expr) => {
        impl RatLike for $T {
            const NAME: &'static str = $name;
            const CANONICAL: bool = $canon;
            fn mk(n: &BigInt, d: &BigInt) -> Self {
                <$T>::from_parts(ref_to_i(n), ref_to_u(d.magnitude()))
            }
            fn parts(&self) -> (BigInt, BigInt) {
                (i_to_ref(self.numerator()), BigInt::from(u_to_ref(self.denominator())))
            }
            fn ints(&self) -> [Result<IBig, String>; 4] {
                [guard(|| self.trunc()), guard(|| self.floor()), guard(|| self.ceil()), guard(|| self.round())]
            }
            fn fr(&self) -> Result<Self, String> {
                guard(|| self.fract())
            }
            fn split(self) -> Result<(IBig, Self), String> {
                guard(|| self.split_at_point())
            }
        }
    };
}
impl_ratlike!(RBig, "RBig", true);
impl_ratlike!(Relaxed, "Relaxed", false);

/// judge a fractional-part result: value, and for RBig also canonical form
fn chk_fract<T: RatLike>(rec: &mut Rec, site: &str, cls: &str, got: &T, want: &Rat, case: &dyn Fn() -> String) {
    let (gn, gd) = got.parts();
    if gd.is_zero() {
        rec.fail(format!("{}|{}::{}|zero-denominator|{}", P, T::NAME, site, cls), case(), format!("{}/{}", num(&gn), num(&gd)), want.show());
        return;
    }
    if &Rat::new(gn.clone(), gd.clone()) != want {
        rec.fail(format!("{}|{}::{}|wrong-value|{}", P, T::NAME, site, cls), case(), format!("{}/{}", num(&gn), num(&gd)), want.show());
        return;
    }
    if T::CANONICAL && (gn != want.n || gd != want.d) {
        rec.fail(format!("{}|{}::{}|not-canonical|{}", P, T::NAME, site, cls), case(), format!("{}/{}", num(&gn), num(&gd)), want.show());
    }
}

/// all six functions on the stored fraction sn/sd (value x)
fn rat_case<T: RatLike>(rec: &mut Rec, sn: &BigInt, sd: &BigInt, x: &Rat, uni: &str) {
    let tr = x.trunc();
    let fr = x.sub(&Rat::int(tr.clone()));
    let fa = fr.abs();
    let half = cmp_half(&fa);
    let kind = if x.is_int() { "integer" } else { half_name(half) };
    let cls = format!("{},{}{},{}", uni, if x.is_neg() { "neg," } else { "" }, kind, size_class(word_len(sd.magnitude())));
    let cls = cls.as_str();
    let a = match guard(|| T::mk(sn, sd)) {
        Ok(a) => a,
        Err(pm) => {
            rec.step();
            rec.fail(format!("{}|{}::from_parts|{}|{}", P, T::NAME, panic_kind(&pm), cls), format!("{}/{}", num(sn), num(sd)), format!("panic: {}", pm), x.show());
            return;
        }
    };
    let wants = [tr.clone(), x.floor(), x.ceil(), round_int(x, Mode::HalfAway)];
    let names = ["trunc", "floor", "ceil", "round"];
    let got = a.ints();
    for k in 0..4 {
        rec.step();
        let case = || format!("{}({}/{}).{}()", T::NAME, num(sn), num(sd), names[k]);
        match &got[k] {
            Ok(g) => {
                let g = i_to_ref(g);
                if g != wants[k] {
                    rec.fail(format!("{}|{}::{}|wrong-value|{}", P, T::NAME, names[k], cls), case(), num(&g), num(&wants[k]));
                }
            }
            Err(pm) => rec.fail(format!("{}|{}::{}|{}|{}", P, T::NAME, names[k], panic_kind(pm), cls), case(), format!("panic: {}", pm), num(&wants[k])),
        }
    }
    rec.step();
    let fcase = || format!("{}({}/{}).fract()", T::NAME, num(sn), num(sd));
    let mut fract_val = None;
    match a.fr() {
        Ok(f) => {
            chk_fract::<T>(rec, "fract", cls, &f, &fr, &fcase);
            let (gn, gd) = f.parts();
            if !gd.is_zero() {
                fract_val = Some(Rat::new(gn, gd));
            }
        }
        Err(pm) => rec.fail(format!("{}|{}::fract|{}|{}", P, T::NAME, panic_kind(&pm), cls), fcase(), format!("panic: {}", pm), fr.show()),
    }
    // documented guarantee: self == self.trunc() + self.fract(), on the values actually returned
    if let (Ok(t), Some(f)) = (&got[0], &fract_val) {
        rec.step();
        let sum = Rat::int(i_to_ref(t)).add(f);
        if &sum != x {
            rec.fail(format!("{}|{}::trunc+fract|identity-broken|{}", P, T::NAME, cls), fcase(), sum.show(), x.show());
        }
    }
    rec.step();
    let scase = || format!("{}({}/{}).split_at_point()", T::NAME, num(sn), num(sd));
    match a.split() {
        Ok((t, f)) => {
            let t = i_to_ref(&t);
            if t != tr {
                rec.fail(format!("{}|{}::split_at_point|wrong-value|{}", P, T::NAME, cls), scase(), format!("integral part {}", num(&t)), num(&tr));
            }
            chk_fract::<T>(rec, "split_at_point", cls, &f, &fr, &scase);
        }
        Err(pm) => rec.fail(format!("{}|{}::split_at_point|{}|{}", P, T::NAME, panic_kind(&pm), cls), scase(), format!("panic: {}", pm), format!("({}, {})", num(&tr), fr.show())),
    }
    // outcome classes
    if x.is_int() {
        rec.hit(if x.is_neg() { "rat:integer:neg" } else { "rat:integer:nonneg" });
    } else {
        rec.hit(match (half, x.is_neg()) {
            (Ordering::Less, false) => "rat:below-half:pos",
            (Ordering::Less, true) => "rat:below-half:neg",
            (Ordering::Equal, false) => "rat:tie:pos",
            (Ordering::Equal, true) => "rat:tie:neg",
            (Ordering::Greater, false) => "rat:above-half:pos",
            (Ordering::Greater, true) => "rat:above-half:neg",
        });
    }
    if x.abs() < Rat::from_i(1) && !x.is_zero() {
        rec.hit("rat:magnitude-below-one");
    }
}

const RAT_REQ: [&str; 9] = ["rat:integer:neg", "rat:integer:nonneg", "rat:below-half:pos", "rat:below-half:neg", "rat:tie:pos", "rat:tie:neg", "rat:above-half:pos", "rat:above-half:neg", "rat:magnitude-below-one"];

fn rat_closed(ctx: &mut Ctx, nmax: i64, dmax: i64) {
    // Relaxed additionally with the non-reduced spellings (n*g)/(d*g)
    let gs: [i64; 3] = [1, 3, 10];
    let (nn, nd, ng) = ((2 * nmax + 1) as u64, dmax as u64, gs.len() as u64);
    ctx.sweep("rat.closed", nn * nd * ng, |i, rec| {
        let [inn, id, ig] = unflatten(i, [nn, nd, ng]);
        let (n, d, g) = (zigzag(inn), id as i64 + 1, gs[ig]);
        let x = Rat::new(BigInt::from(n), BigInt::from(d));
        let (sn, sd) = (BigInt::from(n * g), BigInt::from(d * g));
        if ig == 0 {
            rat_case::<RBig>(rec, &sn, &sd, &x, "closed");
        }
        rat_case::<Relaxed>(rec, &sn, &sd, &x, "closed");
        if g != 1 {
            rec.hit("relaxed:non-reduced-spelling");
        }
        if !(x.is_int() && x.n.abs() <= BigInt::one()) {
            rec.nontrivial();
        }
        rec.sample(|| format!("{}/{} (stored {}/{}): trunc floor ceil round fract split_at_point on RBig and Relaxed", n, d, sn, sd));
    });
    ctx.require_classes("rat.closed", &RAT_REQ);
    ctx.require_classes("rat.closed", &["relaxed:non-reduced-spelling"]);
    ctx.bound("Q(N,D)", serde_json::json!({"N": nmax, "D": dmax, "relaxed_common_factors": gs}));
}

fn rat_shape(ctx: &mut Ctx) {
    let quick = ctx.quick();
    let lens: Vec<usize> = if quick { vec![1, 2, 3, 5] } else { vec![1, 2, 3, 4, 5, 33, 66] };
    let pats: Vec<&'static str> = vec!["ones", "top1", "top1p1", "alt", "lcgA", "lcgSeed"];
    let dens: Vec<BigInt> = shapes(&lens, &pats, ctx.seed).into_iter().map(|s| BigInt::from(s.v)).filter(|d| d > &BigInt::one()).collect();
    let mut qs: Vec<BigInt> = vec![BigInt::zero(), BigInt::one(), BigInt::from(2), BigInt::from(3), BigInt::from(pow2(63)), BigInt::from(pow2(64)) - 1, BigInt::from(pow2(64)), BigInt::from(pow2(128)) - 1, BigInt::from(shape(3, "lcgA", 0))];
    if !quick {
        qs.push(BigInt::from(shape(34, "lcgB", 0)));
        qs.push(BigInt::from(shape(67, "ones", 0)));
    }
    let gs: Vec<BigInt> = vec![BigInt::one(), BigInt::from(3), BigInt::from(pow2(64)) + 1];
    const NR: u64 = 8; // 0 and the <= 7 points of around_half
    let (nd, nq, ng) = (dens.len() as u64, qs.len() as u64, gs.len() as u64);
    ctx.sweep("rat.shape", nd * nq * NR * 2 * ng, |i, rec| {
        let [id, iq, ir, is, ig] = unflatten(i, [nd, nq, NR, 2, ng]);
        let (d, q, g) = (&dens[id], &qs[iq], &gs[ig]);
        let mut rs = around_half(d);
        rs.insert(0, BigInt::zero());
        if ir >= rs.len() {
            rec.hit("skipped:fewer-remainders-for-a-small-denominator");
            return;
        }
        let mut n = q * d + &rs[ir];
        if is == 1 {
            if n.is_zero() {
                rec.hit("skipped:minus-zero");
                return;
            }
            n = -n;
        }
        let x = Rat::new(n.clone(), d.clone());
        let (sn, sd) = (&n * g, d * g);
        if ig == 0 {
            rat_case::<RBig>(rec, &sn, &sd, &x, "shape");
        }
        rat_case::<Relaxed>(rec, &sn, &sd, &x, "shape");
        rec.hit(size_class(word_len(sd.magnitude())));
        rec.nontrivial();
        rec.sample(|| format!("({} * d + {}) / d with d = {}, common factor {}", num(q), num(&rs[ir]), num(d), num(g)));
    });
    ctx.require_classes("rat.shape", &RAT_REQ[..8]);
    ctx.require_classes("rat.shape", &["w1", "w2", "w3-24"]);
    ctx.bound("rat.shape", serde_json::json!({"denominator_words": lens, "patterns": pats, "quotients": nq, "remainders": "0, 1, 2, d/2-1, d/2, d/2+1, d-2, d-1", "relaxed_common_factors": ["1", "3", "2^64+1"]}));
}

// ---------------------------------------------------------------------------------------------
// the two public primitives

fn prim_fract_one<R: ModeTag, const B: Word>(rec: &mut Rec, int: &BigInt, fract: &BigInt, k: usize, v: &Rat, half: Ordering, uni: &str) {
    let m = R::MODE;
    rec.step();
    let want = (round_int(v, m) - int).to_i32().unwrap();
    let (ii, fi) = (ref_to_i(int), ref_to_i(fract));
    let case = || format!("{}::round_fract::<{}>({}, {}, {})  [value {}]", m.name(), B, num(int), num(fract), k, v.show());
    let cls = || format!("{},{},{}", uni, m.name(), if fract.is_zero() { "zero-fraction" } else { half_name(half) });
    rec.hit(mode_adj_cls!("prim:", m, want));
    if half == Ordering::Equal && !fract.is_zero() {
        rec.hit(mode_cls!("prim:", m, ":tie"));
    }
    match guard(|| <R as Round>::round_fract::<B>(&ii, fi, k)) {
        Ok(r) => {
            if adj_i(r) != want {
                rec.fail(format!("{}|Round::round_fract|wrong-value|{}", P, cls()), case(), format!("{:?}", r), adj_name(want));
            }
        }
        Err(pm) => rec.fail(format!("{}|Round::round_fract|{}|{}", P, panic_kind(&pm), cls()), case(), format!("panic: {}", pm), adj_name(want)),
    }
}

fn prim_fract_case<const B: Word>(rec: &mut Rec, int: &BigInt, fract: &BigInt, k: usize, uni: &str) {
    let v = Rat::int(int.clone()).add(&Rat::new(fract.clone(), pow_b(B as u32, k as u64)));
    let fa = Rat::new(fract.abs(), pow_b(B as u32, k as u64));
    let half = cmp_half(&fa);
    prim_fract_one::<mode::Zero, B>(rec, int, fract, k, &v, half, uni);
    prim_fract_one::<mode::Away, B>(rec, int, fract, k, &v, half, uni);
    prim_fract_one::<mode::Up, B>(rec, int, fract, k, &v, half, uni);
    prim_fract_one::<mode::Down, B>(rec, int, fract, k, &v, half, uni);
    prim_fract_one::<mode::HalfEven, B>(rec, int, fract, k, &v, half, uni);
    prim_fract_one::<mode::HalfAway, B>(rec, int, fract, k, &v, half, uni);
    rec.hit(match (int.sign(), fract.sign()) {
        (num_bigint::Sign::NoSign, _) => "prim:int-zero",
        (_, num_bigint::Sign::NoSign) => "prim:fraction-zero",
        (a, b) if a == b => "prim:same-signs",
        _ => "prim:opposite-signs",
    });
    if !fract.is_zero() {
        rec.nontrivial();
    }
}

fn prim_required(even_base: bool) -> Vec<&'static str> {
    let mut req = vec!["prim:int-zero", "prim:fraction-zero", "prim:same-signs", "prim:opposite-signs"];
    for m in MODES {
        for a in [0, 1, -1] {
            // every mode can answer all three: the adjustment is relative to the given integer
            // part, which may lie on either side of the value — except Up (never SubOne) and Down (never AddOne)
            if (m == Mode::Up && a == -1) || (m == Mode::Down && a == 1) {
                continue;
            }
            req.push(mode_adj_cls!("prim:", m, a));
        }
        if even_base && m.is_half() {
            req.push(mode_cls!("prim:", m, ":tie"));
        }
    }
    req
}

fn prim_fract_closed<const B: Word>(ctx: &mut Ctx, imax: i64, kmax: usize) {
    // index -> (k, int, fract): sizes differ per k, so the index space is the concatenation
    let mut offs: Vec<(usize, u64, u64)> = vec![]; // (k, first index, fractions)
    let ni = (2 * imax + 1) as u64;
    let mut total = 0u64;
    for k in 1..=kmax {
        let nf = 2 * (B as u64).pow(k as u32) - 1;
        offs.push((k, total, nf));
        total += nf * ni;
    }
    let name = format!("prim.fract.B{}", B);
    ctx.sweep(&name, total, |i, rec| {
        let &(k, first, nf) = offs.iter().rev().find(|o| o.1 <= i).unwrap();
        let [ii, fi] = unflatten(i - first, [ni, nf]);
        let int = BigInt::from(zigzag(ii));
        let fract = BigInt::from(zigzag(fi));
        prim_fract_case::<B>(rec, &int, &fract, k, "closed");
        rec.sample(|| format!("round_fract::<{}>({}, {}, {}) in six modes", B, int, fract, k));
    });
    ctx.require_classes(&name, &prim_required(B % 2 == 0));
    ctx.bound(&format!("prim.fract.B{}", B), serde_json::json!({"int": format!("-{}..={}", imax, imax), "k": format!("1..={}", kmax), "fract": "every integer in (-B^k, B^k)"}));
}

fn prim_fract_shape<const B: Word>(ctx: &mut Ctx) {
    let mut ks = shape_ks(ctx.quick());
    // very long fractions: beyond the range in which the coarse log2 pre-filter of round_fract
    // (f32 estimates of the operands) can separate a fraction from one half
    // (the f32 estimates are about 2 ulp wide: 0.001 at a magnitude of 2^13 bits)
    let long: &[u64] = match B {
        2 => &[12000, 4500, 30000],
        3 => &[7000, 20000],
        10 => &[3600, 1400, 9000],
        16 => &[3000, 8000],
        _ => &[2500],
    };
    ks.extend_from_slice(if ctx.quick() { &long[..1] } else { long });
    let mut ints: Vec<BigInt> = vec![];
    for i in shape_ints(B as u32) {
        if !i.is_zero() {
            ints.push(-i.clone());
        }
        ints.push(i);
    }
    // per k the list of signed fractions
    let mut cases: Vec<(usize, BigInt)> = vec![];
    for &k in &ks {
        let bk = pow_b(B as u32, k);
        let mut fs = around_half(&bk);
        fs.push(pow_b(B as u32, k - 1));
        let l = BigInt::from(lcg_mag(bk.bits())) % &bk;
        if l.is_positive() {
            fs.push(l);
        }
        fs.sort();
        fs.dedup();
        cases.push((k as usize, BigInt::zero()));
        for f in fs {
            cases.push((k as usize, -f.clone()));
            cases.push((k as usize, f));
        }
    }
    let (nc, ni) = (cases.len() as u64, ints.len() as u64);
    let name = format!("prim.fract.shape.B{}", B);
    ctx.sweep(&name, nc * ni, |i, rec| {
        let [ic, ii] = unflatten(i, [nc, ni]);
        let (k, f) = &cases[ic];
        prim_fract_case::<B>(rec, &ints[ii], f, *k, "shape");
        rec.sample(|| format!("round_fract::<{}>({}, {}, {}) in six modes", B, num(&ints[ii]), num(f), k));
    });
    ctx.require_classes(&name, &prim_required(B % 2 == 0));
}

fn prim_ratio_one<R: ModeTag>(rec: &mut Rec, int: &BigInt, n: &BigInt, d: &BigInt, v: &Rat, half: Ordering, uni: &str) {
    let m = R::MODE;
    rec.step();
    let (ii, ni, di) = (ref_to_i(int), ref_to_i(n), ref_to_i(d));
    let case = || format!("{}::round_ratio({}, {}, {})  [value {}]", m.name(), num(int), num(n), num(d), v.show());
    let got = guard(|| <R as Round>::round_ratio(&ii, ni, &di));
    if n.magnitude() == d.magnitude() {
        // documented assumption |num/den| < 1 is not met (the code only asserts <=): nothing is promised
        rec.hit(match &got {
            Ok(r) if BigInt::from(adj_i(*r)) == round_int(v, m) - int => "unspecified:|num|=|den|:answers-like-the-definition(not judged)",
            Ok(_) => "unspecified:|num|=|den|:answers-otherwise(not judged)",
            Err(_) => "unspecified:|num|=|den|:panics(not judged)",
        });
        return;
    }
    let want = (round_int(v, m) - int).to_i32().unwrap();
    let cls = || format!("{},{},{},den{}", uni, m.name(), if n.is_zero() { "zero-fraction" } else { half_name(half) }, if d.is_negative() { "<0" } else { ">0" });
    rec.hit(mode_adj_cls!("prim:", m, want));
    if half == Ordering::Equal {
        rec.hit(mode_cls!("prim:", m, ":tie"));
    }
    match got {
        Ok(r) => {
            if adj_i(r) != want {
                rec.fail(format!("{}|Round::round_ratio|wrong-value|{}", P, cls()), case(), format!("{:?}", r), adj_name(want));
            }
        }
        Err(pm) => rec.fail(format!("{}|Round::round_ratio|{}|{}", P, panic_kind(&pm), cls()), case(), format!("panic: {}", pm), adj_name(want)),
    }
}

fn prim_ratio_case(rec: &mut Rec, int: &BigInt, n: &BigInt, d: &BigInt, uni: &str) {
    let q = Rat::new(n.clone(), d.clone());
    let v = Rat::int(int.clone()).add(&q);
    let qa = q.abs();
    let half = cmp_half(&qa);
    prim_ratio_one::<mode::Zero>(rec, int, n, d, &v, half, uni);
    prim_ratio_one::<mode::Away>(rec, int, n, d, &v, half, uni);
    prim_ratio_one::<mode::Up>(rec, int, n, d, &v, half, uni);
    prim_ratio_one::<mode::Down>(rec, int, n, d, &v, half, uni);
    prim_ratio_one::<mode::HalfEven>(rec, int, n, d, &v, half, uni);
    prim_ratio_one::<mode::HalfAway>(rec, int, n, d, &v, half, uni);
    rec.hit(if d.is_negative() { "prim:den-negative" } else { "prim:den-positive" });
    rec.hit(match (int.sign(), q.sgn()) {
        (num_bigint::Sign::NoSign, _) => "prim:int-zero",
        (_, 0) => "prim:fraction-zero",
        (num_bigint::Sign::Plus, 1) | (num_bigint::Sign::Minus, -1) => "prim:same-signs",
        _ => "prim:opposite-signs",
    });
    if !n.is_zero() {
        rec.nontrivial();
    }
}

fn prim_ratio_closed(ctx: &mut Ctx, imax: i64, dmax: i64) {
    // (int, den in -dmax..=dmax without 0, num in -|den|..=|den|): enumerate num over -dmax..=dmax and skip |num| > |den|
    let (ni, nd, nn) = ((2 * imax + 1) as u64, (2 * dmax) as u64, (2 * dmax + 1) as u64);
    ctx.sweep("prim.ratio", ni * nd * nn, |i, rec| {
        let [ii, id, inn] = unflatten(i, [ni, nd, nn]);
        let int = zigzag(ii);
        let den = zigzag(id + 1); // 1, -1, 2, -2, ...
        let nu = zigzag(inn);
        if nu.abs() > den.abs() {
            rec.hit("skipped:|num|>|den|(outside the documented domain)");
            return;
        }
        prim_ratio_case(rec, &BigInt::from(int), &BigInt::from(nu), &BigInt::from(den), "closed");
        rec.sample(|| format!("round_ratio({}, {}, {}) in six modes", int, nu, den));
    });
    let mut req = prim_required(true);
    req.extend(["prim:den-negative", "prim:den-positive"]);
    ctx.require_classes("prim.ratio", &req);
    ctx.bound("prim.ratio", serde_json::json!({"int": format!("-{}..={}", imax, imax), "den": format!("+-1..+-{}", dmax), "num": "|num| <= |den| (|num| = |den| counted as unspecified)"}));
}

fn prim_ratio_shape(ctx: &mut Ctx) {
    let quick = ctx.quick();
    let lens: Vec<usize> = if quick { vec![1, 2, 3, 5] } else { vec![1, 2, 3, 4, 5, 33, 66] };
    let pats: Vec<&'static str> = vec!["ones", "top1", "top1p1", "alt", "lcgA", "lcgSeed"];
    let dens: Vec<BigInt> = shapes(&lens, &pats, ctx.seed).into_iter().map(|s| BigInt::from(s.v)).filter(|d| d > &BigInt::one()).collect();
    let mut ints: Vec<BigInt> = vec![];
    for i in shape_ints(10) {
        if !i.is_zero() {
            ints.push(-i.clone());
        }
        ints.push(i);
    }
    const NR: u64 = 9; // 0, the <= 7 points of around_half, and |den| itself (unspecified)
    let (nd, ni) = (dens.len() as u64, ints.len() as u64);
    ctx.sweep("prim.ratio.shape", nd * 2 * NR * 2 * ni, |i, rec| {
        let [id, ids, ir, irs, ii] = unflatten(i, [nd, 2, NR, 2, ni]);
        let d = &dens[id];
        let mut rs = around_half(d);
        rs.insert(0, BigInt::zero());
        rs.push(d.clone());
        if ir >= rs.len() {
            rec.hit("skipped:fewer-numerators-for-a-small-denominator");
            return;
        }
        if irs == 1 && rs[ir].is_zero() {
            rec.hit("skipped:minus-zero");
            return;
        }
        let den = if ids == 1 { -d.clone() } else { d.clone() };
        let nu = if irs == 1 { -rs[ir].clone() } else { rs[ir].clone() };
        prim_ratio_case(rec, &ints[ii], &nu, &den, "shape");
        rec.hit(size_class(word_len(d.magnitude())));
        rec.sample(|| format!("round_ratio({}, {}, {}) in six modes", num(&ints[ii]), num(&nu), num(&den)));
    });
    let mut req = prim_required(true);
    req.extend(["prim:den-negative", "prim:den-positive", "w1", "w2", "w3-24"]);
    ctx.require_classes("prim.ratio.shape", &req);
}

// ---------------------------------------------------------------------------------------------

fn self_check(ctx: &mut Ctx) {
    let mut bad: Vec<String> = vec![];
    // 1. BigInt definitions vs the search-style definitions on machine integers
    for n in -60i64..=60 {
        for d in 1i64..=12 {
            let x = Rat::new(BigInt::from(n), BigInt::from(d));
            for m in MODES {
                let a = round_int(&x, m);
                let b = round_int_search(n, d, m);
                if a != BigInt::from(b) {
                    bad.push(format!("round_int({}/{}, {}) = {} but search says {}", n, d, m.name(), a, b));
                }
            }
            if x.trunc() != BigInt::from(n / d) || x.floor() != BigInt::from(n.div_euclid(d)) || x.ceil() != BigInt::from(-((-n).div_euclid(d))) {
                bad.push(format!("trunc/floor/ceil of {}/{}", n, d));
            }
        }
    }
    // 2. hand-computed rows (documentation examples and textbook cases)
    let r = |n: i64, d: i64| Rat::new(BigInt::from(n), BigInt::from(d));
    let rows: [(Rat, Mode, i64); 14] = [
        (r(5, 2), Mode::HalfEven, 2), (r(7, 2), Mode::HalfEven, 4), (r(-5, 2), Mode::HalfEven, -2), (r(5, 2), Mode::HalfAway, 3), (r(-5, 2), Mode::HalfAway, -3),
        (r(-1, 2), Mode::HalfAway, -1), (r(1, 2), Mode::HalfEven, 0), (r(99, 10000), Mode::HalfAway, 0), (r(99, 10000), Mode::Away, 1), (r(-99, 10000), Mode::Up, 0),
        (r(-99, 10000), Mode::Down, -1), (r(-7, 4), Mode::Zero, -1), (r(-7, 4), Mode::Away, -2), (r(1234, 1000), Mode::Zero, 1),
    ];
    for (x, m, w) in rows.iter() {
        if round_int(x, *m) != BigInt::from(*w) {
            bad.push(format!("round_int({}, {}) != {}", x.show(), m.name(), w));
        }
    }
    // 2.345 -> 3 digits (doc example of with_precision: HalfAway gives 2.35, AddOne)
    let x = r(2345, 1000);
    let (v, a, h) = round_digits(&x, 10, 3, Mode::HalfAway);
    if v != r(235, 100) || a != 1 || h != Ordering::Equal {
        bad.push("round_digits(2.345, 3, HalfAway)".into());
    }
    let (v, a, _) = round_digits(&x, 10, 3, Mode::HalfEven);
    if v != r(234, 100) || a != 0 {
        bad.push("round_digits(2.345, 3, HalfEven)".into());
    }
    let (v, a, _) = round_digits(&x.neg(), 10, 3, Mode::Away);
    if v != r(-235, 100) || a != -1 {
        bad.push("round_digits(-2.345, 3, Away)".into());
    }
    let (v, a, _) = round_digits(&r(9996, 1000), 10, 3, Mode::HalfEven); // carry: 9.996 -> 10.0
    if v != r(10, 1) || a != 1 {
        bad.push("round_digits(9.996, 3, HalfEven)".into());
    }
    // the value classes
    let z = fv::<10>(&BigInt::from(9900), -6); // 0.0099 after normalisation
    if z.s != BigInt::from(99) || z.e != -4 || z.zone != "frac:k=-2" || !z.rd.is_zero() || !z.tr.is_zero() || z.ce != BigInt::one() {
        bad.push("fv(0.0099)".into());
    }
    for b in bad.iter().take(5) {
        ctx.machinery(format!("reference self-check failed: {}", b));
    }
}

pub fn run(ctx: &mut Ctx) {
    ctx.rule = "floats: every distinct value s*B^e of the closed universes F(B,P,E) = { |s| < B^P, |e| <= E } and of a constructed family ((i*B^k + f)*B^-k and f*B^(-k-z): i from small/word-boundary integers, f next to 0, next to B^k and around B^k/2, k up to 65 (200 thorough) fraction digits, z = 1..4 leading zeros), each wrapped as FBig with precision digits, digits+1, digits+3 and unlimited (plus digits-1 in builds without debug assertions), in all six rounding modes, through trunc, floor, ceil, round, fract, split_at_point, FBig::to_int, Repr::to_int and with_precision(t) for every target t in 0..=P+1 (constructed family: t around the digit count, around the radix point and 0,1,2,3,19,20,21); rationals: every n/d of Q(N,D) and constructed (q*d + r)/d with multi-word q, d and r next to 0, d/2, d, on RBig and on Relaxed with common factors, through trunc, floor, ceil, round, fract, split_at_point; primitives: every (int, fract, k) and (int, num, den) triple of the stated ranges plus constructed multi-word triples, six modes. Every result is compared with the definition evaluated on exact rationals. non-trivial = value not zero (floats), value not in {-1,0,1} (rationals), non-zero fraction (primitives)".into();
    ctx.assume("reference = the definitions (trunc, floor, ceil, nearest with ties away / to even, away, towards zero) evaluated on exact num_bigint fractions; cross-checked at start against a search-style statement of the same definitions on machine integers and against hand-computed rows");
    ctx.assume("FBig::to_int / with_precision: Inexact(v, adj) is judged strictly: v is the integer (p-digit value) the mode names and adj = v - truncated value (in units of the last kept digit), Exact iff nothing had to be dropped");
    ctx.assume("with_precision(t) must round whenever t != 0 and the value has more than t digits, also when the source precision is unlimited (0)");
    ctx.assume("not judged (only counted): the precision carried by trunc/floor/ceil/round/fract results; round_ratio with |num| = |den| (documented assumption |num/den| < 1)");
    if cfg!(debug_assertions) {
        ctx.assume("over-long operands (digits > precision) cannot be built through the public API in this build (FBig::from_repr asserts); they are enumerated only in the `rel` build");
    }
    self_check(ctx);
    let quick = ctx.quick();

    // floats, closed universes
    if quick {
        float_closed::<2>(ctx, 5, 9);
        float_closed::<10>(ctx, 3, 6);
        float_closed::<3>(ctx, 2, 5);
        float_closed::<16>(ctx, 2, 4);
    } else {
        float_closed::<2>(ctx, 8, 12);
        float_closed::<10>(ctx, 4, 7);
        float_closed::<3>(ctx, 4, 7);
        float_closed::<16>(ctx, 2, 5);
        float_closed::<36>(ctx, 2, 4);
        float_closed::<7>(ctx, 3, 5);
    }
    // floats, constructed values
    float_shape::<2>(ctx);
    float_shape::<10>(ctx);
    if !quick {
        float_shape::<3>(ctx);
        float_shape::<16>(ctx);
        float_shape::<36>(ctx);
    }
    // rationals
    if quick {
        rat_closed(ctx, 60, 16);
    } else {
        rat_closed(ctx, 600, 64);
    }
    rat_shape(ctx);
    // primitives
    let kmax = 3;
    prim_fract_closed::<2>(ctx, 6, if quick { 5 } else { 10 });
    // odd bases: deep enough that the coarse log2 pre-filter of round_fract cannot decide the
    // near-half fractions (B^k - 1)/2 (k >= 7 in base 3, >= 5 in base 5, >= 4 in base 7)
    prim_fract_closed::<3>(ctx, 6, if quick { 8 } else { 9 });
    prim_fract_closed::<5>(ctx, 6, if quick { 5 } else { 6 });
    prim_fract_closed::<7>(ctx, 6, if quick { 4 } else { 5 });
    prim_fract_closed::<10>(ctx, 6, if quick { kmax } else { 4 });
    prim_fract_closed::<16>(ctx, 6, kmax);
    if !quick {
        prim_fract_closed::<36>(ctx, 6, 3);
    }
    prim_fract_shape::<2>(ctx);
    prim_fract_shape::<10>(ctx);
    if !quick {
        prim_fract_shape::<3>(ctx);
        prim_fract_shape::<16>(ctx);
        prim_fract_shape::<36>(ctx);
    }
    prim_ratio_closed(ctx, 6, if quick { 12 } else { 40 });
    prim_ratio_shape(ctx);
    ctx.bound("bases", serde_json::json!(if quick { vec![2, 10, 3, 16] } else { vec![2, 10, 3, 16, 36, 7] }));
    ctx.bound("modes", serde_json::json!(MODES.iter().map(|m| m.name()).collect::<Vec<_>>()));
}
