//! C11 — exp, exp_m1, ln, ln_1p, powi, powf return a value within 1 ulp (at precision p) of the
//! true real result and flag it Exact only if it is exact; unlimited precision is refused by panic.
//! Oracle: rigorous enclosures with exact rational end points (h11.rs, refined until every
//! comparison is decided); powi by exact rational powers.

#[path = "h11.rs"]
mod h11;

use crate::core::{guard, is_internal_panic, panic_class, Ctx, Rec};
use crate::for_all_modes;
use crate::fref::*;
use crate::h::unflatten;
use crate::uni::ref_to_i;
use dashu_base::Approximation;
use dashu_float::round::Rounding;
use dashu_float::{Context, FBig, Repr};
use dashu_int::Word;
use h11::{Func, Real};
use num_bigint::BigInt;
use num_traits::{One, Zero};
use std::cmp::Ordering;

const P: &str = "C11";

type Rounded<R, const B: Word> = Approximation<FBig<R, B>, Rounding>;

struct Val<const B: Word> {
    s: BigInt,
    e: i64,
    digits: usize,
    rat: Rat,
    repr: Repr<B>,
    /// "" for the closed universes, "tiny"/"huge" for the extreme arguments
    tag: &'static str,
}

fn mk_val<const B: Word>(s: &BigInt, e: i64, tag: &'static str) -> Val<B> {
    // normalise: no trailing zero digit in the significand
    let (mut s, mut e) = (s.clone(), e);
    let b = BigInt::from(B as u32);
    while !s.is_zero() && (&s % &b).is_zero() {
        s /= &b;
        e += 1;
    }
    if s.is_zero() {
        e = 0;
    }
    Val { digits: digits_b(&s, B as u32), rat: Rat::scaled(&s, B as u32, e), repr: mk_repr::<B>(&s, e), s, e, tag }
}

/// distinct values, first occurrence kept
fn vals<const B: Word>(u: &[(BigInt, i64)], tag: &'static str) -> Vec<Val<B>> {
    let mut seen = std::collections::BTreeSet::new();
    let mut out = vec![];
    for (s, e) in u {
        let v = mk_val::<B>(s, *e, tag);
        if seen.insert((v.s.clone(), v.e)) {
            out.push(v);
        }
    }
    out
}

/// F(B,fp,fe) ∪ {±B^-k, 1 ± B^-k, -1 + B^-k : k <= near} ∪ {±d·B^j : d = 1..9, j = 1, 2}
fn x_universe(base: u32, fp: u32, fe: i64, near: i64) -> Vec<(BigInt, i64)> {
    let mut u = f_universe(base, fp, fe);
    for k in 1..=near {
        let bk = pow_b(base, k as u64);
        u.push((BigInt::one(), -k));
        u.push((-BigInt::one(), -k));
        u.push((&bk + 1, -k));
        u.push((&bk - 1, -k));
        u.push((BigInt::one() - &bk, -k)); // next to the edge -1 of the domain of ln_1p
    }
    for j in 1..=2 {
        for d in 1..=9 {
            u.push((BigInt::from(d), j));
            u.push((BigInt::from(-d), j));
        }
    }
    u
}

fn pbucket(p: usize) -> &'static str {
    match p {
        0 => "p0",
        1..=3 => "p1-3",
        4..=8 => "p4-8",
        9..=33 => "p9-33",
        _ => "p>33",
    }
}

fn xclass<const B: Word>(v: &Val<B>, p: usize) -> &'static str {
    if v.tag == "huge-scaled" {
        // long and short significands of the same magnitude are different operand classes
        if p == 0 || v.digits <= p {
            "huge-scaled"
        } else {
            "huge-scaled,x-long"
        }
    } else if !v.tag.is_empty() {
        v.tag
    } else if p == 0 || v.digits <= p {
        "x-fit"
    } else {
        "x-long"
    }
}

fn sig(site: &str, kind: &str, base: Word, mode: Mode, p: usize, extra: &str, xc: &str) -> String {
    let mut s = format!("{}|{}|{}|B{},{},{}", P, site, kind, base, if mode.is_half() { "half" } else { "directed" }, pbucket(p));
    if !extra.is_empty() {
        s.push(',');
        s.push_str(extra);
    }
    s.push(',');
    s.push_str(xc);
    s
}

/// working precision (bits) of the first enclosure level for a list of precisions
fn w0_for(base: u32, precs: &[usize]) -> u64 {
    let pmax = precs.iter().copied().max().unwrap_or(1).max(1) as f64;
    (pmax * (base as f64).log2()).ceil() as u64 + 64
}

/// The C11 contract on one (value, flag): |r - x| < ulp_p(x), Exact only if r = x, at most p+1
/// digits (the documented slack of `Repr`), nothing at precision 0 unless exact.
/// Returns the violated clauses as (kind, extra class, explanation).
fn judge11(x: &Real, r: &FVal, flag: Flag, p: usize, mode: Mode, rec: &mut Rec) -> Vec<(&'static str, &'static str, String)> {
    let mut out = vec![];
    let rv = h11::scaled_raw(&r.sig, r.base, r.exp);
    let c = x.cmp_rat(&rv); // x ? r
    if x.undecided() {
        return out;
    }
    if c == Ordering::Equal {
        match flag {
            Flag::Exact => rec.hit("exact-value:flag-exact"),
            Flag::Inexact(_) => rec.hit("unspecified:exact-value-flagged-inexact"),
        }
        return out;
    }
    if flag == Flag::Exact {
        out.push(("flag-exact-but-inexact", "", format!("result {} is flagged Exact but differs from the true value {}", r.show(), x.describe())));
    }
    if p == 0 {
        out.push(("inexact-at-unlimited-precision", "", format!("result {} differs from {} at precision 0", r.show(), x.describe())));
        return out;
    }
    if x.is_zero() {
        out.push(("nonzero-for-zero", "", format!("true value is 0, result {}", r.show())));
        return out;
    }
    let e = x.floor_log(r.base);
    if x.undecided() {
        return out;
    }
    let q = e - p as i64 + 1; // ulp = base^q
    let r_above = c == Ordering::Less;
    // is |r - x| >= k/2 ulp ?  (r -+ k/2 ulp = (2 sig B^(re-m) -+ k B^(q-m)) B^m / 2, m = min(re, q); no gcd)
    let m = r.exp.min(q);
    let two_r = &r.sig * pow_b(r.base, (r.exp - m) as u64) * 2;
    let u = pow_b(r.base, (q - m) as u64);
    let far = |k: i64| -> bool {
        let num = if r_above { &two_r - &u * k } else { &two_r + &u * k };
        let mut b = h11::scaled_raw(&num, r.base, m);
        b.d *= 2;
        if r_above {
            x.cmp_rat(&b) != Ordering::Greater
        } else {
            x.cmp_rat(&b) != Ordering::Less
        }
    };
    if far(2) {
        let bucket = if far(4) {
            ">=2ulp"
        } else if far(3) {
            "[1.5,2)ulp"
        } else {
            "[1,1.5)ulp"
        };
        out.push(("error>=1ulp", bucket, format!("result {} (~{}), true value {}, ulp = {}^{}: error {}", r.show(), h11::approx(&rv), x.describe(), r.base, q, bucket)));
    } else {
        rec.hit("within-1ulp");
        // informational only: is it also the correctly rounded value of the mode?
        let x_pos = x.cmp_rat(&Rat::zero()) == Ordering::Greater;
        let cr = match mode {
            Mode::Up => r_above,
            Mode::Down => !r_above,
            Mode::Zero => r_above != x_pos,
            Mode::Away => r_above == x_pos,
            _ => !far(1),
        };
        rec.hit(if cr { "info:correctly-rounded" } else { "info:faithful-but-not-correctly-rounded" });
    }
    match flag {
        Flag::Inexact(Rounding::AddOne) if !r_above => rec.hit("unspecified:flag-AddOne-but-result-below"),
        Flag::Inexact(Rounding::SubOne) if r_above => rec.hit("unspecified:flag-SubOne-but-result-above"),
        _ => {}
    }
    let d = r.digits();
    if d > p + 1 {
        out.push(("too-many-digits", "", format!("result {} has {} significant digits at precision {}", r.show(), d, p)));
    } else if d == p + 1 {
        rec.hit("info:result-has-p+1-digits");
    }
    out
}

fn parts<R: ModeTag, const B: Word>(a: &Rounded<R, B>) -> (&FBig<R, B>, Flag) {
    match a {
        Approximation::Exact(v) => (v, Flag::Exact),
        Approximation::Inexact(v, r) => (v, Flag::Inexact(*r)),
    }
}

/// judge one result of a dashu call against the exact real x
#[allow(clippy::too_many_arguments)]
fn check_res<R: ModeTag, const B: Word>(rec: &mut Rec, site: &str, x: &Real, case: &dyn Fn() -> String, p: usize, xc: &str, got: &Result<Rounded<R, B>, String>) {
    rec.step();
    match got {
        Ok(a) => {
            let (v, flag) = parts(a);
            if v.repr().is_infinite() {
                rec.fail(sig(site, "infinite-result", B, R::MODE, p, "", xc), case(), "infinite", x.describe());
                return;
            }
            let mut r = fval(v.repr());
            if let Some((_, k)) = x.scale {
                // the real is f(x) / B^k: scale the result by the same power
                r.exp -= k;
            }
            let errs = judge11(x, &r, flag, p, R::MODE, rec);
            if x.undecided() {
                rec.hit("machinery:undecided");
                return;
            }
            for (kind, extra, why) in errs {
                // one root cause (the flag of the last rounding step is reported): one signature per call site and base
                let sg = if kind == "flag-exact-but-inexact" { format!("{}|{}|{}|B{}", P, site, kind, B) } else { sig(site, kind, B, R::MODE, p, extra, xc) };
                rec.fail(sg, case(), format!("{} flag {:?}: {}", r.show(), flag, why), format!("a value within 1 ulp (precision {}) of {}, flagged Exact only if equal", p, x.describe()));
            }
            if v.precision() != p {
                rec.hit("info:result-context-precision-differs");
            }
        }
        Err(m) => {
            if p == 0 && !is_internal_panic(m) && m.contains("precision cannot be 0") {
                rec.hit("p0:refused-by-panic");
                return;
            }
            let kind = if is_internal_panic(m) { "internal-panic" } else { "panic" };
            rec.fail(format!("{}|{}|{}|B{},{},{},{}", P, site, kind, B, pbucket(p), xc, panic_class(m)), case(), format!("panic: {}", m), format!("a value within 1 ulp of {}", x.describe()));
        }
    }
}

/// (significand without trailing zero digits, exponent)
fn norm(v: &FVal) -> (BigInt, i64) {
    let (mut s, mut e) = (v.sig.clone(), v.exp);
    if s.is_zero() {
        return (s, 0);
    }
    let b = BigInt::from(v.base);
    while (&s % &b).is_zero() {
        s /= &b;
        e += 1;
    }
    (s, e)
}

/// the FBig method must give the value of the Context method (same precision, same mode)
fn agree<R: ModeTag, const B: Word>(rec: &mut Rec, site: &str, case: &dyn Fn() -> String, ctx_res: &Result<Rounded<R, B>, String>, fb: Result<FBig<R, B>, String>) {
    rec.step();
    let same = match (ctx_res, &fb) {
        (Ok(a), Ok(y)) => {
            let (x, _) = parts(a);
            x.repr().is_infinite() == y.repr().is_infinite() && (x.repr().is_infinite() || norm(&fval(x.repr())) == norm(&fval(y.repr())))
        }
        (Err(_), Err(_)) => true,
        _ => false,
    };
    if same {
        rec.hit("fbig-method-agrees");
    } else {
        let show = |r: Result<String, String>| match r {
            Ok(s) => s,
            Err(m) => format!("panic: {}", m),
        };
        rec.fail(
            format!("{}|{}|method-differs-from-context|B{},{}", P, site, B, R::MODE.name()),
            case(),
            show(fb.map(|v| fval(v.repr()).show())),
            show(ctx_res.as_ref().map(|a| fval(parts(a).0.repr()).show()).map_err(|m| m.clone())),
        );
    }
}

// ---------------------------------------------------------------------------------------------
// exp, exp_m1, ln, ln_1p

const FUNCS: [Func; 4] = [Func::Exp, Func::Expm1, Func::Ln, Func::Ln1p];

fn in_domain(f: Func, x: &Rat) -> bool {
    match f {
        Func::Ln => x.sgn() > 0,
        Func::Ln1p => x.cmp(&Rat::from_i(-1)) == Ordering::Greater,
        _ => true,
    }
}

fn call_transc<R: ModeTag, const B: Word>(rec: &mut Rec, real: &Real, v: &Val<B>, f: Func, p: usize) {
    let c = Context::<R>::new(p);
    let site = format!("Context::{}", f.name());
    let case = || format!("base {} p={} {}: {}({}e{})", B, p, R::MODE.name(), f.name(), v.s, v.e);
    let got = guard(|| match f {
        Func::Exp => c.exp(&v.repr),
        Func::Expm1 => c.exp_m1(&v.repr),
        Func::Ln => c.ln(&v.repr),
        Func::Ln1p => c.ln_1p(&v.repr),
        Func::Pow => unreachable!(),
    });
    check_res::<R, B>(rec, &site, real, &case, p, xclass(v, p), &got);
    if p == 0 || v.digits <= p {
        let fb = FBig::<R, B>::from_repr(v.repr.clone(), c);
        let g2 = guard(|| match f {
            Func::Exp => fb.exp(),
            Func::Expm1 => fb.exp_m1(),
            Func::Ln => fb.ln(),
            Func::Ln1p => fb.ln_1p(),
            Func::Pow => unreachable!(),
        });
        agree::<R, B>(rec, &format!("FBig::{}", f.name()), &case, &got, g2);
    }
}

fn transc<const B: Word>(ctx: &mut Ctx, name: &str, va: &[Val<B>], precs: &[usize], required: &[&str]) {
    let n = va.len() as u64 * FUNCS.len() as u64;
    let w0 = w0_for(B as u32, precs);
    let inv_b = Rat::new(BigInt::one(), BigInt::from(B as u32));
    ctx.sweep(name, n, |i, rec| {
        let [iv, ifn] = unflatten(i, [va.len() as u64, FUNCS.len() as u64]);
        let (v, f) = (&va[iv], FUNCS[ifn]);
        if !in_domain(f, &v.rat) {
            rec.hit("skipped:outside-the-domain(C16)");
            return;
        }
        let real = Real::new(f, v.rat.clone(), Rat::zero(), w0);
        for &p in precs {
            for_all_modes!(call_transc, B, (rec, &real, v, f, p));
            rec.hit(if p == 0 {
                "arg:p0"
            } else if v.digits <= p {
                "arg:x-fit"
            } else {
                "arg:x-long"
            });
        }
        // designed classes of the argument (thresholds read out of exp.rs / log.rs)
        let small = v.rat.abs().cmp(&inv_b) == Ordering::Less && !v.rat.is_zero();
        match f {
            Func::Exp => rec.hit(if v.rat.is_neg() { "exp:negative-argument" } else { "exp:non-negative-argument" }),
            Func::Expm1 => rec.hit(if small {
                if v.rat.is_neg() {
                    "exp_m1:|x|<1/B,negative(series-without-scaling)"
                } else {
                    "exp_m1:|x|<1/B,positive(series-without-scaling)"
                }
            } else {
                "exp_m1:|x|>=1/B(reduction+powering)"
            }),
            Func::Ln => {
                let c1 = v.rat.cmp(&Rat::from_i(1));
                rec.hit(if c1 == Ordering::Less { "ln:x<1(s<0,doubled-precision)" } else { "ln:x>=1" });
                if v.rat.n.magnitude().count_ones() == 1 && v.rat.d.magnitude().count_ones() == 1 && B != 2 {
                    rec.hit("ln:x-power-of-two(z=0)");
                }
            }
            Func::Ln1p => rec.hit(if small { "ln_1p:|x|<1/B(series-without-scaling)" } else if v.rat.is_neg() { "ln_1p:-1<x<=-1/B" } else { "ln_1p:x>=1/B" }),
            Func::Pow => {}
        }
        if real.exact().is_none() {
            rec.nontrivial();
            rec.hit(match real.deepest_level() {
                0 => "refine:level0",
                1 => "refine:level1",
                _ => "refine:level2+",
            });
        }
        rec.sample(|| {
            let (lo, hi) = if real.exact().is_some() { (real.exact().unwrap().clone(), real.exact().unwrap().clone()) } else { real.enclosure(0) };
            format!("base {} {}({}e{}) for p in {:?} x six modes; true value in [{}, {}]", B, f.name(), v.s, v.e, precs, h11::approx(&lo), h11::approx(&hi))
        });
    });
    machinery_classes(ctx, name);
    ctx.require_classes(name, required);
}

fn machinery_classes(ctx: &mut Ctx, name: &str) {
    let und = ctx.sweeps.iter().find(|s| s.name == name).and_then(|s| s.classes.get("machinery:undecided").copied()).unwrap_or(0);
    if und != 0 {
        ctx.machinery(format!("sweep {}: {} comparisons could not be decided by the enclosures after {} refinements", name, und, h11::MAX_LEVEL));
    }
}

const REQ_TRANSC: [&str; 17] = [
    "within-1ulp",
    "exact-value:flag-exact",
    "p0:refused-by-panic",
    "arg:x-fit",
    "arg:x-long",
    "fbig-method-agrees",
    "skipped:outside-the-domain(C16)",
    "exp:negative-argument",
    "exp:non-negative-argument",
    "exp_m1:|x|<1/B,negative(series-without-scaling)",
    "exp_m1:|x|<1/B,positive(series-without-scaling)",
    "exp_m1:|x|>=1/B(reduction+powering)",
    "ln:x<1(s<0,doubled-precision)",
    "ln:x>=1",
    "ln_1p:|x|<1/B(series-without-scaling)",
    "ln_1p:-1<x<=-1/B",
    "ln_1p:x>=1/B",
];

/// tiny and huge arguments (relative accuracy of the enclosures is independent of the magnitude)
fn extreme_vals<const B: Word>(quick: bool) -> Vec<Val<B>> {
    let lb = (B as f64).log10();
    let ex = |dec: f64| (dec / lb).ceil() as i64; // B^ex(dec) >= 10^dec
    let mut u: Vec<Val<B>> = vec![];
    for (d, e) in [(1i64, -1000i64), (-1, -1000), (1, -100), (-1, -100), (7, -41), (-7, -41), (1, -ex(9.0)), (-1, -ex(9.0))] {
        u.push(mk_val::<B>(&BigInt::from(d), e, "tiny"));
    }
    let decs: &[f64] = if quick { &[3.0, 4.0] } else { &[3.0, 4.0, 5.0, 6.0] };
    for &dec in decs {
        let e = ex(dec);
        u.push(mk_val::<B>(&BigInt::one(), e, "huge"));
        u.push(mk_val::<B>(&-BigInt::one(), e, "huge"));
        u.push(mk_val::<B>(&(pow_b(B as u32, 2) - 1), e - 2, "huge"));
    }
    // huge arguments with long and short significands (exp is judged through its quotient by a
    // power of the base): magnitudes B^30 .. 2^55
    let ks: &[i64] = match B {
        2 => &[30, 33, 40, 45, 50, 55],
        3 => &[20, 30, 33],
        10 => &[10, 12, 15],
        16 => &[8, 10, 12],
        _ => &[8, 10],
    };
    for &k in ks {
        let long = pow_b(B as u32, k as u64) + 1;
        u.push(mk_val::<B>(&long, 0, "huge-scaled"));
        u.push(mk_val::<B>(&-long.clone(), 0, "huge-scaled"));
        u.push(mk_val::<B>(&(pow_b(B as u32, (k / 2) as u64) + 1), k - k / 2, "huge-scaled"));
        u.push(mk_val::<B>(&BigInt::one(), k, "huge-scaled"));
    }
    // for ln / ln_1p only (exp of them is beyond every enclosure): B^100, B^1000
    u.push(mk_val::<B>(&BigInt::one(), 100, "huge-log-only"));
    u.push(mk_val::<B>(&BigInt::from(3), 1000, "huge-log-only"));
    u.push(mk_val::<B>(&BigInt::from(7), 5000, "huge-log-only"));
    // magnitudes around 128 digits, on both sides of 1 (ln switches to taking the exponent out in
    // base B there)
    for m in 126i64..=131 {
        u.push(mk_val::<B>(&BigInt::one(), m, "huge-log-only"));
        u.push(mk_val::<B>(&(pow_b(B as u32, 2) - 1), m - 1, "huge-log-only"));
        u.push(mk_val::<B>(&BigInt::one(), -m, "tiny"));
        u.push(mk_val::<B>(&(pow_b(B as u32, 2) - 1), -m - 1, "tiny"));
    }
    u
}

fn extreme<const B: Word>(ctx: &mut Ctx, precs: &[usize]) {
    let va = extreme_vals::<B>(ctx.quick());
    let name = format!("extreme.B{}", B);
    let n = va.len() as u64 * FUNCS.len() as u64;
    let w0 = w0_for(B as u32, precs);
    // isolated: a wrong argument reduction on a huge argument can ask for unbounded memory or time
    ctx.sweep_isolated(&name, n, |i, rec| {
        let [iv, ifn] = unflatten(i, [va.len() as u64, FUNCS.len() as u64]);
        let (v, f) = (&va[iv], FUNCS[ifn]);
        rec.label(&format!("{},{}", f.name(), if v.tag.is_empty() { "closed" } else { v.tag }), &format!("base {} {}({}e{})", B, f.name(), v.s, v.e));
        if !in_domain(f, &v.rat) {
            rec.hit("skipped:outside-the-domain(C16)");
            return;
        }
        if v.tag == "huge-log-only" && matches!(f, Func::Exp | Func::Expm1) {
            rec.hit("skipped:exp-of-B^100-has-no-feasible-enclosure");
            return;
        }
        if v.tag == "huge-scaled" && f == Func::Expm1 && v.rat.is_neg() {
            // -1 + e^x with e^x < 2^-(10^6): no feasible enclosure of the difference to -1, and the
            // arguments -10^3 .. -10^6 of the "huge" class already cover this path
            rec.hit("skipped:exp_m1-of-huge-negative-argument");
            return;
        }
        let real = if v.tag == "huge-scaled" && (f == Func::Exp || (f == Func::Expm1 && !v.rat.is_neg())) {
            rec.hit("arg:huge,exp-judged-through-scaled-quotient");
            Real::exp_scaled(f, v.rat.clone(), B as u32, w0)
        } else {
            Real::new(f, v.rat.clone(), Rat::zero(), w0)
        };
        for &p in precs {
            for_all_modes!(call_transc, B, (rec, &real, v, f, p));
        }
        rec.hit(if v.tag == "tiny" { "arg:tiny" } else { "arg:huge" });
        rec.nontrivial();
        rec.sample(|| {
            let (lo, hi) = real.enclosure(0);
            format!("base {} {}({}e{}) for p in {:?} x six modes; true value in [{}, {}]", B, f.name(), v.s, v.e, precs, h11::approx(&lo), h11::approx(&hi))
        });
    });
    machinery_classes(ctx, &name);
    ctx.require_classes(&name, &["within-1ulp", "arg:tiny", "arg:huge", "arg:huge,exp-judged-through-scaled-quotient", "fbig-method-agrees"]);
}

// ---------------------------------------------------------------------------------------------
// powi

fn call_powi<R: ModeTag, const B: Word>(rec: &mut Rec, real: Option<&Real>, v: &Val<B>, e: i64, p: usize) {
    let c = Context::<R>::new(p);
    let case = || format!("base {} p={} {}: powi({}e{}, {})", B, p, R::MODE.name(), v.s, v.e, e);
    let got = guard(|| c.powi(&v.repr, ref_to_i(&BigInt::from(e))));
    let xc = if e < 0 { "negative-exponent" } else { "non-negative-exponent" };
    match real {
        None => {
            // 0^negative: outside the mathematical domain, the documentation is silent
            rec.step();
            rec.hit(if got.is_err() { "unspecified:zero-to-negative-power-panics" } else { "unspecified:zero-to-negative-power-returns" });
        }
        Some(real) => {
            if p == 0 && e < 0 {
                // documented: "Panics if the precision is unlimited and the exponent is negative"
                rec.step();
                match &got {
                    Err(m) if !is_internal_panic(m) => rec.hit("p0:refused-by-panic"),
                    Err(m) => rec.fail(format!("{}|Context::powi|internal-panic|B{},p0,negative-exponent", P, B), case(), m.clone(), "the documented panic (unlimited precision, negative exponent)"),
                    Ok(a) => rec.fail(format!("{}|Context::powi|missing-panic|B{},p0,negative-exponent", P, B), case(), format!("returned {}", fval(parts(a).0.repr()).show()), "panic (unlimited precision and negative exponent)"),
                }
            } else {
                check_res::<R, B>(rec, "Context::powi", real, &case, p, xc, &got);
            }
        }
    }
    if p == 0 || v.digits <= p {
        let fb = FBig::<R, B>::from_repr(v.repr.clone(), c);
        let g2 = guard(|| fb.powi(ref_to_i(&BigInt::from(e))));
        agree::<R, B>(rec, "FBig::powi", &case, &got, g2);
    }
}

fn powi<const B: Word>(ctx: &mut Ctx, va: &[Val<B>], exps: &[i64], precs: &[usize]) {
    let name = format!("powi.B{}", B);
    let n = va.len() as u64 * exps.len() as u64;
    ctx.sweep(&name, n, |i, rec| {
        let [iv, ie] = unflatten(i, [va.len() as u64, exps.len() as u64]);
        let (v, e) = (&va[iv], exps[ie]);
        let real = if v.rat.is_zero() && e < 0 { None } else { Some(Real::rational(v.rat.powi(e))) };
        for &p in precs {
            for_all_modes!(call_powi, B, (rec, real.as_ref(), v, e, p));
        }
        rec.hit(match e {
            0 => "powi:exponent-0",
            1 => "powi:exponent-1",
            2 | 3 => "powi:exponent-2,3",
            _ if e < 0 => "powi:negative-exponent(inverse-at-the-end)",
            _ if e >= 1000 => "powi:exponent>=1000",
            _ => "powi:exponent-4..64",
        });
        if !v.rat.is_zero() && v.rat.abs() != Rat::from_i(1) && e != 0 && e != 1 {
            rec.nontrivial();
        }
        rec.sample(|| format!("base {} powi({}e{}, {}) for p in {:?} x six modes; true value {}", B, v.s, v.e, e, precs, real.as_ref().map(|r| h11::approx(r.exact().unwrap())).unwrap_or("undefined".into())));
    });
    ctx.require_classes(
        &name,
        &["within-1ulp", "exact-value:flag-exact", "p0:refused-by-panic", "fbig-method-agrees", "powi:exponent-0", "powi:exponent-1", "powi:exponent-2,3", "powi:negative-exponent(inverse-at-the-end)", "powi:exponent>=1000", "powi:exponent-4..64"],
    );
}

// ---------------------------------------------------------------------------------------------
// powf

fn call_powf<R: ModeTag, const B: Word>(rec: &mut Rec, real: Option<&Real>, x: &Val<B>, y: &Val<B>, p: usize) {
    let c = Context::<R>::new(p);
    let case = || format!("base {} p={} {}: powf({}e{}, {}e{})", B, p, R::MODE.name(), x.s, x.e, y.s, y.e);
    let got = guard(|| c.powf(&x.repr, &y.repr));
    let fit = p == 0 || (x.digits <= p && y.digits <= p);
    match real {
        None => {
            rec.step();
            if p == 0 {
                match &got {
                    Err(m) if !is_internal_panic(m) => rec.hit("p0:refused-by-panic"),
                    _ => rec.hit("unspecified:zero-base-at-p0"),
                }
            } else {
                rec.hit(if got.is_err() { "unspecified:zero-base-with-non-positive-exponent-panics" } else { "unspecified:zero-base-with-non-positive-exponent-returns" });
            }
        }
        Some(real) => {
            if p == 0 {
                // documented: "Panics if the precision is unlimited"
                rec.step();
                match &got {
                    Err(m) if !is_internal_panic(m) => rec.hit("p0:refused-by-panic"),
                    Err(m) => rec.fail(format!("{}|Context::powf|internal-panic|B{},p0", P, B), case(), m.clone(), "the documented panic (unlimited precision)"),
                    Ok(a) => rec.fail(format!("{}|Context::powf|missing-panic|B{},p0", P, B), case(), format!("returned {}", fval(parts(a).0.repr()).show()), "panic (unlimited precision)"),
                }
            } else {
                let xc = match (fit, real.exact().is_some()) {
                    (true, false) => "x-fit",
                    (false, false) => "x-long",
                    (true, true) => "x-fit,rational-power",
                    (false, true) => "x-long,rational-power",
                };
                check_res::<R, B>(rec, "Context::powf", real, &case, p, xc, &got);
            }
        }
    }
    if fit && p <= 3 {
        let (fx, fy) = (FBig::<R, B>::from_repr(x.repr.clone(), c), FBig::<R, B>::from_repr(y.repr.clone(), c));
        let g2 = guard(|| fx.powf(&fy));
        agree::<R, B>(rec, "FBig::powf", &case, &got, g2);
    }
}

fn powf<const B: Word>(ctx: &mut Ctx, tag: &str, vx: &[Val<B>], vy: &[Val<B>], precs: &[usize]) {
    let name = format!("powf.B{}{}", B, tag);
    let n = vx.len() as u64 * vy.len() as u64;
    let w0 = w0_for(B as u32, precs);
    ctx.sweep(&name, n, |i, rec| {
        let [ix, iy] = unflatten(i, [vx.len() as u64, vy.len() as u64]);
        let (x, y) = (&vx[ix], &vy[iy]);
        // 0^y is defined (= 0) for y > 0 only
        let real = if x.rat.is_zero() {
            if y.rat.sgn() > 0 {
                Some(Real::rational(Rat::zero()))
            } else {
                None
            }
        } else {
            Some(Real::new(Func::Pow, x.rat.clone(), y.rat.clone(), w0))
        };
        for &p in precs {
            for_all_modes!(call_powf, B, (rec, real.as_ref(), x, y, p));
        }
        if let Some(r) = &real {
            if r.exact().is_some() {
                rec.hit(if y.rat.is_int() { "powf:integer-exponent(rational-value)" } else if x.rat.is_zero() || x.rat == Rat::from_i(1) { "powf:base-0-or-1" } else { "powf:perfect-power-with-fractional-exponent(rational-value)" });
            } else {
                rec.hit("powf:irrational-value");
                rec.nontrivial();
                rec.hit(match r.deepest_level() {
                    0 => "refine:level0",
                    1 => "refine:level1",
                    _ => "refine:level2+",
                });
            }
            rec.hit(if y.rat.is_neg() { "powf:negative-exponent" } else { "powf:non-negative-exponent" });
            rec.hit(match x.rat.cmp(&Rat::from_i(1)) {
                Ordering::Less => "powf:base<1",
                Ordering::Equal => "powf:base=1",
                Ordering::Greater => "powf:base>1",
            });
        }
        rec.sample(|| format!("base {} powf({}e{}, {}e{}) for p in {:?} x six modes; true value {}", B, x.s, x.e, y.s, y.e, precs, real.as_ref().map(|r| r.describe()).unwrap_or("undefined".into())));
    });
    machinery_classes(ctx, &name);
    ctx.require_classes(
        &name,
        &[
            "within-1ulp",
            "exact-value:flag-exact",
            "p0:refused-by-panic",
            "fbig-method-agrees",
            "powf:integer-exponent(rational-value)",
            "powf:perfect-power-with-fractional-exponent(rational-value)",
            "powf:irrational-value",
            "powf:negative-exponent",
            "powf:non-negative-exponent",
            "powf:base<1",
            "powf:base>1",
        ],
    );
}

// ---------------------------------------------------------------------------------------------
// reference self-check

fn self_check(ctx: &mut Ctx) {
    let mut bad: Vec<String> = vec![];
    // known digits (70 significant digits, computed with an independent decimal library)
    let consts: [(&str, Func, Rat, &str); 4] = [
        ("e", Func::Exp, Rat::from_i(1), "2718281828459045235360287471352662497757247093699959574966967627724077"),
        ("1/e", Func::Exp, Rat::from_i(-1), "3678794411714423215955237701614608674458111310317678345078368016974615"),
        ("ln 2", Func::Ln, Rat::from_i(2), "6931471805599453094172321214581765680755001343602552541206800094933936"),
        ("ln 10", Func::Ln, Rat::from_i(10), "2302585092994045684017991454684364207601101488628772976033327900967573"),
    ];
    for (name, f, x, digits) in consts {
        let d: BigInt = digits.parse().unwrap();
        let lead: i64 = if name == "e" || name == "ln 10" { 1 } else { 0 };
        // value = d * 10^(lead - 70), correctly rounded in the last digit: true value within +-1 unit
        let lo = Rat::scaled(&(&d - 1), 10, lead - 70);
        let hi = Rat::scaled(&(&d + 1), 10, lead - 70);
        for w in [64u64, 200, 300] {
            let r = Real::new(f, x.clone(), Rat::zero(), w);
            let (elo, ehi) = r.enclosure(0);
            // the enclosure must be consistent with the known digits and tight
            let overlap = elo.cmp(&hi) != Ordering::Greater && ehi.cmp(&lo) != Ordering::Less;
            let width = ehi.sub(&elo);
            let tight = width.cmp(&Rat::scaled(&BigInt::one(), 2, -(w as i64) + 8)) == Ordering::Less;
            let contains_at_full = w < 240 || (elo.cmp(&hi) != Ordering::Greater && lo.cmp(&ehi) != Ordering::Greater && width.cmp(&Rat::scaled(&BigInt::from(4), 10, lead - 70)) == Ordering::Less);
            if !(overlap && tight && contains_at_full && elo.cmp(&ehi) != Ordering::Greater) {
                bad.push(format!("{} at {} bits: [{}, {}]", name, w, h11::approx(&elo), h11::approx(&ehi)));
            }
        }
    }
    // against libm on a grid (independent implementation; 1e-13 relative agreement, enclosure well-formed)
    let grid: Vec<Rat> = {
        let mut g = vec![];
        for n in -40i64..=40 {
            g.push(Rat::new(BigInt::from(n), BigInt::from(8)));
            g.push(Rat::new(BigInt::from(n), BigInt::from(1000)));
            g.push(Rat::new(BigInt::from(n * 37), BigInt::from(3)));
        }
        g
    };
    let close = |lo: &Rat, hi: &Rat, want: f64| -> bool {
        let (a, b) = (h11::to_f64(lo), h11::to_f64(hi));
        lo.cmp(hi) != Ordering::Greater && (a - want).abs() <= 1e-13 * want.abs().max(f64::MIN_POSITIVE) && (b - want).abs() <= 1e-13 * want.abs().max(f64::MIN_POSITIVE)
    };
    for x in &grid {
        let xf = h11::to_f64(x);
        let (lo, hi) = h11::exp_enc(x, 80);
        if !close(&lo, &hi, xf.exp()) {
            bad.push(format!("exp({}) vs libm", x.show()));
        }
        let (lo, hi) = h11::expm1_enc(x, 80);
        if !x.is_zero() && !close(&lo, &hi, xf.exp_m1()) {
            bad.push(format!("expm1({}) vs libm", x.show()));
        }
        if x.sgn() > 0 && *x != Rat::from_i(1) {
            let (lo, hi) = h11::ln_enc(x, 80);
            if !close(&lo, &hi, xf.ln()) {
                bad.push(format!("ln({}) vs libm", x.show()));
            }
            let y = Rat::new(BigInt::from(-7), BigInt::from(4));
            let (lo, hi) = h11::pow_enc(x, &y, 80);
            if !close(&lo, &hi, xf.powf(-1.75)) {
                bad.push(format!("pow({}, -7/4) vs libm", x.show()));
            }
        }
        if x.cmp(&Rat::from_i(-1)) == Ordering::Greater && !x.is_zero() {
            let (lo, hi) = h11::ln1p_enc(x, 80);
            if !close(&lo, &hi, xf.ln_1p()) {
                bad.push(format!("ln1p({}) vs libm", x.show()));
            }
        }
    }
    // algebraic identities decided through the ExactReal interface
    {
        // sqrt(2) = 2^(1/2): irrational, its square encloses 2
        let r = Real::new(Func::Pow, Rat::from_i(2), Rat::new(BigInt::one(), BigInt::from(2)), 100);
        let (lo, hi) = r.enclosure(0);
        if r.exact().is_some() || lo.mul(&lo).cmp(&Rat::from_i(2)) != Ordering::Less || hi.mul(&hi).cmp(&Rat::from_i(2)) != Ordering::Greater {
            bad.push("2^(1/2)".into());
        }
        // (9/4)^(3/2) = 27/8 exactly; 8^(-2/3) = 1/4
        let r = Real::new(Func::Pow, Rat::new(BigInt::from(9), BigInt::from(4)), Rat::new(BigInt::from(3), BigInt::from(2)), 100);
        if r.exact() != Some(&Rat::new(BigInt::from(27), BigInt::from(8))) {
            bad.push("(9/4)^(3/2)".into());
        }
        let r = Real::new(Func::Pow, Rat::from_i(8), Rat::new(BigInt::from(-2), BigInt::from(3)), 100);
        if r.exact() != Some(&Rat::new(BigInt::one(), BigInt::from(4))) {
            bad.push("8^(-2/3)".into());
        }
        // floor_log and comparisons of a transcendental value: e^10 = 22026.46...
        let r = Real::new(Func::Exp, Rat::from_i(10), Rat::zero(), 64);
        if r.floor_log(10) != 4 || r.cmp_rat(&Rat::from_i(22026)) != Ordering::Greater || r.cmp_rat(&Rat::from_i(22027)) != Ordering::Less || r.floor_log(2) != 14 {
            bad.push("e^10".into());
        }
        // refinement: with 8-bit first-level enclosures, e vs 2.718281828459045 (16 digits) needs >= 3 doublings
        let r = Real::new(Func::Exp, Rat::from_i(1), Rat::zero(), 8);
        let q = Rat::scaled(&BigInt::from(2718281828459045u64), 10, -15);
        let q1 = Rat::scaled(&BigInt::from(2718281828459046u64), 10, -15);
        if r.cmp_rat(&q) != Ordering::Greater || r.cmp_rat(&q1) != Ordering::Less || r.deepest_level() < 3 || r.undecided() {
            bad.push("refinement of e".into());
        }
        // ln(1 - 10^-6) = -1.0000005000003333e-6
        let r = Real::new(Func::Ln1p, Rat::scaled(&BigInt::from(-1), 10, -6), Rat::zero(), 64);
        if r.floor_log(10) != -6 || r.cmp_rat(&Rat::scaled(&BigInt::from(-10000005), 10, -13)) != Ordering::Less || r.cmp_rat(&Rat::scaled(&BigInt::from(-10000006), 10, -13)) != Ordering::Greater {
            bad.push("ln(1-1e-6)".into());
        }
        // tiny and huge arguments keep relative accuracy: expm1(10^-1000) = 10^-1000 (1 + 5e-1001 + ...)
        let t = Rat::scaled(&BigInt::one(), 10, -1000);
        let r = Real::new(Func::Expm1, t.clone(), Rat::zero(), 64);
        let (lo, hi) = r.enclosure(0);
        let t2 = t.add(&t.mul(&t).half()); // t + t^2/2 < expm1(t)
        if lo.cmp(&t2) != Ordering::Less || hi.cmp(&t2) != Ordering::Greater || hi.sub(&lo).cmp(&Rat::scaled(&BigInt::one(), 10, -1015)) != Ordering::Less {
            bad.push("expm1(1e-1000)".into());
        }
        // the scaled enclosure of exp (huge arguments) against the direct one on a moderate argument,
        // in two bases and for exp_m1: direct enclosure / B^k must intersect the scaled one tightly
        for (f, base, x) in [(Func::Exp, 10u32, Rat::new(BigInt::from(2001), BigInt::from(2))), (Func::Exp, 2, Rat::from_i(-777)), (Func::Expm1, 3, Rat::new(BigInt::from(12345), BigInt::from(7)))] {
            let sc = Real::exp_scaled(f, x.clone(), base, 64);
            let (_, k) = sc.scale.unwrap();
            let (slo, shi) = sc.enclosure(1);
            let (dlo, dhi) = Real::new(f, x.clone(), Rat::zero(), 64).enclosure(1);
            let bk = Rat::scaled(&BigInt::one(), base, k);
            let (dlo, dhi) = (dlo.div(&bk), dhi.div(&bk));
            let overlap = slo.cmp(&dhi) != Ordering::Greater && dlo.cmp(&shi) != Ordering::Greater;
            let tight = shi.sub(&slo).cmp(&shi.mul(&Rat::scaled(&BigInt::one(), 2, -100))) == Ordering::Less;
            let moderate = shi.cmp(&Rat::from_i(base as i64 * base as i64)) == Ordering::Less && slo.cmp(&Rat::new(BigInt::one(), BigInt::from(base * base))) == Ordering::Greater;
            if !(overlap && tight && moderate) {
                bad.push(format!("scaled exp enclosure ({}, base {}): overlap {} tight {} moderate {}", f.name(), base, overlap, tight, moderate));
            }
        }
        // the judge itself: 1/3 at p = 2 base 10
        let third = Real::rational(Rat::new(BigInt::one(), BigInt::from(3)));
        let mut rec = Rec::new("self-check");
        let j = |s: i64, e: i64, fl: Flag, rec: &mut Rec| judge11(&third, &FVal { sig: BigInt::from(s), exp: e, base: 10 }, fl, 2, Mode::Zero, rec);
        let ok = j(33, -2, Flag::Inexact(Rounding::NoOp), &mut rec).is_empty()
            && j(34, -2, Flag::Inexact(Rounding::AddOne), &mut rec).is_empty()
            && j(35, -2, Flag::Inexact(Rounding::AddOne), &mut rec).iter().any(|e| e.0 == "error>=1ulp" && e.1 == "[1.5,2)ulp")
            && j(32, -2, Flag::Inexact(Rounding::NoOp), &mut rec).iter().any(|e| e.0 == "error>=1ulp" && e.1 == "[1,1.5)ulp")
            && j(36, -2, Flag::Inexact(Rounding::NoOp), &mut rec).iter().any(|e| e.0 == "error>=1ulp" && e.1 == ">=2ulp")
            && j(33, -2, Flag::Exact, &mut rec).iter().any(|e| e.0 == "flag-exact-but-inexact")
            && j(3333, -4, Flag::Inexact(Rounding::NoOp), &mut rec).iter().any(|e| e.0 == "too-many-digits");
        if !ok {
            bad.push("judge11 on 1/3".into());
        }
    }
    if !bad.is_empty() {
        ctx.machinery(format!("refreal self-check failed: {}", bad.join("; ")));
    }
}

// ---------------------------------------------------------------------------------------------

struct Plan {
    /// F(B, fp, fe) of the transcendental sweep, values next to 0 and 1 up to B^-near
    fp: u32,
    fe: i64,
    near: i64,
    precs: Vec<usize>,
    /// powi bases F(B, ip, ie)
    ip: u32,
    ie: i64,
    /// powf: x in F(B, xp, xe) (x >= 0), y in F(B, yp, ye)
    xp: u32,
    xe: i64,
    yp: u32,
    ye: i64,
    /// add a few two-digit exponents (1.1, 1.5, 2.5, B^2-1 at three scales, ...) to a one-digit y universe
    y_extra: bool,
    /// two sweeps (all x) × (small y) and (small x) × (all y) instead of the full product
    powf_cross: bool,
    powf_precs: Vec<usize>,
}

fn base_run<const B: Word>(ctx: &mut Ctx, pl: &Plan) {
    let base = B as u32;
    // exp, exp_m1, ln, ln_1p
    let va = vals::<B>(&x_universe(base, pl.fp, pl.fe, pl.near), "");
    ctx.bound(&format!("B{}.transc.values", B), va.len() as u64);
    transc::<B>(ctx, &format!("transc.B{}", B), &va, &pl.precs, &REQ_TRANSC);
    if !ctx.quick() {
        // large precisions on a subset: F(B,1,1) + values next to 0 and 1 (k = 1, near) + large
        let mut u = f_universe(base, 1, 1);
        for k in [1, pl.near] {
            let bk = pow_b(base, k as u64);
            u.extend([(BigInt::one(), -k), (-BigInt::one(), -k), (&bk + 1, -k), (&bk - 1, -k), (BigInt::one() - &bk, -k)]);
        }
        for j in 1..=2 {
            for d in [1, 2, 9] {
                u.push((BigInt::from(d), j));
                u.push((BigInt::from(-d), j));
            }
        }
        let vs = vals::<B>(&u, "");
        ctx.bound(&format!("B{}.transc-large-p.values", B), vs.len() as u64);
        transc::<B>(ctx, &format!("transc-large-p.B{}", B), &vs, &[64, 100, 200, 500], &["within-1ulp", "exact-value:flag-exact", "arg:x-fit", "fbig-method-agrees"]);
    }
    // every precision of a range for a few arguments: the working precision of the series (p + guard
    // digits, doubled in places) crosses every machine-word boundary somewhere in the range
    {
        let b = base as i64;
        let u: Vec<(BigInt, i64)> = vec![(BigInt::from(3), 0), (BigInt::from(b - 1), -1), (BigInt::from(b + 1), -1), (BigInt::from(-3), -1)];
        let vs = vals::<B>(&u, "");
        let every: Vec<usize> = (1..=ctx.pick(130usize, 260usize)).collect();
        ctx.bound(&format!("B{}.transc-every-p", B), serde_json::json!([vs.len(), every.len()]));
        transc::<B>(ctx, &format!("transc-every-p.B{}", B), &vs, &every, &["within-1ulp", "fbig-method-agrees"]);
    }
    let ep: Vec<usize> = if ctx.quick() { vec![1, 3, 8, 33] } else { vec![1, 2, 3, 5, 8, 16, 33, 100] };
    extreme::<B>(ctx, &ep);
    // powi
    let vi = vals::<B>(&f_universe(base, pl.ip, pl.ie), "");
    let mut exps: Vec<i64> = (-12..=12).collect();
    exps.extend([63, -63, 64, -64, 1000, -1000]);
    let mut ipr = vec![0usize];
    ipr.extend(&pl.precs);
    ipr.dedup();
    ctx.bound(&format!("B{}.powi.bases", B), vi.len() as u64);
    powi::<B>(ctx, &vi, &exps, &ipr);
    // powf
    let xs = |p: u32, e: i64| -> Vec<Val<B>> { vals::<B>(&f_universe(base, p, e), "").into_iter().filter(|v| !v.rat.is_neg()).collect() };
    let ys = |p: u32, e: i64, extra: bool| -> Vec<Val<B>> {
        let mut uy = f_universe(base, p, e);
        if extra {
            let b = base as i64;
            for (sg, e) in [(b + 1, -1i64), (b + b / 2, -1), (2 * b + b / 2, -1), (b * b - 1, -1), (b + 2, 0), (b * b - 1, 0), (b * b - 1, 1)] {
                uy.push((BigInt::from(sg), e));
                uy.push((BigInt::from(-sg), e));
            }
        }
        vals::<B>(&uy, "")
    };
    if pl.powf_cross {
        // (all x) × (one-digit y + extras)  ∪  (one-digit x) × (all y) instead of the full product
        let (vx, vy) = (xs(pl.xp, pl.xe), ys(1, 1, true));
        ctx.bound(&format!("B{}.powf.XxS", B), serde_json::json!([vx.len(), vy.len()]));
        powf::<B>(ctx, ".XxS", &vx, &vy, &pl.powf_precs);
        let (vx, vy) = (xs(1, 1), ys(pl.yp, pl.ye, false));
        ctx.bound(&format!("B{}.powf.SxY", B), serde_json::json!([vx.len(), vy.len()]));
        powf::<B>(ctx, ".SxY", &vx, &vy, &pl.powf_precs);
    } else {
        let (vx, vy) = (xs(pl.xp, pl.xe), ys(pl.yp, pl.ye, pl.y_extra));
        ctx.bound(&format!("B{}.powf", B), serde_json::json!([vx.len(), vy.len()]));
        powf::<B>(ctx, "", &vx, &vy, &pl.powf_precs);
    }
}

pub fn run(ctx: &mut Ctx) {
    ctx.rule = "per base B: (1) every x of X(B) = F(B,P,E) ∪ {±B^-k, 1±B^-k, -1+B^-k : k<=6 (12 for base 2, thorough)} ∪ {±d·B^j : d=1..9, j=1,2} (F(B,P,E) = all s·B^e, |s|<B^P, |e|<=E) in the domain of the function × {exp, exp_m1, ln, ln_1p} × every precision of the list (0 = unlimited included) × six rounding modes, through Context::f and (when x fits p) FBig::f; (1b) four arguments × every precision 1..130 (260 thorough); (2) the same for a list of tiny (down to B^-1000) and huge (up to 10^6; B^1000 for ln) arguments; (3) powi: every base of F(B,2,2) × exponents -12..12, ±63, ±64, ±1000 × precisions × modes; (4) powf: every (x >= 0, y) of F × F (base 10 thorough: (all x)×(one-digit y) ∪ (one-digit x)×(all y)) × precisions × modes. Each (value, flag) is judged by: |r - true| < ulp_p(true) with ulp_p(t) = B^(floor(log_B|t|) - p + 1); flag Exact only if r = true; at most p+1 digits; precision 0 must panic (or be exact). The true value is a rational (powi, rational powers, f(0), ln 1) or is enclosed by exact fractions refined until every comparison is decided. non-trivial = true value irrational (powi: base not 0/±1, exponent not 0/1)".into();
    ctx.assume("exp(x), exp_m1(x) for rational x != 0 and ln(x), ln_1p(x-1) for positive rational x != 1 are transcendental (Lindemann–Weierstrass), x^(a/b) is irrational unless x is a perfect b-th power: such values never equal a float, so refinement of the enclosures always decides the comparisons");
    ctx.assume("enclosures: fixed-point interval arithmetic on num_bigint::BigInt with outward rounding, Maclaurin series of (e^t-1)/t for |t|<=1/2 and of atanh(z)/z for |z|<=1/3 with explicit remainder bounds, ln 2 = 2 atanh(1/3); checked at start against 70 known digits of e, 1/e, ln 2, ln 10 and against libm on a grid");
    ctx.assume("the direction of AddOne/SubOne and correct rounding are not demanded by the property: they are only counted (classes unspecified:* and info:*); operands with more digits than the precision are judged too (class x-long in the signature) because the statement quantifies over every finite argument; domain errors (ln x<=0, ln_1p x<=-1) belong to C16 and are skipped");
    self_check(ctx);
    let quick = ctx.quick();
    // exp of arguments around 10^5..10^6 costs seconds per case (Mbit enclosures); the machine is shared
    ctx.case_horizon = std::time::Duration::from_secs(if quick { 30 } else { 600 });
    let precs: Vec<usize> = if quick { vec![0, 1, 2, 3, 4, 5, 8, 16, 33] } else { vec![0, 1, 2, 3, 4, 5, 7, 8, 10, 16, 32, 33] };
    let pf: Vec<usize> = if quick { vec![0, 1, 2, 3, 5, 16] } else { vec![0, 1, 2, 3, 4, 5, 8, 16, 33] };
    ctx.bound("precisions", serde_json::json!(precs));
    ctx.bound("precisions.large(thorough, subset)", serde_json::json!(if quick { vec![] } else { vec![64, 100, 200, 500] }));
    ctx.bound("precisions.powf", serde_json::json!(pf));
    ctx.bound("modes", 6);
    ctx.bound("bases", serde_json::json!(if quick { vec![2, 10] } else { vec![2, 10, 3, 16, 36] }));
    ctx.bound("enclosure.refinement-levels", h11::MAX_LEVEL as u64);
    // base 2: two binary digits are too few to be interesting, use 5 (quick) / 6 digits
    let p2 = if quick {
        Plan { fp: 5, fe: 4, near: 6, precs: precs.clone(), ip: 4, ie: 2, xp: 4, xe: 2, yp: 4, ye: 2, y_extra: false, powf_cross: false, powf_precs: pf.clone() }
    } else {
        Plan { fp: 6, fe: 6, near: 12, precs: precs.clone(), ip: 5, ie: 3, xp: 5, xe: 3, yp: 5, ye: 3, y_extra: false, powf_cross: false, powf_precs: pf.clone() }
    };
    base_run::<2>(ctx, &p2);
    let p10 = if quick {
        Plan { fp: 2, fe: 3, near: 6, precs: precs.clone(), ip: 2, ie: 2, xp: 1, xe: 1, yp: 1, ye: 1, y_extra: true, powf_cross: false, powf_precs: pf.clone() }
    } else {
        // the full product F(10,2,1) x F(10,2,1) (146 611 pairs) costs ~2.5 CPU-hours in the mon build
        Plan { fp: 2, fe: 3, near: 6, precs: precs.clone(), ip: 2, ie: 2, xp: 2, xe: 1, yp: 2, ye: 1, y_extra: false, powf_cross: true, powf_precs: pf.clone() }
    };
    base_run::<10>(ctx, &p10);
    if !quick {
        let p3 = Plan { fp: 3, fe: 3, near: 6, precs: precs.clone(), ip: 2, ie: 2, xp: 2, xe: 1, yp: 2, ye: 1, y_extra: false, powf_cross: false, powf_precs: pf.clone() };
        base_run::<3>(ctx, &p3);
        // exponent range 2 instead of 3 for the large bases: 255*16^3 ~ 10^6 makes every exp enclosure a 1.5 Mbit number
        let p16 = Plan { fp: 2, fe: 2, near: 6, precs: precs.clone(), ip: 2, ie: 2, xp: 1, xe: 1, yp: 1, ye: 1, y_extra: true, powf_cross: false, powf_precs: pf.clone() };
        base_run::<16>(ctx, &p16);
        let p36 = Plan { fp: 1, fe: 2, near: 6, precs: precs.clone(), ip: 1, ie: 2, xp: 1, xe: 1, yp: 1, ye: 1, y_extra: true, powf_cross: false, powf_precs: pf.clone() };
        base_run::<36>(ctx, &p36);
    }
}
