//! C07 — not built yet.
use crate::core::Ctx;

pub fn run(ctx: &mut Ctx) {
    ctx.machinery("check C07 is not built yet");
}
