//! C06 — conversions are lossless or refused; the explicitly lossy ones (to_f32/to_f64/to_int/
//! to_float, FloatEncoding::encode) are correctly rounded for their documented rule and flag
//! exactness / the sign of the error truthfully.
//!
//! Reference side: `h06.rs` (IEEE-754 grid rounding of exact dyadic/rational values on integers,
//! cross-checked against hardware casts and std's decimal parser) and `fref.rs` (exact fractions,
//! the float rounding contract).

#[path = "h06.rs"]
mod h06;

use self::h06::*;
use crate::core::{guard, Ctx, Rec};
use crate::for_all_modes;
use crate::fref::*;
use crate::h::unflatten;
use crate::uni::*;
use dashu_base::{Approximation, ConversionError, FloatEncoding, Sign};
use dashu_float::round::{mode, Rounding};
use dashu_float::{FBig, Repr};
use dashu_int::{IBig, UBig, Word};
use dashu_ratio::{RBig, Relaxed};
use num_bigint::{BigInt, BigUint};
use num_traits::{One, Signed, ToPrimitive, Zero};
use std::cmp::Ordering::{self, *};
use std::collections::BTreeSet;
use std::convert::TryFrom;

type F2 = FBig<mode::Zero, 2>;
type F10 = FBig<mode::HalfAway, 10>;

// ---------------------------------------------------------------------------------------------
// generic readers (reference side of dashu values, through raw words only)

fn fb_rat<R: dashu_float::round::Round, const B: Word>(f: &FBig<R, B>) -> Option<Rat> {
    if f.repr().is_infinite() {
        None
    } else {
        Some(fval(f.repr()).rat())
    }
}
fn rb_rat(r: &RBig) -> (BigInt, BigInt) {
    (i_to_ref(r.numerator()), BigInt::from(u_to_ref(r.denominator())))
}
fn rx_rat(r: &Relaxed) -> (BigInt, BigInt) {
    (i_to_ref(r.numerator()), BigInt::from(u_to_ref(r.denominator())))
}
fn canonical(n: &BigInt, d: &BigInt) -> bool {
    use num_integer::Integer;
    d.is_positive() && n.gcd(d).is_one()
}
fn err_name(e: ConversionError) -> &'static str {
    match e {
        ConversionError::OutOfBounds => "refused:OutOfBounds",
        ConversionError::LossOfPrecision => "refused:LossOfPrecision",
    }
}

// ---------------------------------------------------------------------------------------------
// (a) primitive integers <-> UBig / IBig / FBig / RBig / Relaxed

trait Prim: Copy + PartialEq + std::fmt::Debug + Send + Sync + 'static {
    const NAME: &'static str;
    const SIGNED: bool;
    const BITS: u32;
    fn make(neg: bool, mag: u128) -> Self;
    fn to_u(self) -> Result<UBig, ConversionError>;
    fn to_i(self) -> IBig;
    fn to_f2(self) -> F2;
    fn to_f10(self) -> F10;
    fn to_r(self) -> RBig;
    fn to_x(self) -> Relaxed;
    fn from_u(v: &UBig) -> Result<Self, ConversionError>;
    fn from_u_val(v: UBig) -> Result<Self, ConversionError>;
    fn from_i(v: &IBig) -> Result<Self, ConversionError>;
    fn from_i_val(v: IBig) -> Result<Self, ConversionError>;
    fn from_f2(v: F2) -> Result<Self, ConversionError>;
    fn from_f10(v: F10) -> Result<Self, ConversionError>;
    fn from_r(v: RBig) -> Result<Self, ConversionError>;
    fn from_x(v: Relaxed) -> Result<Self, ConversionError>;
}

macro_rules! impl_prim {
    ($signed:expr, $($t:ty)*) => {$(
        impl Prim for $t {
            const NAME: &'static str = stringify!($t);
            const SIGNED: bool = $signed;
            const BITS: u32 = <$t>::BITS;
            fn make(neg: bool, mag: u128) -> Self { if neg { (mag as i128).wrapping_neg() as $t } else { mag as $t } }
            #[allow(clippy::useless_conversion, irrefutable_let_patterns)]
            fn to_u(self) -> Result<UBig, ConversionError> { UBig::try_from(self).map_err(|_| ConversionError::OutOfBounds) }
            fn to_i(self) -> IBig { IBig::from(self) }
            fn to_f2(self) -> F2 { F2::from(self) }
            fn to_f10(self) -> F10 { F10::from(self) }
            fn to_r(self) -> RBig { RBig::from(self) }
            fn to_x(self) -> Relaxed { Relaxed::from(self) }
            fn from_u(v: &UBig) -> Result<Self, ConversionError> { <$t>::try_from(v) }
            fn from_u_val(v: UBig) -> Result<Self, ConversionError> { <$t>::try_from(v) }
            fn from_i(v: &IBig) -> Result<Self, ConversionError> { <$t>::try_from(v) }
            fn from_i_val(v: IBig) -> Result<Self, ConversionError> { <$t>::try_from(v) }
            fn from_f2(v: F2) -> Result<Self, ConversionError> { <$t>::try_from(v) }
            fn from_f10(v: F10) -> Result<Self, ConversionError> { <$t>::try_from(v) }
            fn from_r(v: RBig) -> Result<Self, ConversionError> { <$t>::try_from(v) }
            fn from_x(v: Relaxed) -> Result<Self, ConversionError> { <$t>::try_from(v) }
        }
    )*};
}
impl_prim!(false, u8 u16 u32 u64 u128 usize);
impl_prim!(true, i8 i16 i32 i64 i128 isize);

macro_rules! with_prim {
    ($idx:expr, $f:ident, ($($a:expr),*)) => {
        match $idx {
            0 => $f::<u8>($($a),*), 1 => $f::<u16>($($a),*), 2 => $f::<u32>($($a),*), 3 => $f::<u64>($($a),*),
            4 => $f::<u128>($($a),*), 5 => $f::<usize>($($a),*), 6 => $f::<i8>($($a),*), 7 => $f::<i16>($($a),*),
            8 => $f::<i32>($($a),*), 9 => $f::<i64>($($a),*), 10 => $f::<i128>($($a),*), 11 => $f::<isize>($($a),*),
            _ => unreachable!(),
        }
    };
}
macro_rules! all_prims {
    ($f:ident, ($($a:expr),*)) => {{
        $f::<u8>($($a),*); $f::<u16>($($a),*); $f::<u32>($($a),*); $f::<u64>($($a),*); $f::<u128>($($a),*); $f::<usize>($($a),*);
        $f::<i8>($($a),*); $f::<i16>($($a),*); $f::<i32>($($a),*); $f::<i64>($($a),*); $f::<i128>($($a),*); $f::<isize>($($a),*);
    }};
}

/// an integer value of the universe: sign, magnitude (if < 2^128) and the BigInt
#[derive(Clone)]
struct IVal {
    neg: bool,
    mag: Option<u128>,
    big: BigInt,
}
impl IVal {
    fn small(neg: bool, mag: u128) -> IVal {
        let b = BigInt::from(mag);
        IVal { neg: neg && mag != 0, mag: Some(mag), big: if neg { -b } else { b } }
    }
    fn of(big: BigInt) -> IVal {
        IVal { neg: big.is_negative(), mag: big.magnitude().to_u128(), big }
    }
    fn size_class(&self) -> &'static str {
        match self.big.bits() {
            0..=64 => "le64bits",
            65..=128 => "le128bits",
            _ => "gt128bits",
        }
    }
}
fn fits<T: Prim>(v: &IVal) -> bool {
    let mag = match v.mag {
        Some(m) => m,
        None => return false,
    };
    if T::SIGNED {
        let lim = 1u128 << (T::BITS - 1);
        if v.neg { mag <= lim } else { mag < lim }
    } else {
        !v.neg && (T::BITS == 128 || mag < (1u128 << T::BITS))
    }
}

/// the six arbitrary-precision images of one integer value
struct Bigs {
    u: Option<UBig>,
    i: IBig,
    f2: F2,
    f10: F10,
    r: RBig,
    x: Relaxed,
}

fn verify_bigs(rec: &mut Rec, how: &str, v: &IVal, b: &Bigs) {
    let cls = format!("{},{}", if v.neg { "neg" } else { "nonneg" }, v.size_class());
    let case = || format!("{} of {}", how, hex(&v.big));
    rec.steps(6);
    if let Some(u) = &b.u {
        if BigInt::from(u_to_ref(u)) != v.big {
            rec.fail(format!("{}|UBig::from({})|wrong-value|{}", P, how, cls), case(), hexu(&u_to_ref(u)), hex(&v.big));
        }
    }
    if i_to_ref(&b.i) != v.big {
        rec.fail(format!("{}|IBig::from({})|wrong-value|{}", P, how, cls), case(), hex(&i_to_ref(&b.i)), hex(&v.big));
    }
    let want = Rat::int(v.big.clone());
    if fb_rat(&b.f2).as_ref() != Some(&want) {
        rec.fail(format!("{}|FBig<2>::from({})|wrong-value|{}", P, how, cls), case(), fval(b.f2.repr()).show(), hex(&v.big));
    }
    if fb_rat(&b.f10).as_ref() != Some(&want) {
        rec.fail(format!("{}|FBig<10>::from({})|wrong-value|{}", P, how, cls), case(), fval(b.f10.repr()).show(), hex(&v.big));
    }
    let (n, d) = rb_rat(&b.r);
    if n != v.big || !d.is_one() {
        rec.fail(format!("{}|RBig::from({})|wrong-value|{}", P, how, cls), case(), format!("{}/{}", n, d), hex(&v.big));
    }
    let (n, d) = rx_rat(&b.x);
    if !d.is_positive() || Rat::new(n.clone(), d.clone()) != want {
        rec.fail(format!("{}|Relaxed::from({})|wrong-value|{}", P, how, cls), case(), format!("{}/{}", n, d), hex(&v.big));
    }
}

fn src_prim<S: Prim>(rec: &mut Rec, v: &IVal) -> Option<Bigs> {
    if !fits::<S>(v) {
        rec.hit("skipped:value-not-in-source-type");
        return None;
    }
    let x = S::make(v.neg, v.mag.unwrap());
    let r = guard(|| {
        let u = x.to_u();
        (u, Bigs { u: None, i: x.to_i(), f2: x.to_f2(), f10: x.to_f10(), r: x.to_r(), x: x.to_x() })
    });
    match r {
        Ok((u, mut b)) => {
            rec.step();
            match u {
                Ok(u) if !v.neg => b.u = Some(u),
                Ok(u) => rec.fail(format!("{}|UBig::try_from({})|succeeded-with-changed-value|negative", P, S::NAME), format!("{:?}", x), hexu(&u_to_ref(&u)), "Err(OutOfBounds)"),
                Err(e) if v.neg => rec.hit(err_name(e)),
                Err(e) => rec.fail(format!("{}|UBig::try_from({})|refused-representable|nonneg", P, S::NAME), format!("{:?}", x), format!("{:?}", e), hex(&v.big)),
            }
            verify_bigs(rec, S::NAME, v, &b);
            Some(b)
        }
        Err(p) => {
            rec.fail(format!("{}|From<{}>|panic|{}", P, S::NAME, v.size_class()), format!("{:?}", x), p, "conversion to UBig/IBig/FBig/RBig");
            None
        }
    }
}

fn dst_prim<T: Prim>(rec: &mut Rec, v: &IVal, b: &Bigs) {
    let want: Option<T> = if fits::<T>(v) { Some(T::make(v.neg, v.mag.unwrap())) } else { None };
    let cls = format!("{},{}", if v.neg { "neg" } else { "nonneg" }, if want.is_some() { "fits" } else { "does-not-fit" });
    let one = |rec: &mut Rec, from: &str, got: Result<Result<T, ConversionError>, String>| {
        rec.step();
        let site = || format!("{}::try_from({})", T::NAME, from);
        let case = || format!("{} -> {} of {}", from, T::NAME, hex(&v.big));
        match (got, want) {
            (Ok(Ok(g)), Some(w)) if g == w => rec.hit("ok"),
            (Ok(Ok(g)), Some(w)) => rec.fail(format!("{}|{}|wrong-value|{}", P, site(), cls), case(), format!("{:?}", g), format!("{:?}", w)),
            (Ok(Ok(g)), None) => rec.fail(format!("{}|{}|succeeded-with-changed-value|{}", P, site(), cls), case(), format!("Ok({:?})", g), "Err(OutOfBounds)"),
            (Ok(Err(e)), None) => rec.hit(err_name(e)),
            (Ok(Err(e)), Some(w)) => rec.fail(format!("{}|{}|refused-representable|{}", P, site(), cls), case(), format!("Err({:?})", e), format!("Ok({:?}) (round trip {} -> {} -> {} must give the original)", w, T::NAME, from, T::NAME)),
            (Err(p), _) => rec.fail(format!("{}|{}|panic|{}", P, site(), cls), case(), p, format!("{:?}", want)),
        }
    };
    if let Some(u) = &b.u {
        one(rec, "&UBig", guard(|| T::from_u(u)));
        one(rec, "UBig", guard(|| T::from_u_val(u.clone())));
    }
    one(rec, "&IBig", guard(|| T::from_i(&b.i)));
    one(rec, "IBig", guard(|| T::from_i_val(b.i.clone())));
    one(rec, "FBig<2>", guard(|| T::from_f2(b.f2.clone())));
    one(rec, "FBig<10>", guard(|| T::from_f10(b.f10.clone())));
    one(rec, "RBig", guard(|| T::from_r(b.r.clone())));
    one(rec, "Relaxed", guard(|| T::from_x(b.x.clone())));
}

/// conversions among the big types themselves for an integer value
fn big_to_big(rec: &mut Rec, v: &IVal, b: &Bigs) {
    let cls = format!("{},{}", if v.neg { "neg" } else { "nonneg" }, v.size_class());
    let case = || format!("integer {}", hex(&v.big));
    let want_i = |rec: &mut Rec, site: &str, got: Result<Result<IBig, ConversionError>, String>| {
        rec.step();
        match got {
            Ok(Ok(g)) if i_to_ref(&g) == v.big => rec.hit("ok"),
            Ok(Ok(g)) => rec.fail(format!("{}|{}|wrong-value|{}", P, site, cls), case(), hex(&i_to_ref(&g)), hex(&v.big)),
            Ok(Err(e)) => rec.fail(format!("{}|{}|refused-representable|integer", P, site), case(), format!("Err({:?})", e), format!("Ok({}): the round trip integer -> target -> integer must give the original", hex(&v.big))),
            Err(p) => rec.fail(format!("{}|{}|panic|{}", P, site, cls), case(), p, hex(&v.big)),
        }
    };
    want_i(rec, "IBig::try_from(FBig<2>)", guard(|| IBig::try_from(b.f2.clone())));
    want_i(rec, "IBig::try_from(FBig<10>)", guard(|| IBig::try_from(b.f10.clone())));
    want_i(rec, "IBig::try_from(RBig)", guard(|| IBig::try_from(b.r.clone())));
    want_i(rec, "IBig::try_from(Relaxed)", guard(|| IBig::try_from(b.x.clone())));
    if let Some(u) = &b.u {
        want_i(rec, "IBig::from(UBig)", guard(|| Ok(IBig::from(u.clone()))));
    }
    let want_u = |rec: &mut Rec, site: &str, got: Result<Result<UBig, ConversionError>, String>| {
        rec.step();
        match got {
            Ok(Ok(g)) if !v.neg && BigInt::from(u_to_ref(&g)) == v.big => rec.hit("ok"),
            Ok(Ok(g)) => rec.fail(format!("{}|{}|{}|{}", P, site, if v.neg { "succeeded-with-changed-value" } else { "wrong-value" }, cls), case(), hexu(&u_to_ref(&g)), if v.neg { "Err(OutOfBounds)".to_string() } else { hex(&v.big) }),
            Ok(Err(e)) if v.neg => rec.hit(err_name(e)),
            Ok(Err(e)) => rec.fail(format!("{}|{}|refused-representable|nonneg-integer", P, site), case(), format!("Err({:?})", e), format!("Ok({}): the round trip UBig -> source type -> UBig must give the original", hex(&v.big))),
            Err(p) => rec.fail(format!("{}|{}|panic|{}", P, site, cls), case(), p, hex(&v.big)),
        }
    };
    want_u(rec, "UBig::try_from(IBig)", guard(|| UBig::try_from(b.i.clone())));
    want_u(rec, "UBig::try_from(FBig<2>)", guard(|| UBig::try_from(b.f2.clone())));
    want_u(rec, "UBig::try_from(FBig<10>)", guard(|| UBig::try_from(b.f10.clone())));
    want_u(rec, "UBig::try_from(RBig)", guard(|| UBig::try_from(b.r.clone())));
    want_u(rec, "UBig::try_from(Relaxed)", guard(|| UBig::try_from(b.x.clone())));
    // FBig <-> RBig for an integer value
    rec.steps(2);
    match guard(|| RBig::try_from(b.f10.clone())) {
        Ok(Ok(r)) => {
            let (n, d) = rb_rat(&r);
            if n != v.big || !d.is_one() {
                rec.fail(format!("{}|RBig::try_from(FBig<10>)|wrong-value|{}", P, cls), case(), format!("{}/{}", n, d), hex(&v.big));
            }
        }
        Ok(Err(e)) => rec.fail(format!("{}|RBig::try_from(FBig<10>)|refused-representable|{}", P, cls), case(), format!("{:?}", e), hex(&v.big)),
        Err(p) => rec.fail(format!("{}|RBig::try_from(FBig<10>)|panic|{}", P, cls), case(), p, hex(&v.big)),
    }
    match guard(|| F2::from(b.r.clone())) {
        Ok(f) => {
            if fb_rat(&f) != Some(Rat::int(v.big.clone())) {
                rec.fail(format!("{}|FBig<2>::from(RBig)|wrong-value|integer,{}", P, cls), case(), fval(f.repr()).show(), hex(&v.big));
            }
        }
        Err(p) => rec.fail(format!("{}|FBig<2>::from(RBig)|panic|integer,{}", P, cls), case(), p, hex(&v.big)),
    }
}

fn run_value(rec: &mut Rec, v: &IVal, b: &Bigs) {
    all_prims!(dst_prim, (rec, v, b));
    big_to_big(rec, v, b);
    if !v.big.is_zero() {
        rec.nontrivial();
    }
}

fn src_and_run<S: Prim>(rec: &mut Rec, v: &IVal) {
    if let Some(b) = src_prim::<S>(rec, v) {
        run_value(rec, v, &b);
        rec.sample(|| format!("{} {} -> UBig/IBig/FBig<2>/FBig<10>/RBig/Relaxed -> each of the 12 primitive types", S::NAME, v.big));
    }
}

fn boundary_values(ctx: &Ctx) -> Vec<IVal> {
    let mut s: BTreeSet<BigInt> = BTreeSet::new();
    for k in 0..=131u64 {
        let p = BigInt::one() << k;
        for d in [-1i32, 0, 1] {
            s.insert(&p + d);
            s.insert(-(&p + d));
        }
    }
    for k in [191u64, 192, 193, 255, 256, 257, 1023, 1024, 1025] {
        let p = BigInt::one() << k;
        for d in [-1i32, 0, 1] {
            s.insert(&p + d);
            s.insert(-(&p + d));
        }
    }
    for sh in shapes(&[1, 2, 3, 4, 5, 24], &["ones", "top1p1", "alt", "lcgA", "lcgSeed"], ctx.seed) {
        s.insert(BigInt::from(sh.v.clone()));
        s.insert(-BigInt::from(sh.v));
    }
    s.into_iter().map(IVal::of).collect()
}

fn sweep_prims(ctx: &mut Ctx) {
    // S1: every value of the four narrow types as source
    let n1 = 256 + 256 + 65536 + 65536u64;
    ctx.sweep("prim.all-8-16-bit", n1, |i, rec| {
        if i < 256 {
            src_and_run::<u8>(rec, &IVal::small(false, i as u128));
        } else if i < 512 {
            let x = (i - 256) as u8 as i8;
            src_and_run::<i8>(rec, &IVal::small(x < 0, x.unsigned_abs() as u128));
        } else if i < 512 + 65536 {
            src_and_run::<u16>(rec, &IVal::small(false, (i - 512) as u128));
        } else {
            let x = (i - 512 - 65536) as u16 as i16;
            src_and_run::<i16>(rec, &IVal::small(x < 0, x.unsigned_abs() as u128));
        }
    });
    ctx.require_classes("prim.all-8-16-bit", &["ok", "refused:OutOfBounds"]);
    // S2: boundary values x (12 source types + construction from the reference words)
    let vals = boundary_values(ctx);
    let nv = vals.len() as u64;
    ctx.bound("prim.boundary_values", nv);
    ctx.sweep("prim.boundary", nv * 13, |i, rec| {
        let [iv, is] = unflatten(i, [nv, 13]);
        let v = &vals[iv];
        if is < 12 {
            with_prim!(is, src_and_run, (rec, v));
        } else {
            let i = ref_to_i(&v.big);
            let b = guard(|| Bigs { u: if v.neg { None } else { Some(ref_to_u(v.big.magnitude())) }, i: i.clone(), f2: F2::from(i.clone()), f10: F10::from(i.clone()), r: RBig::from(i.clone()), x: Relaxed::from(i.clone()) });
            match b {
                Ok(mut b) => {
                    verify_bigs(rec, "IBig", v, &b);
                    if let Some(u) = b.u.clone() {
                        // UBig sources as well
                        rec.steps(2);
                        let (f, r) = (guard(|| F10::from(u.clone())), guard(|| RBig::from(u.clone())));
                        if f.as_ref().ok().and_then(fb_rat) != Some(Rat::int(v.big.clone())) {
                            rec.fail(format!("{}|FBig<10>::from(UBig)|wrong-value|{}", P, v.size_class()), hex(&v.big), format!("{:?}", f.map(|f| fval(f.repr()).show())), hex(&v.big));
                        }
                        if r.as_ref().ok().map(rb_rat) != Some((v.big.clone(), BigInt::one())) {
                            rec.fail(format!("{}|RBig::from(UBig)|wrong-value|{}", P, v.size_class()), hex(&v.big), format!("{:?}", r.map(|r| rb_rat(&r))), hex(&v.big));
                        }
                        b.u = Some(u);
                    }
                    run_value(rec, v, &b);
                    rec.hit(v.size_class());
                }
                Err(p) => rec.fail(format!("{}|From<IBig>|panic|{}", P, v.size_class()), hex(&v.big), p, "conversion to FBig/RBig"),
            }
        }
    });
    ctx.require_classes("prim.boundary", &["ok", "refused:OutOfBounds", "le64bits", "le128bits", "gt128bits", "skipped:value-not-in-source-type"]);
}

// ---------------------------------------------------------------------------------------------
// (b) + (g): floats -> big types -> floats, decode/encode, on exactly representable values

trait DF: IeeeF {
    const NAME: &'static str;
    fn decode_(self) -> Result<(i64, i64), std::num::FpCategory>;
    fn encode_(m: i64, e: i16) -> Approximation<Self, Sign>;
    fn u_from(self) -> Result<UBig, ConversionError>;
    fn i_from(self) -> Result<IBig, ConversionError>;
    fn f_from(self) -> Result<F2, ConversionError>;
    fn p_from(self) -> Result<Repr<2>, ConversionError>;
    fn r_from(self) -> Result<RBig, ConversionError>;
    fn x_from(self) -> Result<Relaxed, ConversionError>;
    fn back_u(v: UBig) -> Result<Self, ConversionError>;
    fn back_i(v: IBig) -> Result<Self, ConversionError>;
    fn back_f<R: dashu_float::round::Round>(v: FBig<R, 2>) -> Result<Self, ConversionError>;
    fn back_p(v: Repr<2>) -> Result<Self, ConversionError>;
    fn back_r(v: RBig) -> Result<Self, ConversionError>;
    fn back_x(v: Relaxed) -> Result<Self, ConversionError>;
    fn u_to(v: &UBig) -> Approximation<Self, Sign>;
    fn i_to(v: &IBig) -> Approximation<Self, Sign>;
    fn r_to(v: &RBig) -> Approximation<Self, Sign>;
    fn x_to(v: &Relaxed) -> Approximation<Self, Sign>;
    fn r_fast(v: &RBig) -> Self;
    fn x_fast(v: &Relaxed) -> Self;
    fn f_to<R: dashu_float::round::Round, const B: Word>(v: &FBig<R, B>) -> Approximation<Self, Rounding>;
    fn p_to<const B: Word>(v: &Repr<B>) -> Approximation<Self, Rounding>;
}
macro_rules! impl_df {
    ($t:ty, $to:ident, $fast:ident) => {
        impl DF for $t {
            const NAME: &'static str = stringify!($t);
            fn decode_(self) -> Result<(i64, i64), std::num::FpCategory> { self.decode().map(|(m, e)| (m as i64, e as i64)) }
            fn encode_(m: i64, e: i16) -> Approximation<Self, Sign> { <$t>::encode(m as _, e) }
            fn u_from(self) -> Result<UBig, ConversionError> { UBig::try_from(self) }
            fn i_from(self) -> Result<IBig, ConversionError> { IBig::try_from(self) }
            fn f_from(self) -> Result<F2, ConversionError> { F2::try_from(self) }
            fn p_from(self) -> Result<Repr<2>, ConversionError> { Repr::<2>::try_from(self) }
            fn r_from(self) -> Result<RBig, ConversionError> { RBig::try_from(self) }
            fn x_from(self) -> Result<Relaxed, ConversionError> { Relaxed::try_from(self) }
            fn back_u(v: UBig) -> Result<Self, ConversionError> { <$t>::try_from(v) }
            fn back_i(v: IBig) -> Result<Self, ConversionError> { <$t>::try_from(v) }
            fn back_f<R: dashu_float::round::Round>(v: FBig<R, 2>) -> Result<Self, ConversionError> { <$t>::try_from(v) }
            fn back_p(v: Repr<2>) -> Result<Self, ConversionError> { <$t>::try_from(v) }
            fn back_r(v: RBig) -> Result<Self, ConversionError> { <$t>::try_from(v) }
            fn back_x(v: Relaxed) -> Result<Self, ConversionError> { <$t>::try_from(v) }
            fn u_to(v: &UBig) -> Approximation<Self, Sign> { v.$to() }
            fn i_to(v: &IBig) -> Approximation<Self, Sign> { v.$to() }
            fn r_to(v: &RBig) -> Approximation<Self, Sign> { v.$to() }
            fn x_to(v: &Relaxed) -> Approximation<Self, Sign> { v.$to() }
            fn r_fast(v: &RBig) -> Self { v.$fast() }
            fn x_fast(v: &Relaxed) -> Self { v.$fast() }
            fn f_to<R: dashu_float::round::Round, const B: Word>(v: &FBig<R, B>) -> Approximation<Self, Rounding> { v.$to() }
            fn p_to<const B: Word>(v: &Repr<B>) -> Approximation<Self, Rounding> { v.$to() }
        }
    };
}
impl_df!(f32, to_f32, to_f32_fast);
impl_df!(f64, to_f64, to_f64_fast);

fn words_to_u128(w: &[Word]) -> Option<u128> {
    let mut v = 0u128;
    for (i, &x) in w.iter().enumerate() {
        if i * WBITS < 128 {
            v |= (x as u128) << (i * WBITS);
        } else if x != 0 {
            return None;
        }
    }
    Some(v)
}
/// do the words hold m * 2^sh ?
fn words_are(w: &[Word], m: u64, sh: u64) -> bool {
    if m == 0 {
        return w.iter().all(|x| *x == 0);
    }
    if sh + 64 <= 128 {
        words_to_u128(w) == Some((m as u128) << sh)
    } else {
        words_to_ref(w) == (BigUint::from(m) << sh)
    }
}
fn same_float<F: IeeeF>(a: F, b: F) -> bool {
    let m = !(1u64 << if F::FMT.mant == 24 { 31 } else { 63 });
    a.bits64() == b.bits64() || (a.bits64() & m == 0 && b.bits64() & m == 0)
}
/// is the bit distance between two floats of the same sign (or zeros) at most one?
fn within_one_ulp<F: IeeeF>(a: F, b: F) -> bool {
    let m = !(1u64 << if F::FMT.mant == 24 { 31 } else { 63 });
    let (x, y) = (a.bits64() & m, b.bits64() & m);
    (same_float(a, b)) || ((a.bits64() & !m) == (b.bits64() & !m) && x.abs_diff(y) <= 1) || (x + y <= 1)
}

/// call-site name, formatted only when needed: template with `{f}` for the float type
#[derive(Clone, Copy)]
struct Site(&'static str, &'static str);
impl std::fmt::Display for Site {
    fn fmt(&self, f: &mut std::fmt::Formatter) -> std::fmt::Result {
        f.write_str(&self.0.replace("{f}", self.1))
    }
}

/// outcome of one lossless-or-refused conversion
fn lossless<T>(rec: &mut Rec, site: Site, class: &str, case: &dyn Fn() -> String, got: Result<Result<T, ConversionError>, String>, allowed: bool, same: impl Fn(&T) -> bool, show: impl Fn(&T) -> String) -> Option<T> {
    rec.step();
    match got {
        Ok(Ok(t)) => {
            if allowed && same(&t) {
                Some(t)
            } else {
                if saturated(rec, site.0, site.1, if allowed { "wrong-value" } else { "succeeded-with-changed-value" }, class) {
                    return None;
                }
                rec.fail(format!("{}|{}|{}|{}", P, site, if allowed { "wrong-value" } else { "succeeded-with-changed-value" }, class), case(), format!("Ok({})", show(&t)), if allowed { "the source value, or a refusal" } else { "Err(OutOfBounds | LossOfPrecision): the target type cannot hold the source value" });
                None
            }
        }
        Ok(Err(_)) => {
            if allowed && !saturated(rec, site.0, site.1, "refusal", "") {
                rec.hit(&format!("conservative-refusal:{}", site));
            }
            None
        }
        Err(p) => {
            if !saturated(rec, site.0, site.1, "panic", class) {
                rec.fail(format!("{}|{}|panic|{}", P, site, class), case(), p, "Ok(source value) or Err(..)");
            }
            None
        }
    }
}

fn back<F: DF>(rec: &mut Rec, site: Site, class: &str, case: &dyn Fn() -> String, got: Result<Result<F, ConversionError>, String>, f: F) {
    rec.step();
    match got {
        Ok(Ok(g)) if same_float(g, f) => {}
        Ok(Ok(g)) => {
            if !saturated(rec, site.0, site.1, "round-trip-changed", class) {
                rec.fail(format!("{}|{}|round-trip-changed|{}", P, site, class), case(), g.show(), f.show())
            }
        }
        Ok(Err(_)) => {
            if !saturated(rec, site.0, site.1, "refusal", "") {
                rec.hit(&format!("conservative-refusal:{}", site))
            }
        }
        Err(p) => {
            if !saturated(rec, site.0, site.1, "panic", class) {
                rec.fail(format!("{}|{}|panic|{}", P, site, class), case(), p, f.show())
            }
        }
    }
}

fn want_exact<F: DF, E: std::fmt::Debug>(rec: &mut Rec, site: Site, class: &str, case: &dyn Fn() -> String, got: Result<Approximation<F, E>, String>, f: F) {
    rec.step();
    match got {
        Ok(Approximation::Exact(g)) if same_float(g, f) => {}
        Ok(_) | Err(_) if saturated(rec, site.0, site.1, "not-exact", class) => {}
        Ok(Approximation::Exact(g)) => rec.fail(format!("{}|{}|wrong-value|{}", P, site, class), case(), format!("Exact({})", g.show()), format!("Exact({})", f.show())),
        Ok(Approximation::Inexact(g, e)) => rec.fail(format!("{}|{}|{}|{}", P, site, if same_float(g, f) { "wrong-flag:inexact-but-exact" } else { "wrong-value" }, class), case(), format!("Inexact({}, {:?})", g.show(), e), format!("Exact({})", f.show())),
        Err(p) => rec.fail(format!("{}|{}|panic|{}", P, site, class), case(), p, format!("Exact({})", f.show())),
    }
}

fn float_case<F: DF>(rec: &mut Rec, f: F, extras: bool) {
    let fmt = F::FMT;
    let parts = parts_of(f);
    let case = || format!("{} {}", F::NAME, f.show());
    let case: &dyn Fn() -> String = &case;
    let site = |s: &'static str| Site(s, F::NAME);
    // decode
    rec.step();
    let dec = guard(|| f.decode_());
    let dec_ok = match (&dec, parts) {
        (Ok(Ok((m, e))), Some((neg, pm, pe))) => *m == if neg { -(pm as i64) } else { pm as i64 } && *e == pe,
        (Ok(Err(c)), None) => (*c == std::num::FpCategory::Nan) == (f != f),
        _ => false,
    };
    if !dec_ok {
        rec.fail(format!("{}|{}::decode|wrong-value|{}", P, F::NAME, if parts.is_none() { "nan-or-inf" } else { "finite" }), case(), format!("{:?}", dec), format!("{:?}", parts));
    }
    let (neg, m, e) = match parts {
        Some(p) => p,
        None => {
            let is_nan = f != f;
            let cls = if is_nan { "nan" } else { "inf" };
            rec.hit(cls);
            lossless(rec, site("UBig::try_from({f})"), cls, case, guard(|| f.u_from()), false, |_| false, |u| hexu(&u_to_ref(u)));
            lossless(rec, site("IBig::try_from({f})"), cls, case, guard(|| f.i_from()), false, |_| false, |u| hex(&i_to_ref(u)));
            lossless(rec, site("RBig::try_from({f})"), cls, case, guard(|| f.r_from()), false, |_| false, |r| format!("{:?}", rb_rat(r)));
            lossless(rec, site("Relaxed::try_from({f})"), cls, case, guard(|| f.x_from()), false, |_| false, |r| format!("{:?}", rx_rat(r)));
            let infneg = f.bits64() >> (if fmt.mant == 24 { 31 } else { 63 }) == 1;
            let fb = lossless(rec, site("FBig<2>::try_from({f})"), cls, case, guard(|| f.f_from()), !is_nan, |v| v.repr().is_infinite() && (v.repr().sign() == Sign::Negative) == infneg, |v| format!("{:?}", v.repr()));
            lossless(rec, site("Repr<2>::try_from({f})"), cls, case, guard(|| f.p_from()), !is_nan, |v| v.is_infinite() && (v.sign() == Sign::Negative) == infneg, |v| format!("{:?}", v));
            if let Some(fb) = fb {
                // documented: the conversion of an infinity is Inexact(inf, NoOp)
                rec.step();
                match guard(|| F::f_to(&fb)) {
                    Ok(Approximation::Inexact(g, Rounding::NoOp)) if same_float(g, f) => {}
                    o => rec.fail(format!("{}|FBig<2>::to_{}|wrong-value|inf", P, F::NAME), case(), format!("{:?}", o), format!("Inexact({}, NoOp) as documented", f.show())),
                }
            }
            return;
        }
    };
    let tz = if m == 0 { 0 } else { m.trailing_zeros() as i64 };
    let int_ok = m == 0 || e >= 0 || tz >= -e;
    let sub = m != 0 && m < (1u64 << (fmt.mant - 1));
    let kind = if m == 0 { "zero" } else if !int_ok { if sub { "subnormal" } else { "non-integer" } } else if e + (64 - m.leading_zeros() as i64) <= fmt.mant as i64 { "integer-le-mant-bits" } else { "integer-gt-mant-bits" };
    // histogram class with the sign; signature class without it
    rec.hit(match (neg, kind) {
        (false, "zero") => "pos,zero",
        (true, "zero") => "neg,zero",
        (false, "subnormal") => "pos,subnormal",
        (true, "subnormal") => "neg,subnormal",
        (false, "non-integer") => "pos,non-integer",
        (true, "non-integer") => "neg,non-integer",
        (false, "integer-le-mant-bits") => "pos,integer-le-mant-bits",
        (true, "integer-le-mant-bits") => "neg,integer-le-mant-bits",
        (false, _) => "pos,integer-gt-mant-bits",
        (true, _) => "neg,integer-gt-mant-bits",
    });
    let cls = if kind == "subnormal" { "non-integer" } else { kind };
    // the integer value, as (odd-or-not mantissa, shift)
    let (im, ish) = if m == 0 { (0u64, 0u64) } else if e >= 0 { (m, e as u64) } else { (m >> (-e).min(63) as u32, 0) };
    // encode(decode(f)) == Exact(f)
    if let Ok(Ok((dm, de))) = dec {
        want_exact(rec, site("{f}::encode(decode)"), cls, case, guard(|| F::encode_(dm, de as i16)), f);
    }
    let u = lossless(rec, site("UBig::try_from({f})"), cls, case, guard(|| f.u_from()), int_ok && (!neg || m == 0), |u| words_are(u.as_words(), im, ish), |u| hexu(&u_to_ref(u)));
    let i = lossless(rec, site("IBig::try_from({f})"), cls, case, guard(|| f.i_from()), int_ok, |i| { let (s, w) = i.as_sign_words(); words_are(w, im, ish) && (m == 0 || (s == Sign::Negative) == neg) }, |i| hex(&i_to_ref(i)));
    // normalised odd mantissa and exponent of x
    let (om, oe) = if m == 0 { (0u64, 0i64) } else { (m >> tz, e + tz) };
    let repr_same = |r: &Repr<2>| {
        if r.is_infinite() {
            return false;
        }
        let (s, w) = r.significand().as_sign_words();
        let sm = match words_to_u128(w) {
            Some(v) if v <= u64::MAX as u128 => v as u64,
            _ => return false,
        };
        if m == 0 {
            return sm == 0;
        }
        if sm == 0 || (s == Sign::Negative) != neg {
            return false;
        }
        let z = sm.trailing_zeros();
        (sm >> z) == om && r.exponent() as i64 + z as i64 == oe
    };
    let fb = lossless(rec, site("FBig<2>::try_from({f})"), cls, case, guard(|| f.f_from()), true, |v| repr_same(v.repr()), |v| fval(v.repr()).show());
    let pr = if extras { lossless(rec, site("Repr<2>::try_from({f})"), cls, case, guard(|| f.p_from()), true, |v| repr_same(v), |v| fval(v).show()) } else { None };
    let rat_same = |n: &IBig, d: &UBig, canon: bool| {
        let (s, nw) = n.as_sign_words();
        let dw = d.as_words();
        // denominator must be a power of two
        let mut k: i64 = -1;
        for (j, &x) in dw.iter().enumerate() {
            if x != 0 {
                if k >= 0 || !x.is_power_of_two() {
                    return false;
                }
                k = (j * WBITS) as i64 + x.trailing_zeros() as i64;
            }
        }
        if k < 0 {
            return false;
        }
        if m == 0 {
            return nw.iter().all(|x| *x == 0) && (!canon || k == 0);
        }
        if (s == Sign::Negative) != neg {
            return false;
        }
        // numerator = om * 2^z
        let mut z: i64 = 0;
        for (j, &x) in nw.iter().enumerate() {
            if x != 0 {
                z = (j * WBITS) as i64 + x.trailing_zeros() as i64;
                break;
            }
        }
        if canon && z > 0 && k > 0 {
            return false;
        }
        z - k == oe && words_are(nw, om, z as u64)
    };
    let rb = lossless(rec, site("RBig::try_from({f})"), cls, case, guard(|| f.r_from()), true, |r| rat_same(r.numerator(), r.denominator(), true), |r| format!("{:?}", rb_rat(r)));
    let rx = if extras { lossless(rec, site("Relaxed::try_from({f})"), cls, case, guard(|| f.x_from()), true, |r| rat_same(r.numerator(), r.denominator(), false), |r| format!("{:?}", rx_rat(r))) } else { None };
    // the lossy API on an exactly representable value: Exact(f); and the way back
    if let Some(u) = u {
        want_exact(rec, site("UBig::to_{f}"), cls, case, guard(|| F::u_to(&u)), f);
        back(rec, site("{f}::try_from(UBig)"), cls, case, guard(|| F::back_u(u)), f);
    }
    if let Some(i) = i {
        want_exact(rec, site("IBig::to_{f}"), cls, case, guard(|| F::i_to(&i)), f);
        back(rec, site("{f}::try_from(IBig)"), cls, case, guard(|| F::back_i(i)), f);
    }
    if let Some(fb) = fb {
        want_exact(rec, site("FBig<2>::to_{f}"), cls, case, guard(|| F::f_to(&fb)), f);
        if extras {
            let fe: FBig<mode::HalfEven, 2> = fb.clone().with_rounding();
            want_exact(rec, site("FBig<2>::to_{f}"), cls, case, guard(|| F::f_to(&fe)), f);
            back(rec, site("{f}::try_from(FBig<2>)"), cls, case, guard(|| F::back_f(fe)), f);
        }
        back(rec, site("{f}::try_from(FBig<2>)"), cls, case, guard(|| F::back_f(fb)), f);
    }
    if let Some(pr) = pr {
        want_exact(rec, site("Repr<2>::to_{f}"), cls, case, guard(|| F::p_to(&pr)), f);
        back(rec, site("{f}::try_from(Repr<2>)"), cls, case, guard(|| F::back_p(pr)), f);
    }
    if let Some(rb) = rb {
        want_exact(rec, site("RBig::to_{f}"), cls, case, guard(|| F::r_to(&rb)), f);
        rec.step();
        match guard(|| F::r_fast(&rb)) {
            Ok(g) if within_one_ulp(g, f) => {}
            Ok(g) => rec.fail(format!("{}|RBig::to_{}_fast|error>1ulp|{}", P, F::NAME, cls), case(), g.show(), f.show()),
            Err(p) => rec.fail(format!("{}|RBig::to_{}_fast|panic|{}", P, F::NAME, cls), case(), p, f.show()),
        }
        if extras {
            back(rec, site("{f}::try_from(RBig)"), "representable", case, guard(|| F::back_r(rb)), f);
        }
    }
    if let Some(rx) = rx {
        if extras {
            want_exact(rec, site("Relaxed::to_{f}"), cls, case, guard(|| F::x_to(&rx)), f);
            rec.step();
            match guard(|| F::x_fast(&rx)) {
                Ok(g) if within_one_ulp(g, f) => {}
                Ok(g) => rec.fail(format!("{}|Relaxed::to_{}_fast|error>1ulp|{}", P, F::NAME, cls), case(), g.show(), f.show()),
                Err(p) => rec.fail(format!("{}|Relaxed::to_{}_fast|panic|{}", P, F::NAME, cls), case(), p, f.show()),
            }
            back(rec, site("{f}::try_from(Relaxed)"), "representable", case, guard(|| F::back_x(rx)), f);
        }
    }
    if m != 0 {
        rec.nontrivial();
    }
}

/// the other width: a value of one float type through the big types into the other float type
fn cross_width(rec: &mut Rec, f: f64) {
    let (neg, m, e) = match parts_of(f) {
        Some(p) => p,
        None => return,
    };
    let want = round_dyadic(m as u128, e, neg, F32, Mode::HalfEven);
    let cls = class_of(&want, F32);
    let rcls = if want.err == Equal { "representable" } else { "not-representable" };
    let case = || format!("f64 {} -> big -> f32", f.show());
    let case: &dyn Fn() -> String = &case;
    if let Ok(Ok(r)) = guard(|| RBig::try_from(f)) {
        chk_sign::<f32>(rec, "RBig::to_f32", &cls, case, guard(|| r.to_f32()), &want);
        let rx = r.clone().relax();
        chk_sign::<f32>(rec, "Relaxed::to_f32", &cls, case, guard(|| rx.to_f32()), &want);
        rec.step();
        let wf = f32::from_bits(bits_of(&want, F32) as u32);
        match guard(|| r.to_f32_fast()) {
            Ok(g) if within_one_ulp(g, wf) => {}
            Ok(g) => rec.fail(format!("{}|RBig::to_f32_fast|error>1ulp|{}", P, cls), case(), g.show(), wf.show()),
            Err(p) => rec.fail(format!("{}|RBig::to_f32_fast|panic|{}", P, cls), case(), p, wf.show()),
        }
        rec.step();
        match guard(|| f32::try_from(r)) {
            Ok(Ok(g)) if want.err == Equal && same_float(g, wf) => {}
            Ok(Ok(g)) => rec.fail(format!("{}|f32::try_from(RBig)|succeeded-with-changed-value|{}", P, rcls), case(), g.show(), "Err(..)"),
            Ok(Err(_)) => {
                if want.err == Equal {
                    rec.hit("conservative-refusal:f32::try_from(RBig)")
                }
            }
            Err(p) => rec.fail(format!("{}|f32::try_from(RBig)|panic|{}", P, rcls), case(), p, "Ok or Err"),
        }
    }
    if let Ok(Ok(i)) = guard(|| IBig::try_from(f)) {
        // only integers arrive here (or wrongly truncated values, reported by float_case)
        if m == 0 || e >= 0 || m.trailing_zeros() as i64 >= -e {
            let bits = if m == 0 { 0 } else { 64 - m.leading_zeros() as i64 + e };
            let icls = format!("{},{}", if bits <= 64 { "le64bits" } else if bits <= 128 { "le128bits" } else { "gt128bits" }, cls);
            chk_sign::<f32>(rec, "IBig::to_f32", &icls, case, guard(|| i.to_f32()), &want);
            if !neg {
                if let Ok(Ok(u)) = guard(|| UBig::try_from(i.clone())) {
                    chk_sign::<f32>(rec, "UBig::to_f32", &icls, case, guard(|| u.to_f32()), &want);
                }
            }
            rec.step();
            let wf = f32::from_bits(bits_of(&want, F32) as u32);
            match guard(|| f32::try_from(i)) {
                Ok(Ok(g)) if want.err == Equal && same_float(g, wf) => {}
                Ok(Ok(g)) => rec.fail(format!("{}|f32::try_from(IBig)|succeeded-with-changed-value|{}", P, rcls), case(), g.show(), "Err(..)"),
                Ok(Err(_)) => {
                    if want.err == Equal {
                        rec.hit("conservative-refusal:f32::try_from(IBig)")
                    }
                }
                Err(p) => rec.fail(format!("{}|f32::try_from(IBig)|panic|{}", P, rcls), case(), p, "Ok or Err"),
            }
        }
    }
    if let Ok(Ok(fb)) = guard(|| FBig::<mode::HalfEven, 2>::try_from(f)) {
        chk_rounding::<f32>(rec, "FBig<2>::to_f32", &format!("{},base2", range_group(&want, F32)), case, guard(|| fb.to_f32()), &want);
        chk_rounding::<f32>(rec, "Repr<2>::to_f32", &format!("{},base2", range_group(&want, F32)), case, guard(|| fb.repr().to_f32()), &want);
        rec.step();
        let wf = f32::from_bits(bits_of(&want, F32) as u32);
        match guard(|| f32::try_from(fb)) {
            Ok(Ok(g)) if want.err == Equal && same_float(g, wf) => {}
            Ok(Ok(g)) => rec.fail(format!("{}|f32::try_from(FBig<2>)|succeeded-with-changed-value|{}", P, rcls), case(), g.show(), "Err(..)"),
            Ok(Err(_)) => {
                if want.err == Equal {
                    rec.hit("conservative-refusal:f32::try_from(FBig<2>)")
                }
            }
            Err(p) => rec.fail(format!("{}|f32::try_from(FBig<2>)|panic|{}", P, rcls), case(), p, "Ok or Err"),
        }
    }
}

fn f64_mantissa_atoms(thorough: bool) -> Vec<u64> {
    let mut s: BTreeSet<u64> = BTreeSet::new();
    let full = (1u64 << 52) - 1;
    for k in 0..52 {
        s.insert(1u64 << k);
        s.insert((1u64 << k) - 1);
        s.insert(((1u64 << k) + 1) & full);
        s.insert(full & !((1u64 << k) - 1));
        s.insert(full ^ (1u64 << k));
    }
    for a in [0u64, 2, 3, 5, 6, 7, full, full - 1, 0xA_AAAA_AAAA_AAAA, 0x5_5555_5555_5555, 0x8_0000_0000_0001, 0x8_0000_1000_0000, 0x0_0000_1FFF_FFFF, 0x0_0000_2000_0000, 0x0_0000_2000_0001, 0x0_0000_3000_0000, 0xF_FFFF_F000_0000, 0xF_FFFF_E800_0000, 0x1234_5678_9ABC_D & full] {
        s.insert(a);
    }
    if thorough {
        let mut st = 0x1234_5678_9ABC_DEF1u64;
        for _ in 0..600 {
            st = st.wrapping_mul(6364136223846793005).wrapping_add(1442695040888963407);
            s.insert((st >> 12) & full);
        }
    }
    s.into_iter().collect()
}

fn sweep_floats(ctx: &mut Ctx) {
    // f32: sign/exponent field (512) x mantissa blocks; each case walks 256 consecutive low bytes
    let quick = ctx.quick();
    // quick: mantissa = [4 free bits][3 bits 0][8 bits 0x00 or 0xFF][8 free bits]; thorough: all 23 bits
    let hi_n: u64 = if quick { 16 * 2 } else { 1 << 15 };
    ctx.bound("f32.patterns", 512 * hi_n * 256);
    ctx.sweep("f32.bit-patterns", 512 * hi_n, |i, rec| {
        let [se, hi] = unflatten(i, [512, hi_n]);
        let base: u32 = if quick { (((hi >> 1) as u32) << 19) | if hi & 1 == 1 { 0xFF00 } else { 0 } } else { (hi as u32) << 8 };
        for lo in 0..256u32 {
            let bits = ((se as u32) << 23) | base | lo;
            let f = f32::from_bits(bits);
            float_case::<f32>(rec, f, quick || lo % 16 == 0 || lo == 255);
            // widening: the same value must convert to the equal f64
            if lo % 64 == 1 || lo == 255 {
                if let (Ok(Ok(r)), Some(_)) = (guard(|| RBig::try_from(f)), parts_of(f)) {
                    let case = || format!("f32 {} -> RBig/FBig -> f64", f.show());
                    want_exact(rec, Site("RBig::to_f64", ""), "from-f32", &case, guard(|| r.to_f64()), f as f64);
                    if let Ok(Ok(fb)) = guard(|| F2::try_from(f)) {
                        want_exact(rec, Site("FBig<2>::to_f64", ""), "from-f32", &case, guard(|| fb.to_f64()), f as f64);
                    }
                }
            }
        }
        rec.sample(|| format!("f32 bit patterns {:#010x}..={:#010x}: decode/encode, try_from into UBig/IBig/FBig<2>/Repr<2>/RBig/Relaxed, to_f32 of each, try_from back", ((se as u32) << 23) | base, ((se as u32) << 23) | base | 255));
    });
    ctx.require_classes("f32.bit-patterns", &["nan", "inf", "pos,zero", "neg,zero", "pos,subnormal", "neg,subnormal", "pos,non-integer", "neg,non-integer", "pos,integer-le-mant-bits", "neg,integer-gt-mant-bits", "pos,integer-gt-mant-bits"]);
    // f64: all sign/exponent fields x mantissa atoms
    let atoms = f64_mantissa_atoms(!quick);
    let na = atoms.len() as u64;
    ctx.bound("f64.mantissa_atoms", na);
    ctx.sweep("f64.exponent-x-mantissa-atoms", 4096 * na, |i, rec| {
        let [se, ia] = unflatten(i, [4096, na]);
        let f = f64::from_bits(((se as u64) << 52) | atoms[ia]);
        float_case::<f64>(rec, f, true);
        cross_width(rec, f);
        rec.sample(|| format!("f64 {}: decode/encode, try_from into the big types and back, to_f64 and to_f32 of each", f.show()));
    });
    ctx.require_classes("f64.exponent-x-mantissa-atoms", &["nan", "inf", "pos,zero", "neg,subnormal", "pos,non-integer", "neg,integer-le-mant-bits", "pos,integer-gt-mant-bits", "exact", "inexact:result-above", "inexact:result-below", "inexact:addone", "inexact:subone"]);
}

// ---------------------------------------------------------------------------------------------
// (c) integers -> f32 / f64 (lossy, correctly rounded, error sign) and TryFrom<integer> for floats

/// mantissa patterns of exactly `width` bits: top bit set, `top_free` free bits below it, `low_free`
/// free lowest bits, the middle all zeros / all ones / alternating; plus every m < 2^small
fn mant_set(width: u32, top_free: u32, low_free: u32, small: u32) -> Vec<u64> {
    let mut v: BTreeSet<u64> = (0..(1u64 << small)).collect();
    let mid_w = width - 1 - top_free - low_free;
    let mid_mask = (1u64 << mid_w) - 1;
    for t in 0..(1u64 << top_free) {
        for mid in [0u64, mid_mask, 0xAAAA_AAAA_AAAA_AAAA & mid_mask] {
            for l in 0..(1u64 << low_free) {
                v.insert((1u64 << (width - 1)) | (t << (width - 1 - top_free)) | (mid << low_free) | l);
            }
        }
    }
    v.into_iter().collect()
}

fn int_to_float_case<F: DF>(rec: &mut Rec, mag: &BigUint) {
    let fmt = F::FMT;
    let size = match mag.bits() {
        0..=64 => "le64bits",
        65..=128 => "le128bits",
        _ => "gt128bits",
    };
    let u = ref_to_u(mag);
    for neg in [false, true] {
        if neg && mag.is_zero() {
            continue;
        }
        let want = round_big(mag, 0, neg, fmt, Mode::HalfEven);
        let cls = format!("{},{}", size, class_of(&want, fmt));
        rec.hit(range_class(&want, fmt));
        if want.tie {
            rec.hit("tie");
        }
        let case = || format!("{}{} -> {}", if neg { "-" } else { "" }, hexu(mag), F::NAME);
        let case: &dyn Fn() -> String = &case;
        let wf = F::from_bits64(bits_of(&want, fmt));
        let i = IBig::from_parts(if neg { Sign::Negative } else { Sign::Positive }, u.clone());
        if neg {
            chk_sign::<F>(rec, if fmt.mant == 24 { "IBig::to_f32" } else { "IBig::to_f64" }, &cls, case, guard(|| F::i_to(&i)), &want);
        } else {
            chk_sign::<F>(rec, if fmt.mant == 24 { "UBig::to_f32" } else { "UBig::to_f64" }, &cls, case, guard(|| F::u_to(&u)), &want);
            chk_sign::<F>(rec, if fmt.mant == 24 { "IBig::to_f32" } else { "IBig::to_f64" }, &cls, case, guard(|| F::i_to(&i)), &want);
        }
        // TryFrom: Ok only with the exact value
        let rcls = if want.err == Equal { "representable" } else { "not-representable" };
        let tf = |rec: &mut Rec, site: &'static str, got: Result<Result<F, ConversionError>, String>| {
            rec.step();
            match got {
                Ok(Ok(g)) if want.err == Equal && same_float(g, wf) => rec.hit("try_from:ok"),
                Ok(Ok(g)) => {
                    if !saturated(rec, site, F::NAME, "succeeded-with-changed-value", rcls) {
                        rec.fail(format!("{}|{}|succeeded-with-changed-value|{}", P, Site(site, F::NAME), rcls), case(), g.show(), if want.err == Equal { wf.show() } else { "Err(LossOfPrecision | OutOfBounds)".into() })
                    }
                }
                Ok(Err(_)) => rec.hit(if want.err == Equal { "try_from:conservative-refusal" } else { "try_from:refused" }),
                Err(p) => {
                    if !saturated(rec, site, F::NAME, "panic", rcls) {
                        rec.fail(format!("{}|{}|panic|{}", P, Site(site, F::NAME), rcls), case(), p, "Ok or Err")
                    }
                }
            }
        };
        if !neg {
            tf(rec, "{f}::try_from(UBig)", guard(|| F::back_u(u.clone())));
        }
        tf(rec, "{f}::try_from(IBig)", guard(|| F::back_i(i)));
    }
    if !mag.is_zero() {
        rec.nontrivial();
    }
}

fn sweep_int_to_float(ctx: &mut Ctx) {
    let quick = ctx.quick();
    // f32
    let m32 = if quick { mant_set(26, 5, 6, 12) } else { mant_set(26, 9, 9, 16) };
    let k32: Vec<u64> = (0..=4).chain(37..=41).chain(62..=66).chain(99..=105).collect();
    let (nm, nk) = (m32.len() as u64, k32.len() as u64);
    ctx.bound("int.to_f32.mantissas", nm);
    ctx.sweep("int.to_f32", nm * nk, |i, rec| {
        let [im, ik] = unflatten(i, [nm, nk]);
        let (m, k) = (m32[im], k32[ik]);
        let base = BigUint::from(m) << k;
        let mut ts = vec![BigUint::zero()];
        if k >= 1 {
            ts.push(BigUint::one());
        }
        if k >= 2 {
            ts.push((BigUint::one() << k) - 1u8);
        }
        for t in ts {
            let v = &base + t;
            int_to_float_case::<f32>(rec, &v);
            if im % 8 == 0 {
                int_to_float_case::<f64>(rec, &v);
            }
        }
        rec.sample(|| format!("UBig/IBig {:#x}*2^{} + {{0, 1, 2^{}-1}}, both signs: to_f32, f32::try_from", m, k, k));
    });
    ctx.require_classes("int.to_f32", &["exact", "inexact:result-above", "inexact:result-below", "tie", "normal", "top-binade", "overflow", "try_from:ok", "try_from:refused"]);
    if !quick {
        // every 26-bit mantissa at four shifts
        let ks = [0u64, 39, 64, 102];
        ctx.sweep("int.to_f32.all-26-bit-mantissas", (1u64 << 18) * 4, |i, rec| {
            let [hi, ik] = unflatten(i, [1 << 18, 4]);
            let k = ks[ik];
            for lo in 0..256u64 {
                let m = ((hi as u64) << 8) | lo;
                let base = BigUint::from(m) << k;
                int_to_float_case::<f32>(rec, &base);
                if k >= 2 {
                    int_to_float_case::<f32>(rec, &(&base + 1u8));
                    int_to_float_case::<f32>(rec, &(&base + ((BigUint::one() << k) - 1u8)));
                }
            }
            rec.sample(|| format!("all 26-bit m in {:#x}..={:#x}, value m*2^{} + {{0, 1, 2^k-1}}", hi << 8, (hi << 8) | 255, k));
        });
    }
    // f64
    let m64 = if quick { mant_set(55, 5, 6, 12) } else { mant_set(55, 8, 8, 14) };
    let k64: Vec<u64> = (0..=3).chain(9..=12).chain(60..=75).chain([500]).chain(966..=973).collect();
    let (nm, nk) = (m64.len() as u64, k64.len() as u64);
    ctx.bound("int.to_f64.mantissas", nm);
    ctx.sweep("int.to_f64", nm * nk, |i, rec| {
        let [im, ik] = unflatten(i, [nm, nk]);
        let (m, k) = (m64[im], k64[ik]);
        let base = BigUint::from(m) << k;
        let mut ts = vec![BigUint::zero()];
        if k >= 1 {
            ts.push(BigUint::one());
        }
        if k >= 2 {
            ts.push((BigUint::one() << k) - 1u8);
        }
        for t in ts {
            let v = &base + t;
            int_to_float_case::<f64>(rec, &v);
            if im % 8 == 0 && k < 200 {
                int_to_float_case::<f32>(rec, &v);
            }
        }
        rec.sample(|| format!("UBig/IBig {:#x}*2^{} + {{0, 1, 2^{}-1}}, both signs: to_f64, f64::try_from", m, k, k));
    });
    ctx.require_classes("int.to_f64", &["exact", "inexact:result-above", "inexact:result-below", "tie", "normal", "top-binade", "overflow", "try_from:ok", "try_from:refused"]);
    // sparse values: top bit plus one or two low bits at every distance below it, so that each
    // position of the round / sticky window is hit on its own (word, double-word and multi-word sizes)
    let tops: Vec<u64> = (60..=70).chain(125..=135).chain(189..=200).chain([256, 1000]).collect();
    let nt = tops.len() as u64;
    ctx.sweep("int.to_float.sparse", nt * 90, |i, rec| {
        let [it, d] = unflatten(i, [nt, 90]);
        let n = tops[it];
        let d = d as u64 + 1;
        if d > n {
            return;
        }
        let top = BigUint::one() << n;
        let low = BigUint::one() << (n - d);
        for v in [&top + &low, &top - &low, &top + &low + 1u8, (&top + &low) | (BigUint::one() << (n / 2)), &top + &low + (&low >> 1)] {
            int_to_float_case::<f64>(rec, &v);
            int_to_float_case::<f32>(rec, &v);
        }
        rec.sample(|| format!("2^{} +- 2^{} (+ lower bits), both signs: to_f32/to_f64", n, n - d));
    });
}

// ---------------------------------------------------------------------------------------------
// (g) FloatEncoding::encode on arbitrary (mantissa, exponent)

fn encode_one<F: DF>(rec: &mut Rec, m: i64, e: i16) {
    let fmt = F::FMT;
    let want = round_dyadic(m.unsigned_abs() as u128, e as i64, m < 0, fmt, Mode::HalfEven);
    rec.step();
    let got = guard(|| F::encode_(m, e));
    let ok = match &got {
        Ok(Approximation::Exact(v)) => match_val(*v, &want) == Some(Equal),
        Ok(Approximation::Inexact(v, s)) => match match_val(*v, &want) {
            Some(Greater) => *s == Sign::Positive,
            Some(Less) => *s == Sign::Negative,
            _ => false,
        },
        Err(_) => false,
    };
    if ok {
        return;
    }
    // slow path: classify and report
    let extreme = (e as i64).abs() > 2000;
    let cls = format!("{}{}", class_of(&want, fmt), if extreme { ",exponent-near-i16-limit" } else { "" });
    let site = if fmt.mant == 24 { "f32::encode" } else { "f64::encode" };
    let case = || format!("{}({}, {})", site, m, e);
    rec.transitions -= 1;
    rec.validated -= 1;
    chk_sign::<F>(rec, site, &cls, &case, got, &want);
}

fn sweep_encode(ctx: &mut Ctx) {
    let quick = ctx.quick();
    // f32: magnitude = [hi: 10 free bits][11 bits all 0 / all 1][lo: 10 free bits], both signs
    let e32: Vec<i16> = [-32768i16, -32767, -200].into_iter().chain(-182..=-170).chain(-155..=-147).chain(-130..=-124).chain([-100, -31, -24, -23, -1, 0, 1, 64]).chain(90..=98).chain([104, 105]).chain(120..=129).chain([200, 32736, 32767]).collect();
    let ne = e32.len() as u64;
    let hi_n: u64 = if quick { 256 } else { 1024 };
    ctx.bound("encode.f32.exponents", ne);
    ctx.sweep("encode.f32", hi_n * 2 * ne, |i, rec| {
        let [hi, mid, ie] = unflatten(i, [hi_n, 2, ne]);
        // quick: the 10 hi bits take the 256 values with bits 2..3 clear
        let hi = if quick { ((hi as u32 & 0xfc) << 2) | (hi as u32 & 3) } else { hi as u32 };
        let e = e32[ie];
        let extreme = (e as i32).abs() > 2000;
        let base = (hi << 21) | if mid == 1 { 0x7ff << 10 } else { 0 };
        for lo in 0..(if extreme { 8u32 } else { 1024 }) {
            let mag = base | lo;
            encode_one::<f32>(rec, mag as i64, e);
            encode_one::<f32>(rec, -(mag as i64), e);
        }
        if hi == 0 && mid == 0 {
            encode_one::<f32>(rec, i32::MIN as i64, e);
        }
        rec.nontrivial();
        rec.sample(|| format!("f32::encode(+-m, {}) for m in {:#x}..={:#x}", e, base, base | 1023));
    });
    if !quick {
        // all 2^32 mantissas at the key exponents
        let key: [i16; 12] = [-175, -152, -150, -149, -140, -126, -30, 0, 97, 98, 104, 127];
        ctx.sweep("encode.f32.all-mantissas", (1u64 << 20) * 12, |i, rec| {
            let [hi, ie] = unflatten(i, [1 << 20, 12]);
            for lo in 0..4096u32 {
                let m = (((hi as u32) << 12) | lo) as i32;
                encode_one::<f32>(rec, m as i64, key[ie]);
            }
            rec.nontrivial();
        });
    }
    // f64: magnitudes by bit length x [4 free top bits][middle 0 / 1 / alternating][6 free low bits]
    let e64: Vec<i16> = [-32768i16, -32767, -2000].into_iter().chain(-1140..=-1060).chain(-1030..=-1015).chain([-500, -64, -53, -52, -1, 0, 1, 11, 500]).chain(955..=1030).chain([2000, 32704, 32767]).collect();
    let ne = e64.len() as u64;
    ctx.bound("encode.f64.exponents", ne);
    let tops: u64 = if quick { 8 } else { 64 };
    ctx.sweep("encode.f64", 63 * tops * 3 * ne, |i, rec| {
        let [len, top, mid, ie] = unflatten(i, [63, tops, 3, ne]);
        let len = len as u32 + 1; // bit length 1..=63
        let e = e64[ie];
        let extreme = (e as i32).abs() > 1999;
        let tb = if quick { 3 } else { 6 };
        for lo in 0..(if extreme { 4u64 } else { 64 }) {
            // assemble a `len`-bit magnitude; fields that do not fit are truncated from the middle
            let mut mag: u64 = 1u64 << (len - 1);
            if len > 1 {
                let avail = len - 1;
                let t_w = tb.min(avail);
                mag |= ((top as u64) & ((1 << t_w) - 1)) << (avail - t_w);
                let l_w = 6.min(avail - t_w);
                mag |= lo & ((1 << l_w) - 1);
                let m_w = avail - t_w - l_w;
                if m_w > 0 {
                    let mm = (1u64 << m_w) - 1;
                    mag |= ([0u64, mm, 0x5555_5555_5555_5555 & mm][mid]) << l_w;
                }
            }
            encode_one::<f64>(rec, mag as i64, e);
            encode_one::<f64>(rec, -(mag as i64), e);
        }
        if len == 1 && top == 0 && mid == 0 {
            encode_one::<f64>(rec, i64::MIN, e);
            encode_one::<f64>(rec, 0, e);
            encode_one::<f32>(rec, 0, e);
        }
        rec.nontrivial();
        rec.sample(|| format!("f64::encode(+-m, {}) for {}-bit magnitudes, top field {}, middle pattern {}", e, len, top, mid));
    });
}

// ---------------------------------------------------------------------------------------------
// (d) rationals -> f32 / f64

fn rat_to_float_case<F: DF>(rec: &mut Rec, n: &BigInt, d: &BigInt) {
    use num_integer::Integer;
    let fmt = F::FMT;
    let x = Rat::new(n.clone(), d.clone());
    let want = round_rat(&x, fmt, Mode::HalfEven);
    let wf = F::from_bits64(bits_of(&want, fmt));
    // width of the quotient the shifted long division produces (mant or mant+1 bits), from the
    // same inequalities as the source, on the reduced fraction
    let qbits = if x.is_zero() {
        0
    } else {
        let shift = x.n.bits() as i64 - x.d.bits() as i64 - fmt.mant as i64;
        let q = if shift >= 0 { x.n.abs().div_floor(&(&x.d << shift as u64)) } else { (x.n.abs() << (-shift) as u64).div_floor(&x.d) };
        q.bits() as i64 - fmt.mant as i64
    };
    rec.hit(if qbits == 0 { "quotient:mant-bits" } else { "quotient:mant+1-bits" });
    rec.hit(range_class(&want, fmt));
    if want.tie {
        rec.hit("tie");
    }
    let cls = class_of(&want, fmt);
    let case = || format!("{}/{} -> {}", n, d, F::NAME);
    let case: &dyn Fn() -> String = &case;
    let (to, fast, tf) = if fmt.mant == 24 { ("to_f32", "to_f32_fast", "f32::try_from") } else { ("to_f64", "to_f64_fast", "f64::try_from") };
    let r = match guard(|| RBig::from_parts(ref_to_i(n), ref_to_u(d.magnitude()))) {
        Ok(r) => r,
        Err(p) => {
            rec.fail(format!("{}|RBig::from_parts|panic|", P), case(), p, "a rational");
            return;
        }
    };
    let (n3, d3): (BigInt, BigInt) = (n * BigInt::from(3), d * BigInt::from(3));
    let rx = Relaxed::from_parts(ref_to_i(&n3), ref_to_u(d3.magnitude()));
    let rcls = if want.err == Equal { "representable" } else { "not-representable" };
    let fast_chk = |rec: &mut Rec, ty: &str, got: Result<F, String>| {
        rec.step();
        match got {
            Ok(g) if within_one_ulp(g, wf) => rec.hit(if same_float(g, wf) { "fast:correctly-rounded" } else { "fast:off-by-one-ulp" }),
            Ok(g) => {
                if !saturated(rec, ty, fast, "error>1ulp", &cls) {
                    rec.fail(format!("{}|{}::{}|error>1ulp|{}", P, ty, fast, cls), case(), g.show(), format!("{} or a neighbour", wf.show()))
                }
            }
            Err(p) => {
                if !saturated(rec, ty, fast, "panic", &cls) {
                    rec.fail(format!("{}|{}::{}|panic|{}", P, ty, fast, cls), case(), p, wf.show())
                }
            }
        }
    };
    let tf_chk = |rec: &mut Rec, ty: &str, got: Result<Result<F, ConversionError>, String>| {
        rec.step();
        match got {
            Ok(Ok(g)) if want.err == Equal && same_float(g, wf) => rec.hit("try_from:ok"),
            Ok(Ok(g)) => {
                if !saturated(rec, ty, tf, "succeeded-with-changed-value", rcls) {
                    rec.fail(format!("{}|{}({})|succeeded-with-changed-value|{}", P, tf, ty, rcls), case(), g.show(), if want.err == Equal { wf.show() } else { "Err(LossOfPrecision | OutOfBounds)".into() })
                }
            }
            Ok(Err(_)) => rec.hit(if want.err == Equal { "try_from:conservative-refusal" } else { "try_from:refused" }),
            Err(p) => {
                if !saturated(rec, ty, tf, "panic", rcls) {
                    rec.fail(format!("{}|{}({})|panic|{}", P, tf, ty, rcls), case(), p, "Ok or Err")
                }
            }
        }
    };
    chk_sign::<F>(rec, &format!("RBig::{}", to), &cls, case, guard(|| F::r_to(&r)), &want);
    fast_chk(rec, "RBig", guard(|| F::r_fast(&r)));
    chk_sign::<F>(rec, &format!("Relaxed::{}", to), &cls, case, guard(|| F::x_to(&rx)), &want);
    fast_chk(rec, "Relaxed", guard(|| F::x_fast(&rx)));
    tf_chk(rec, "RBig", guard(|| F::back_r(r)));
    tf_chk(rec, "Relaxed", guard(|| F::back_x(rx)));
    if !x.is_zero() {
        rec.nontrivial();
    }
}

fn rat_denominators(quick: bool) -> Vec<BigInt> {
    let one = BigInt::one();
    let mut v = vec![BigInt::from(3), BigInt::from(10), BigInt::from(1025), (&one << 61u32) - 1, (&one << 64u32) + 13, (&one << 89u32) - 1];
    if !quick {
        v.extend([BigInt::from(7), BigInt::from(1023), (&one << 31u32) - 1, BigInt::from(3) << 20u32]);
    }
    v
}

fn sweep_rat_to_float_fmt<F: DF>(ctx: &mut Ctx, js: &[i64]) {
    let fmt = F::FMT;
    let quick = ctx.quick();
    let ds = rat_denominators(quick);
    let ms = if quick { mant_set(fmt.mant + 2, 2, 4, 0) } else { mant_set(fmt.mant + 2, 3, 5, 0) };
    let ms: Vec<u64> = ms.into_iter().filter(|m| *m != 0).collect();
    let (nm, nj, nd) = (ms.len() as u64, js.len() as u64, ds.len() as u64);
    let name = format!("rat.to_{}.near-ties", F::NAME);
    ctx.sweep(&name, nm * nj * nd, |i, rec| {
        let [im, ij, id] = unflatten(i, [nm, nj, nd]);
        let (m, j, d) = (ms[im], js[ij], &ds[id]);
        for delta in [-1i32, 0, 1] {
            for sg in [1i32, -1] {
                let num = (BigInt::from(m) * d + delta) * sg;
                if j >= 0 {
                    rat_to_float_case::<F>(rec, &(num << j as u64), d);
                } else {
                    rat_to_float_case::<F>(rec, &num, &(d << (-j) as u64));
                }
            }
        }
        rec.sample(|| format!("RBig/Relaxed +-({:#x} + {{-1,0,1}}/{}) * 2^{}: to_{n}, to_{n}_fast, {n}::try_from", m, d, j, n = F::NAME));
    });
    ctx.require_classes(&name, &["exact", "inexact:result-above", "inexact:result-below", "tie", "quotient:mant-bits", "quotient:mant+1-bits", "normal", "subnormal", "half-min-subnormal", "underflow", "top-binade", "overflow", "try_from:ok", "try_from:refused", "fast:correctly-rounded"]);
    // small significands across the bottom of the subnormal range: (M + delta/d) * 2^(qmin - s)
    let mmax: u64 = if quick { 1 << 9 } else { 1 << 12 };
    let name = format!("rat.to_{}.subnormal", F::NAME);
    ctx.sweep(&name, (mmax - 1) * 13 * nd, |i, rec| {
        let [im, s, id] = unflatten(i, [mmax - 1, 13, nd]);
        let (m, d) = (im as u64 + 1, &ds[id]);
        for delta in [-1i32, 0, 1] {
            for sg in [1i32, -1] {
                let num = (BigInt::from(m) * d + delta) * sg;
                rat_to_float_case::<F>(rec, &num, &(d << (s as i64 - fmt.qmin) as u64));
            }
        }
        rec.sample(|| format!("RBig/Relaxed +-({} + {{-1,0,1}}/{}) * 2^{}", m, d, fmt.qmin - s as i64));
    });
    ctx.require_classes(&name, &["exact", "inexact:result-above", "inexact:result-below", "tie", "subnormal", "half-min-subnormal", "underflow"]);
}

fn sweep_rat_to_float(ctx: &mut Ctx) {
    let j32: Vec<i64> = (-181..=-148).chain([-100, -27, -26, -25, -24, -2, -1, 0, 1, 2, 39, 64]).chain(99..=105).collect();
    sweep_rat_to_float_fmt::<f32>(ctx, &j32);
    let j64: Vec<i64> = (-1135..=-1125).chain([-1110, -1100, -1090]).chain(-1082..=-1073).chain([-500, -56, -55, -54, -53, -52, -2, -1, 0, 1, 2, 10, 64, 500]).chain(966..=972).collect();
    sweep_rat_to_float_fmt::<f64>(ctx, &j64);
}

// ---------------------------------------------------------------------------------------------
// (e) FBig (any base) -> f32 under the type's mode, -> f64 under HalfEven

/// two-valued range class for the FBig signatures: at or above the smallest normal / below it
fn range_group(r: &RefF, fmt: Fmt) -> &'static str {
    match range_class(r, fmt) {
        "zero" | "normal" | "top-binade" | "overflow" => "normal-range",
        _ => "below-normal-range",
    }
}

fn convert_branch<const B: Word>(e: i64) -> &'static str {
    if B == 2 {
        "base2"
    } else if B.is_power_of_two() {
        "power-of-two-base"
    } else {
        let thr = (WBITS as f32 * 0.60206) as i64; // float/src/convert.rs THRESHOLD_SMALL_EXP
        if e.abs() > thr {
            "large-exponent"
        } else if e >= 0 {
            "small-exponent>=0"
        } else {
            "small-exponent<0"
        }
    }
}

fn fbig_to_float<R: ModeTag, const B: Word>(ctx: &mut Ctx, tag: &str, vals: &[(BigInt, i64)]) {
    let n = vals.len() as u64;
    let md = R::MODE;
    let name = format!("fbig.B{}.{}.{}", B, md.name(), tag);
    let with_f64 = matches!(md, Mode::HalfEven | Mode::Zero);
    ctx.sweep(&name, n, |i, rec| {
        let (s0, e) = &vals[i as usize];
        let e = *e;
        let br = convert_branch::<B>(e);
        rec.hit(br);
        for sg in [1i32, -1] {
            let s = s0 * sg;
            if s.is_zero() && sg < 0 {
                continue;
            }
            let x = Rat::scaled(&s, B as u32, e);
            let f: FBig<R, B> = fbig_of::<R, B>(&s, e, digits_b(&s, B as u32).max(1));
            let case = || format!("FBig<{}, {}> {}*{}^{}", md.name(), B, s, B, e);
            let case: &dyn Fn() -> String = &case;
            let w32 = round_rat(&x, F32, md);
            rec.hit(range_class(&w32, F32));
            // a binary significand that fits the mantissa cannot suffer the (known) double rounding
            // below the normal range: keep those inputs in a class of their own
            let short = |bits: u64| if B == 2 && s.bits() - s.trailing_zeros().unwrap_or(0) <= bits { format!(",significand-fits-mantissa,{}", md.name()) } else { String::new() };
            let cls = format!("{},{}{}", range_group(&w32, F32), br, short(24));
            chk_rounding::<f32>(rec, &format!("FBig<{}>::to_f32", B), &cls, case, guard(|| f.to_f32()), &w32);
            if with_f64 {
                let w64 = round_rat(&x, F64, Mode::HalfEven);
                let cls = format!("{},{}{}", range_group(&w64, F64), br, short(53));
                chk_rounding::<f64>(rec, &format!("FBig<{}>::to_f64", B), &cls, case, guard(|| f.to_f64()), &w64);
                if md == Mode::HalfEven {
                    chk_rounding::<f64>(rec, &format!("Repr<{}>::to_f64", B), &cls, case, guard(|| f.repr().to_f64()), &w64);
                    let cls = format!("{},{}{}", range_group(&w32, F32), br, short(24));
                    chk_rounding::<f32>(rec, &format!("Repr<{}>::to_f32", B), &cls, case, guard(|| f.repr().to_f32()), &w32);
                }
            }
            if !s.is_zero() {
                rec.nontrivial();
            }
        }
        rec.sample(|| format!("FBig<{}, {}> +-{}*{}^{}: to_f32{}", md.name(), B, s0, B, e, if with_f64 { ", to_f64" } else { "" }));
    });
    ctx.require_classes(&name, &["exact"]);
}

fn grid(sigs: &[u64], exps: &[i64]) -> Vec<(BigInt, i64)> {
    let mut v = Vec::with_capacity(sigs.len() * exps.len());
    for &s in sigs {
        for &e in exps {
            v.push((BigInt::from(s), e));
        }
    }
    v
}

fn sweep_fbig_to_float(ctx: &mut Ctx) {
    let quick = ctx.quick();
    // base 2: near-tie significands across normal / subnormal / overflow exponents of f32 and f64
    let s32: Vec<u64> = mant_set(26, 2, 4, if quick { 6 } else { 9 });
    let e32: Vec<i64> = (-181..=-148).chain([-100, -27, -26, -25, -24, -2, -1, 0, 1, 2, 39]).chain(99..=105).collect();
    let g = grid(&s32, &e32);
    for_all_modes!(fbig_to_float, 2, (ctx, "f32-range", &g));
    let s64: Vec<u64> = mant_set(55, 2, 4, if quick { 5 } else { 8 });
    let e64: Vec<i64> = (-1135..=-1125).chain([-1110, -1100, -1090]).chain(-1082..=-1073).chain([-500, -56, -55, -54, -53, -2, -1, 0, 1, 64, 500]).chain(966..=972).collect();
    let g = grid(&s64, &e64);
    fbig_to_float::<mode::HalfEven, 2>(ctx, "f64-range", &g);
    fbig_to_float::<mode::Zero, 2>(ctx, "f64-range", &g);
    // base 10: every significand of <= 3 digits, exponents around the f32 range; coarse
    // significands across the f64 range
    let s10: Vec<u64> = (0..if quick { 1000u64 } else { 10000 }).filter(|s| s % 10 != 0 || *s == 0).collect();
    let e10: Vec<i64> = (-50..=40).collect();
    let g = grid(&s10, &e10);
    if quick {
        // all six modes on the 2-digit significands, the two modes whose conversion also yields f64 on all
        let s10b: Vec<u64> = s10.iter().copied().filter(|s| *s < 100).collect();
        let gb = grid(&s10b, &e10);
        for_all_modes!(fbig_to_float, 10, (ctx, "2-digits", &gb));
        fbig_to_float::<mode::HalfEven, 10>(ctx, "3-digits", &g);
        fbig_to_float::<mode::Zero, 10>(ctx, "3-digits", &g);
    } else {
        for_all_modes!(fbig_to_float, 10, (ctx, "4-digits", &g));
    }
    let s10c: Vec<u64> = (1..100u64).filter(|s| s % 10 != 0).collect();
    let e10c: Vec<i64> = if quick { (-330..=310).step_by(3).collect() } else { (-330..=310).collect() };
    let g = grid(&s10c, &e10c);
    fbig_to_float::<mode::HalfEven, 10>(ctx, "2-digits-f64-range", &g);
    fbig_to_float::<mode::Zero, 10>(ctx, "2-digits-f64-range", &g);
    // base 16 (exact base change: the significand reaches the encoder unrounded)
    let s16: Vec<u64> = mant_set(26, 2, 3, if quick { 6 } else { 9 });
    let e16: Vec<i64> = (-46..=-30).chain(-7..=2).chain(24..=33).collect();
    let g = grid(&s16, &e16);
    for_all_modes!(fbig_to_float, 16, (ctx, "f32-range", &g));
    if !quick {
        let s3: Vec<u64> = (0..243u64).filter(|s| s % 3 != 0 || *s == 0).collect();
        let e3: Vec<i64> = (-100..=85).collect();
        let g = grid(&s3, &e3);
        for_all_modes!(fbig_to_float, 3, (ctx, "5-digits", &g));
    }
}

// ---------------------------------------------------------------------------------------------
// (f) to_int family, TryFrom<FBig>/<RBig> for integers and rationals, RBig::to_float

fn int_result(rec: &mut Rec, site: &str, cls: &str, case: &dyn Fn() -> String, got: Result<Approximation<IBig, Rounding>, String>, want: &BigInt, err: Ordering, noop_only: bool) {
    rec.step();
    let (v, flag) = match got {
        Ok(Approximation::Exact(v)) => (v, None),
        Ok(Approximation::Inexact(v, r)) => (v, Some(r)),
        Err(p) => {
            rec.fail(format!("{}|{}|panic|{}", P, site, cls), case(), p, hex(want));
            return;
        }
    };
    let g = i_to_ref(&v);
    if &g != want {
        rec.fail(format!("{}|{}|wrong-value|{}", P, site, cls), case(), format!("{} flag {:?}", g, flag), format!("{} (error sign {:?})", want, err));
        return;
    }
    let bad = match (flag, err) {
        (None, Equal) => {
            rec.hit("exact");
            None
        }
        (None, _) => Some("exact-but-inexact"),
        (Some(_), Equal) => Some("inexact-but-exact"),
        (Some(Rounding::AddOne), Greater) if !noop_only => {
            rec.hit("inexact:addone");
            None
        }
        (Some(Rounding::SubOne), Less) if !noop_only => {
            rec.hit("inexact:subone");
            None
        }
        (Some(Rounding::NoOp), e) => {
            let towards_zero = (e == Less) != want.is_negative() || want.is_zero();
            rec.hit(if towards_zero { "inexact:noop" } else { "unspecified:noop-on-result-away-from-zero" });
            None
        }
        _ => Some("direction"),
    };
    if let Some(k) = bad {
        rec.fail(format!("{}|{}|wrong-flag:{}|{}", P, site, k, cls), case(), format!("{} flag {:?}", g, flag), format!("{} (error sign {:?})", want, err));
    }
}

fn to_int_sweep<R: ModeTag, const B: Word>(ctx: &mut Ctx, uni: &[(BigInt, i64)]) {
    let md = R::MODE;
    let n = uni.len() as u64;
    let name = format!("to_int.B{}.{}", B, md.name());
    ctx.sweep(&name, n * 3, |i, rec| {
        let [iv, ip] = unflatten(i, [n, 3]);
        let (s, e) = &uni[iv];
        let digits = digits_b(s, B as u32).max(1);
        let prec = [digits, digits + 3, 0][ip];
        let x = Rat::scaled(s, B as u32, *e);
        let f: FBig<R, B> = fbig_of::<R, B>(s, *e, prec);
        let small = rat_abs_lt_pow2(&x, 0);
        let cls = format!("{},{}", if x.is_int() { "integer" } else if small { "abs<1" } else { "abs>1" }, match ip { 0 => "precision=digits", 1 => "precision>digits", _ => "precision-unlimited" });
        let case = || format!("FBig<{}, {}> {}*{}^{} precision {}", md.name(), B, s, B, e, prec);
        let case: &dyn Fn() -> String = &case;
        let (want, err) = round_int(&x, md);
        int_result(rec, &format!("FBig<{}>::to_int", B), &cls, case, guard(|| f.to_int()), &want, err, false);
        if md == Mode::Zero && ip == 0 {
            let (wz, ez) = round_int(&x, Mode::Zero);
            let cls = if x.is_int() { "integer" } else if small { "abs<1" } else { "abs>1" };
            int_result(rec, &format!("Repr<{}>::to_int", B), cls, case, guard(|| f.repr().to_int()), &wz, ez, true);
            // lossless-or-refused conversions of a float value
            let is_int = x.is_int();
            lossless(rec, Site("IBig::try_from(FBig)", ""), cls, case, guard(|| IBig::try_from(f.clone())), is_int, |v| i_to_ref(v) == x.n, |v| hex(&i_to_ref(v)));
            lossless(rec, Site("UBig::try_from(FBig)", ""), cls, case, guard(|| UBig::try_from(f.clone())), is_int && !x.is_neg(), |v| BigInt::from(u_to_ref(v)) == x.n, |v| hexu(&u_to_ref(v)));
            let iv = IVal::of(if is_int { x.n.clone() } else { BigInt::zero() });
            macro_rules! prim {
                ($($t:ty)*) => {$(
                    lossless(rec, Site(concat!(stringify!($t), "::try_from(FBig)"), ""), cls, case, guard(|| <$t>::try_from(f.clone())), is_int && fits::<$t>(&iv), |v| BigInt::from(*v) == x.n, |v| format!("{}", v));
                )*};
            }
            prim!(u8 i8 u16 i32 u64 i64 u128 i128 usize isize);
            let r = lossless(rec, Site("RBig::try_from(FBig)", ""), cls, case, guard(|| RBig::try_from(f.clone())), true, |r| { let (n, d) = rb_rat(r); canonical(&n, &d) && n == x.n && d == x.d }, |r| format!("{:?}", rb_rat(r)));
            lossless(rec, Site("Relaxed::try_from(FBig)", ""), cls, case, guard(|| Relaxed::try_from(f.clone())), true, |r| { let (n, d) = rx_rat(r); d.is_positive() && Rat::new(n, d) == x }, |r| format!("{:?}", rx_rat(r)));
            lossless(rec, Site("RBig::try_from(Repr)", ""), cls, case, guard(|| RBig::try_from(f.repr().clone())), true, |r| { let (n, d) = rb_rat(r); canonical(&n, &d) && n == x.n && d == x.d }, |r| format!("{:?}", rb_rat(r)));
            // and back: From<RBig> for FBig must hold the same value (the value is a B-adic fraction)
            if let Some(r) = r {
                rec.step();
                match guard(|| FBig::<R, B>::from(r)) {
                    Ok(g) if fb_rat(&g).as_ref() == Some(&x) => rec.hit("from-rbig:same-value"),
                    Ok(g) => rec.fail(format!("{}|FBig<{}>::from(RBig)|lossy-from|terminating-fraction", P, B), case(), fval(g.repr()).show(), x.show()),
                    Err(p) => rec.fail(format!("{}|FBig<{}>::from(RBig)|panic|terminating-fraction", P, B), case(), p, x.show()),
                }
            }
        }
        rec.hit(if x.is_int() { "integer" } else if small { "abs<1" } else { "abs>1" });
        if !s.is_zero() {
            rec.nontrivial();
        }
        rec.sample(|| case());
    });
    ctx.require_classes(&name, &["exact", "integer", "abs<1", "abs>1"]);
}

fn q_universe(nmax: i64, dmax: i64, seed: u64) -> Vec<(BigInt, BigInt)> {
    use num_integer::Integer;
    let mut v = vec![];
    for d in 1..=dmax {
        for n in -nmax..=nmax {
            if n.gcd(&d) == 1 {
                v.push((BigInt::from(n), BigInt::from(d)));
            }
        }
    }
    // multi-word shapes: integers, unit fractions, near-integers
    for sh in shapes(&[1, 2, 3, 5], &["ones", "top1p1", "lcgA", "lcgSeed"], seed) {
        let a = BigInt::from(sh.v.clone());
        v.push((a.clone(), BigInt::one()));
        v.push((-a.clone(), BigInt::from(3)));
        v.push((BigInt::one(), a.clone() + 1));
        v.push((&a * 7 + 1, BigInt::from(7)));
        v.push((-(&a * &a) - 1, a.clone() + 2));
    }
    v.into_iter().map(|(n, d)| { let r = Rat::new(n, d); (r.n, r.d) }).collect::<BTreeSet<_>>().into_iter().collect()
}

fn sweep_rat_to_int(ctx: &mut Ctx, q: &[(BigInt, BigInt)]) {
    let n = q.len() as u64;
    ctx.sweep("rat.to_int+try_from", n, |i, rec| {
        let (num, den) = &q[i as usize];
        let x = Rat::new(num.clone(), den.clone());
        let is_int = x.is_int();
        let cls = if is_int { "integer" } else if rat_abs_lt_pow2(&x, 0) { "abs<1" } else { "abs>1" };
        rec.hit(cls);
        let case = || format!("{}/{}", num, den);
        let case: &dyn Fn() -> String = &case;
        let r = RBig::from_parts(ref_to_i(num), ref_to_u(den.magnitude()));
        let (n3, d3): (BigInt, BigInt) = (num * BigInt::from(3), den * BigInt::from(3));
        let rx = Relaxed::from_parts(ref_to_i(&n3), ref_to_u(d3.magnitude()));
        let tr = x.trunc();
        let fr = x.sub(&Rat::int(tr.clone()));
        // to_int: truncation and the fractional part
        rec.steps(2);
        match guard(|| r.to_int()) {
            Ok(Approximation::Exact(v)) if is_int && i_to_ref(&v) == tr => rec.hit("exact"),
            Ok(Approximation::Inexact(v, f)) if !is_int && i_to_ref(&v) == tr && { let (n, d) = rb_rat(&f); canonical(&n, &d) && n == fr.n && d == fr.d } => rec.hit("inexact:fraction-returned"),
            Ok(o) => rec.fail(format!("{}|RBig::to_int|wrong-value|{}", P, cls), case(), format!("{:?}", o.map(|v| i_to_ref(&v))), format!("{} and fraction {}", tr, fr.show())),
            Err(p) => rec.fail(format!("{}|RBig::to_int|panic|{}", P, cls), case(), p, format!("{}", tr)),
        }
        match guard(|| rx.to_int()) {
            Ok(Approximation::Exact(v)) if is_int && i_to_ref(&v) == tr => rec.hit("exact"),
            Ok(Approximation::Inexact(v, f)) if !is_int && i_to_ref(&v) == tr && { let (n, d) = rx_rat(&f); d.is_positive() && Rat::new(n, d) == fr } => rec.hit("inexact:fraction-returned"),
            Ok(o) => rec.fail(format!("{}|Relaxed::to_int|wrong-value|{}", P, cls), case(), format!("{:?}", o.map(|v| i_to_ref(&v))), format!("{} and fraction {}", tr, fr.show())),
            Err(p) => rec.fail(format!("{}|Relaxed::to_int|panic|{}", P, cls), case(), p, format!("{}", tr)),
        }
        lossless(rec, Site("IBig::try_from(RBig)", ""), cls, case, guard(|| IBig::try_from(r.clone())), is_int, |v| i_to_ref(v) == x.n, |v| hex(&i_to_ref(v)));
        lossless(rec, Site("IBig::try_from(Relaxed)", ""), cls, case, guard(|| IBig::try_from(rx.clone())), is_int, |v| i_to_ref(v) == x.n, |v| hex(&i_to_ref(v)));
        lossless(rec, Site("UBig::try_from(RBig)", ""), cls, case, guard(|| UBig::try_from(r.clone())), is_int && !x.is_neg(), |v| BigInt::from(u_to_ref(v)) == x.n, |v| hexu(&u_to_ref(v)));
        lossless(rec, Site("UBig::try_from(Relaxed)", ""), cls, case, guard(|| UBig::try_from(rx.clone())), is_int && !x.is_neg(), |v| BigInt::from(u_to_ref(v)) == x.n, |v| hexu(&u_to_ref(v)));
        let iv = IVal::of(if is_int { x.n.clone() } else { BigInt::zero() });
        macro_rules! prim {
            ($($t:ty)*) => {$(
                lossless(rec, Site(concat!(stringify!($t), "::try_from(RBig)"), ""), cls, case, guard(|| <$t>::try_from(r.clone())), is_int && fits::<$t>(&iv), |v| BigInt::from(*v) == x.n, |v| format!("{}", v));
                lossless(rec, Site(concat!(stringify!($t), "::try_from(Relaxed)"), ""), cls, case, guard(|| <$t>::try_from(rx.clone())), is_int && fits::<$t>(&iv), |v| BigInt::from(*v) == x.n, |v| format!("{}", v));
            )*};
        }
        prim!(u8 i8 u64 i64 i128 usize);
        // From<RBig> for FBig: a From must be lossless
        let term2 = { let mut d = x.d.clone(); while (&d % 2u8).is_zero() { d /= 2u8; } d.is_one() };
        let term10 = { let mut d = x.d.clone(); while (&d % 2u8).is_zero() { d /= 2u8; } while (&d % 5u8).is_zero() { d /= 5u8; } d.is_one() };
        rec.steps(2);
        match guard(|| F2::from(r.clone())) {
            Ok(g) if fb_rat(&g).as_ref() == Some(&x) => rec.hit("from-rbig:same-value"),
            Ok(g) => rec.fail(format!("{}|FBig<2>::from(RBig)|lossy-from|{}", P, if term2 { "terminating-fraction" } else { "non-terminating-fraction" }), case(), fval(g.repr()).show(), format!("{} exactly (a From conversion must not lose information)", x.show())),
            Err(p) => rec.fail(format!("{}|FBig<2>::from(RBig)|panic|{}", P, if term2 { "terminating-fraction" } else { "non-terminating-fraction" }), case(), p, x.show()),
        }
        match guard(|| F10::from(rx.clone())) {
            Ok(g) if fb_rat(&g).as_ref() == Some(&x) => rec.hit("from-rbig:same-value"),
            Ok(g) => rec.fail(format!("{}|FBig<10>::from(Relaxed)|lossy-from|{}", P, if term10 { "terminating-fraction" } else { "non-terminating-fraction" }), case(), fval(g.repr()).show(), format!("{} exactly (a From conversion must not lose information)", x.show())),
            Err(p) => rec.fail(format!("{}|FBig<10>::from(Relaxed)|panic|{}", P, if term10 { "terminating-fraction" } else { "non-terminating-fraction" }), case(), p, x.show()),
        }
        if !x.is_zero() {
            rec.nontrivial();
        }
        rec.sample(|| case());
    });
    ctx.require_classes("rat.to_int+try_from", &["exact", "inexact:fraction-returned", "integer", "abs<1", "abs>1"]);
}

fn to_float_sweep<R: ModeTag, const B: Word>(ctx: &mut Ctx, q: &[(BigInt, BigInt)], precs: &[usize]) {
    let md = R::MODE;
    let (n, np) = (q.len() as u64, precs.len() as u64);
    let name = format!("rat.to_float.B{}.{}", B, md.name());
    ctx.sweep(&name, n * np, |i, rec| {
        let [iq, ip] = unflatten(i, [n, np]);
        let (num, den) = &q[iq];
        let p = precs[ip];
        let x = Rat::new(num.clone(), den.clone());
        let r = RBig::from_parts(ref_to_i(num), ref_to_u(den.magnitude()));
        let case = || format!("RBig {}/{} .to_float::<{}, {}>({})", num, den, md.name(), B, p);
        let multi = num.bits() > 64 || den.bits() > 64;
        let cls = format!("B{},{},{}", B, if md.is_half() { "half-modes" } else { "directed-modes" }, if multi { "multi-word" } else { "single-word" });
        for relaxed in [false, true] {
            rec.step();
            let site = if relaxed { "Relaxed::to_float" } else { "RBig::to_float" };
            let got = if relaxed { let rx = r.clone().relax(); guard(|| rx.to_float::<R, B>(p)) } else { guard(|| r.to_float::<R, B>(p)) };
            match got {
                Ok(a) => {
                    let flag = flag_of(&a);
                    let v = a.value();
                    if v.repr().is_infinite() {
                        rec.fail(format!("{}|{}|infinite-result|{}", P, site, cls), case(), "infinite", x.show());
                        continue;
                    }
                    let fv = fval(v.repr());
                    match judge(&x, &fv, flag, p, md) {
                        Ok(c) => rec.hit(c),
                        Err((kind, why)) => rec.fail(format!("{}|{}|{}|{}", P, site, kind, cls), case(), format!("{} flag {:?}: {}", fv.show(), flag, why), format!("{} rounded to {} digits in mode {}", x.show(), p, md.name())),
                    }
                }
                Err(pm) => rec.fail(format!("{}|{}|panic|{}", P, site, cls), case(), pm, format!("{} rounded to {} digits", x.show(), p)),
            }
        }
        if !x.is_zero() {
            rec.nontrivial();
        }
        rec.sample(|| case());
    });
    ctx.require_classes(&name, &["exact"]);
}

fn sweep_to_int_family(ctx: &mut Ctx) {
    let quick = ctx.quick();
    let u2 = f_universe(2, if quick { 4 } else { 6 }, if quick { 6 } else { 8 });
    for_all_modes!(to_int_sweep, 2, (ctx, &u2));
    let u10 = f_universe(10, 2, 4);
    for_all_modes!(to_int_sweep, 10, (ctx, &u10));
    if !quick {
        let u3 = f_universe(3, 3, 4);
        for_all_modes!(to_int_sweep, 3, (ctx, &u3));
        let u16 = f_universe(16, 2, 3);
        for_all_modes!(to_int_sweep, 16, (ctx, &u16));
    }
    let q = if quick { q_universe(12, 12, ctx.seed) } else { q_universe(40, 40, ctx.seed) };
    ctx.bound("rat.universe", q.len() as u64);
    sweep_rat_to_int(ctx, &q);
    let precs: Vec<usize> = if quick { vec![1, 2, 3, 5] } else { vec![1, 2, 3, 4, 5, 8, 20] };
    for_all_modes!(to_float_sweep, 10, (ctx, &q, &precs));
    for_all_modes!(to_float_sweep, 2, (ctx, &q, &precs));
    if !quick {
        for_all_modes!(to_float_sweep, 3, (ctx, &q, &precs));
        for_all_modes!(to_float_sweep, 16, (ctx, &q, &precs));
    }
}

// ---------------------------------------------------------------------------------------------

fn self_check(ctx: &mut Ctx) {
    let mut bad = vec![];
    // (1) dyadic reference vs hardware integer -> float casts (RNE)
    let mut atoms: Vec<u128> = vec![0, 1, 2, 3, (1 << 24) - 1, 1 << 24, (1 << 24) + 1, (1 << 25) + 1, (1 << 25) + 2, (1 << 25) + 3, (1u128 << 53) + 1, (1u128 << 54) + 2, (1u128 << 54) + 3, u64::MAX as u128, u128::MAX, u128::MAX - (1 << 103), u128::MAX - (1 << 104) + 1, (1u128 << 127) + (1u128 << 103), (1u128 << 127) + (1u128 << 103) + 1];
    let mut st = 0x9E3779B97F4A7C15u64;
    for _ in 0..500 {
        st = st.wrapping_mul(6364136223846793005).wrapping_add(1442695040888963407);
        let a = (st as u128) << 64 | (st.rotate_left(17) as u128);
        atoms.push(a >> (st % 128));
    }
    for &n in &atoms {
        if bits_of(&round_dyadic(n, 0, false, F32, Mode::HalfEven), F32) != (n as f32).to_bits() as u64 {
            bad.push(format!("u128 {} as f32", n));
        }
        if bits_of(&round_dyadic(n, 0, false, F64, Mode::HalfEven), F64) != (n as f64).to_bits() {
            bad.push(format!("u128 {} as f64", n));
        }
        // f64 -> f32 narrowing (covers the subnormal range of f32)
        let m = (n >> 75) as u64; // 53 bits
        for e in [-1100i64, -203, -202, -180, -176, -175, -174, -160, -150, -126, -60, 0, 74, 75, 76, 80] {
            if m == 0 || !(-1074..=970).contains(&e) {
                continue;
            }
            let d = (m as f64) * 2f64.powi(e as i32); // exact: m < 2^53 and the product stays normal or is exact
            if e >= -1000 && bits_of(&round_dyadic(m as u128, e, false, F32, Mode::HalfEven), F32) != (d as f32).to_bits() as u64 {
                bad.push(format!("f64 {}*2^{} as f32", m, e));
            }
        }
        // (2) rational front end == dyadic front end, all modes
        for md in MODES {
            for e in [-1130i64, -1080, -160, -149, -3, 0, 900, 1000] {
                for neg in [false, true] {
                    let x = rat_of_parts(neg, (n >> 64) as u64, e);
                    for fmt in [F32, F64] {
                        if round_rat(&x, fmt, md) != round_dyadic(n >> 64, e, neg, fmt, md) && (n >> 64) != 0 {
                            bad.push(format!("round_rat vs round_dyadic {}*2^{} {:?}", n >> 64, e, md));
                        }
                    }
                }
            }
        }
    }
    // (3) decimal values vs std's correctly rounded parser
    for s in (1..2000u32).step_by(7) {
        for e in [-330i32, -324, -323, -310, -60, -46, -45, -44, -38, -20, -5, -1, 0, 1, 10, 22, 23, 38, 39, 300, 308, 309] {
            let x = Rat::scaled(&BigInt::from(s), 10, e as i64);
            let txt = format!("{}e{}", s, e);
            if bits_of(&round_rat(&x, F64, Mode::HalfEven), F64) != txt.parse::<f64>().unwrap().to_bits() {
                bad.push(format!("{} as f64", txt));
            }
            if bits_of(&round_rat(&x, F32, Mode::HalfEven), F32) != txt.parse::<f32>().unwrap().to_bits() as u64 {
                bad.push(format!("{} as f32", txt));
            }
        }
    }
    // (4) hand-computed directed roundings and error signs
    let t = |n: u128, e: i64, neg: bool, md: Mode, bits: u32, err: Ordering| {
        let r = round_dyadic(n, e, neg, F32, md);
        bits_of(&r, F32) == bits as u64 && r.err == err
    };
    let checks: Vec<bool> = vec![
        t(3, -150, false, Mode::HalfEven, 2, Greater),
        t(5, -150, true, Mode::HalfEven, 0x8000_0002, Greater),
        t(1, -150, false, Mode::HalfEven, 0, Less),
        t(3, -151, false, Mode::HalfEven, 1, Greater),
        t(3, -151, false, Mode::Zero, 0, Less),
        t((1 << 25) + 1, 0, false, Mode::Up, 0x4c00_0001, Greater),
        t((1 << 25) + 1, 0, true, Mode::Up, 0xcc00_0000, Greater),
        t((1 << 25) + 1, 0, false, Mode::HalfAway, 0x4c00_0000, Less),
        t((1 << 24) + 1, 0, false, Mode::HalfAway, 0x4b80_0001, Greater),
        t((1 << 24) + 1, 0, false, Mode::HalfEven, 0x4b80_0000, Less),
        t(u128::MAX, 0, false, Mode::HalfEven, 0x7f80_0000, Greater),
        !round_dyadic(u128::MAX, 0, false, F32, Mode::Zero).inf,
        round_dyadic(1, 128, false, F32, Mode::Zero).alt_max && round_dyadic(1, 128, false, F32, Mode::Zero).inf && !round_dyadic(1, 128, false, F32, Mode::Away).alt_max,
        round_int(&Rat::new(BigInt::from(-5), BigInt::from(2)), Mode::HalfEven) == (BigInt::from(-2), Greater),
        round_int(&Rat::new(BigInt::from(-5), BigInt::from(2)), Mode::HalfAway) == (BigInt::from(-3), Less),
        round_int(&Rat::new(BigInt::from(7), BigInt::from(2)), Mode::HalfEven) == (BigInt::from(4), Greater),
        round_int(&Rat::new(BigInt::from(-1), BigInt::from(3)), Mode::Up) == (BigInt::from(0), Greater),
        round_int(&Rat::new(BigInt::from(-1), BigInt::from(3)), Mode::Away) == (BigInt::from(-1), Less),
        parts_of(1.0f32) == Some((false, 1 << 23, -23)),
        parts_of(f64::from_bits(1)) == Some((false, 1, -1074)),
        parts_of(f32::NAN).is_none(),
    ];
    let ok = checks.iter().all(|b| *b);
    if !ok { bad.push(format!("hand-computed case #{}", checks.iter().position(|b| !*b).unwrap())); }
    if !bad.is_empty() {
        ctx.machinery(format!("IEEE reference failed its self-check: {} disagreements, first: {}", bad.len(), bad[0]));
    }
}

pub fn run(ctx: &mut Ctx) {
    ctx.rule = "exhaustive walks of closed universes, no sampling: (a) every u8/i8/u16/i16 value and a boundary set (+-2^k, +-(2^k+-1), multi-word shapes) through every source primitive type, into UBig/IBig/FBig<2>/FBig<10>/RBig/Relaxed, and from each of those into all 12 primitive types; (b) f32 bit patterns (all exponents and signs x structured mantissas; thorough: all 2^32) and an f64 exponent x mantissa-atom grid through TryFrom into every big type and back, decode/encode; (c) integers m*2^k+t with near-tie mantissas through to_f32/to_f64; (d) rationals (M + delta/d)*2^j around ties, subnormals, overflow through RBig/Relaxed to_f32/to_f64(_fast); (e) FBig of bases 2, 10, 16, 3 through to_f32 (all six modes) / to_f64; (f) to_int family, RBig::to_float, FBig<->RBig<->integers on small closed float/fraction universes; (g) FloatEncoding::encode over structured mantissas x boundary exponents. non-trivial = source value not zero".into();
    ctx.assume("reference: IEEE-754 grid rounding implemented on integers/exact fractions (num_bigint), cross-checked at start-up against hardware int->float and f64->f32 casts and std's decimal parser");
    ctx.assume("a TryFrom that refuses a representable value is tolerated (counted as conservative-refusal) except where the round-trip clause of the property applies (integer -> big -> integer)");
    ctx.assume("Rounding::NoOp carries no documented direction; AddOne => result > exact, SubOne => result < exact are demanded");
    ctx.assume("overflow in a mode that rounds towards zero: both infinity and the largest finite value are admitted (undocumented)");
    let quick = ctx.quick();
    ctx.bound("f32.mantissa_structure", if quick { "[4 free bits][3 zero bits][8 bits all 0 or all 1][8 free bits], all 512 sign/exponent fields" } else { "all 2^32 bit patterns" });
    ctx.bound("int.to_float", "m*2^k + t, t in {0, 1, 2^k-1}; m: 26-bit (f32) / 55-bit (f64) [1][free top bits][middle 0/1/alternating][free low bits] plus every small m; k: 0..4, 37..41, 62..66, 99..105 (f32), 0..3, 9..12, 60..75, 500, 966..973 (f64); thorough adds every 26-bit m at k in {0, 39, 64, 102}");
    ctx.bound("rat.to_float", "(M + delta/d)*2^j, delta in {-1,0,1}, both signs; M: (mant+2)-bit structured; d in {3, 10, 1025, 2^61-1, 2^64+13, 2^89-1 (+7, 1023, 2^31-1, 3*2^20 thorough)}; j: f32 -181..-148, 99..105 and 12 interior values, f64 -1135..-1125, -1082..-1073, 966..972 and 17 interior values; subnormal sweep M in 1..2^9 (2^12 thorough), s in 0..12");
    ctx.bound("fbig.to_float", "base 2: 26-/55-bit near-tie significands x subnormal..overflow exponents, six modes; base 10: significands < 10^2 (six modes) and < 10^3 (HalfEven, Zero) x 10^-50..10^40 [thorough: < 10^4, six modes], 2-digit significands x 10^-330..10^310 (quick: every third exponent); base 16: 26-bit significands x 16^-46..16^33; base 3 (thorough): < 3^5 x 3^-100..3^85");
    ctx.bound("to_int", if quick { "F(2,4,6), F(10,2,4) x precision {digits, digits+3, unlimited} x six modes; Q(12,12) + 80 multi-word fractions; to_float precisions 1,2,3,5, bases 2 and 10" } else { "F(2,6,8), F(10,2,4), F(3,3,4), F(16,2,3) x precision {digits, digits+3, unlimited} x six modes; Q(40,40) + multi-word fractions; to_float precisions 1,2,3,4,5,8,20, bases 2, 10, 3, 16" });
    ctx.bound("encode", "f32: +-[10 free bits][11 bits all 0/1][10 free bits] (quick: 8 of the 10 top bits) x 63 exponents incl. i16 limits, thorough: all 2^32 mantissas x 12 exponents; f64: bit lengths 1..63 x [top field][middle 0/1/alternating][6 free low bits] x ~190 exponents");
    self_check(ctx);
    sweep_prims(ctx);
    sweep_floats(ctx);
    sweep_int_to_float(ctx);
    sweep_encode(ctx);
    sweep_rat_to_float(ctx);
    sweep_fbig_to_float(ctx);
    sweep_to_int_family(ctx);
}
