//! Tracking allocator (DESIGN §3.4): red zones with an in-band header, fill / poison patterns,
//! layout-exact free, per-thread live-byte accounting.  Faults never panic inside the allocator:
//! they are latched into a thread-local and the faulty block is leaked, the case runner reads the
//! latch after every case.

use std::alloc::{GlobalAlloc, Layout, System};
use std::cell::Cell;

pub const ZONE: usize = 32;
/// allocations with a larger alignment are passed through untracked (none occur in dashu)
const MAXALIGN: usize = 16;
const MAGIC: u64 = 0xD45B_A110_C8ED_600D;
const FREED: u64 = 0xDEAD_F4EE_DEAD_F4EE;
const CANARY: u8 = 0xA5;
pub const FILL: u8 = 0xCD;
pub const POISON: u8 = 0xDD;

pub const F_BAD_MAGIC: u32 = 1; // free/realloc of a pointer we never handed out, or double free
pub const F_DOUBLE_FREE: u32 = 2;
pub const F_LAYOUT: u32 = 4; // layout at free != layout at alloc (stale capacity)
pub const F_FRONT_CANARY: u32 = 8; // write before the block
pub const F_BACK_CANARY: u32 = 16; // write past the block
pub const F_WRITE_AFTER_FREE: u32 = 32; // freed (quarantined) block no longer all poison

const QLEN: usize = 256;
struct Quarantine {
    slot: [(usize, usize); QLEN], // (raw pointer, user size)
    next: usize,
}

thread_local! {
    static FAULT: Cell<u32> = const { Cell::new(0) };
    static LIVE: Cell<isize> = const { Cell::new(0) };
    static ALLOCS: Cell<u64> = const { Cell::new(0) };
    static QUAR: std::cell::UnsafeCell<Quarantine> =
        const { std::cell::UnsafeCell::new(Quarantine { slot: [(0, 0); QLEN], next: 0 }) };
}

pub struct Tracking;

#[inline]
fn latch(f: u32) {
    let _ = FAULT.try_with(|c| c.set(c.get() | f));
}
#[inline]
fn live_add(d: isize) {
    let _ = LIVE.try_with(|c| c.set(c.get() + d));
}

/// fault bits latched on this thread since the last call (and clears them)
pub fn take_faults() -> u32 {
    FAULT.with(|c| c.replace(0))
}
/// bytes currently allocated by this thread and not yet freed (by any thread... frees are
/// accounted on the freeing thread; cases allocate and free on one thread)
pub fn live_bytes() -> isize {
    LIVE.with(|c| c.get())
}
pub fn alloc_count() -> u64 {
    ALLOCS.with(|c| c.get())
}

pub fn fault_names(f: u32) -> String {
    let mut v = vec![];
    if f & F_BAD_MAGIC != 0 {
        v.push("free-of-unknown-pointer");
    }
    if f & F_DOUBLE_FREE != 0 {
        v.push("double-free");
    }
    if f & F_LAYOUT != 0 {
        v.push("layout-mismatch-at-free");
    }
    if f & F_FRONT_CANARY != 0 {
        v.push("write-before-block");
    }
    if f & F_BACK_CANARY != 0 {
        v.push("write-past-block");
    }
    if f & F_WRITE_AFTER_FREE != 0 {
        v.push("write-after-free");
    }
    v.join("+")
}

/// Header in front of a tracked allocation, if `p` (a pointer to the first user byte) is one.
/// Returns (size in bytes, align).
///
/// # Safety
/// `p - ZONE .. p` must be readable (true for any pointer returned by this allocator).
pub unsafe fn header_of(p: *const u8) -> Option<(usize, usize)> {
    let h = p.sub(ZONE) as *const u64;
    if h.read_unaligned() == MAGIC {
        Some((h.add(1).read_unaligned() as usize, h.add(2).read_unaligned() as usize))
    } else {
        None
    }
}

/// cap on the live bytes of one thread (workers of isolated sweeps are single-threaded, so this is
/// their process cap): a runaway computation gets a null pointer (allocation failure: the process
/// aborts, which an isolated sweep reports as a finding of that case) instead of pushing the
/// machine into the OOM killer.  Thread-local on purpose: a shared counter made every allocation of
/// the 16 explorer threads fight for one cache line (10x slowdown measured).
static CAP: std::sync::atomic::AtomicUsize = std::sync::atomic::AtomicUsize::new(8 << 30);

pub fn set_cap(bytes: usize) {
    CAP.store(bytes, std::sync::atomic::Ordering::Relaxed);
}

unsafe impl GlobalAlloc for Tracking {
    unsafe fn alloc(&self, layout: Layout) -> *mut u8 {
        if layout.align() > MAXALIGN {
            return System.alloc(layout);
        }
        {
            let cap = CAP.load(std::sync::atomic::Ordering::Relaxed);
            let live = LIVE.try_with(|c| c.get()).unwrap_or(0).max(0) as usize;
            if layout.size() > cap || live + layout.size() > cap {
                return std::ptr::null_mut();
            }
        }
        let total = match layout.size().checked_add(2 * ZONE) {
            Some(t) => t,
            None => return std::ptr::null_mut(),
        };
        let raw = System.alloc(Layout::from_size_align_unchecked(total, MAXALIGN));
        if raw.is_null() {
            return raw;
        }
        let h = raw as *mut u64;
        h.write(MAGIC);
        h.add(1).write(layout.size() as u64);
        h.add(2).write(layout.align() as u64);
        std::ptr::write_bytes(raw.add(24), CANARY, 8);
        let user = raw.add(ZONE);
        std::ptr::write_bytes(user, FILL, layout.size());
        std::ptr::write_bytes(user.add(layout.size()), CANARY, ZONE);
        live_add(layout.size() as isize);
        let _ = ALLOCS.try_with(|c| c.set(c.get() + 1));
        user
    }

    unsafe fn alloc_zeroed(&self, layout: Layout) -> *mut u8 {
        let p = self.alloc(layout);
        if !p.is_null() {
            std::ptr::write_bytes(p, 0, layout.size());
        }
        p
    }

    unsafe fn dealloc(&self, ptr: *mut u8, layout: Layout) {
        if layout.align() > MAXALIGN {
            return System.dealloc(ptr, layout);
        }
        let raw = ptr.sub(ZONE);
        let h = raw as *mut u64;
        let magic = h.read();
        if magic != MAGIC {
            latch(if magic == FREED { F_DOUBLE_FREE } else { F_BAD_MAGIC });
            return; // leak: never hand a suspicious pointer to the system allocator
        }
        let size = h.add(1).read() as usize;
        let align = h.add(2).read() as usize;
        let mut bad = 0;
        if size != layout.size() || align != layout.align() {
            bad |= F_LAYOUT;
        }
        for i in 24..ZONE {
            if *raw.add(i) != CANARY {
                bad |= F_FRONT_CANARY;
            }
        }
        for i in 0..ZONE {
            if *ptr.add(size + i) != CANARY {
                bad |= F_BACK_CANARY;
            }
        }
        if bad != 0 {
            latch(bad);
        }
        live_add(-(size as isize));
        h.write(FREED);
        std::ptr::write_bytes(ptr, POISON, size);
        // quarantine: the block stays unreleased (header = FREED, body = poison) until QLEN later
        // frees on this thread, so a double free / stale read / stale write of it is observable
        let evicted = QUAR
            .try_with(|q| {
                let q = &mut *q.get();
                let old = q.slot[q.next];
                q.slot[q.next] = (raw as usize, size);
                q.next = (q.next + 1) % QLEN;
                old
            })
            .unwrap_or((raw as usize, size));
        if evicted.0 != 0 {
            let (eraw, esize) = (evicted.0 as *mut u8, evicted.1);
            if eraw != raw {
                let user = eraw.add(ZONE);
                let mut dirty = false;
                for i in 0..esize {
                    if *user.add(i) != POISON {
                        dirty = true;
                        break;
                    }
                }
                if dirty || (eraw as *const u64).read() != FREED {
                    latch(F_WRITE_AFTER_FREE);
                }
            }
            System.dealloc(eraw, Layout::from_size_align_unchecked(esize + 2 * ZONE, MAXALIGN));
        }
    }

    unsafe fn realloc(&self, ptr: *mut u8, layout: Layout, new_size: usize) -> *mut u8 {
        if layout.align() > MAXALIGN {
            return System.realloc(ptr, layout, new_size);
        }
        // alloc + copy + dealloc, so the grown area carries the fill pattern and the old block
        // goes through the full set of checks
        let new = self.alloc(Layout::from_size_align_unchecked(new_size, layout.align()));
        if new.is_null() {
            return new;
        }
        std::ptr::copy_nonoverlapping(ptr, new, layout.size().min(new_size));
        self.dealloc(ptr, layout);
        new
    }
}
