//! C17 — memory safety and storage invariants of the hand-managed integer: BFS over all
//! operation histories of a pool of live values (capacity in the state key), tracking-allocator
//! monitors on every transition, storage invariants and reference value in every state.

use crate::core::Ctx;
use crate::explore::{explore, Cfg};

pub fn run(ctx: &mut Ctx) {
    ctx.rule = "breadth-first exploration of all operation histories (alphabet: clone_from, clone-assign, mem::take, x op= &y / y.clone() / &x.clone(), x = &x op &y for + - * / % & | ^, shifts, neg, pow, byte/word/parts round trips, set/clear bit, split_bits, clear_high_bits, ones, re-initialisation, reading a static value, IBig<->UBig moves) over a pool of 2 IBig + 1 UBig from 3 start pools, up to the stated depth and word bound; a state = (sign, words, exact capacity) of every slot; every state is checked for: value == num_bigint mirror, <=2 words inline, heap values >= 3 words without leading zero word, len <= capacity <= compact bound, zero never negative, capacity field == real allocation size (allocator header), and every transition runs under the tracking allocator (red zones, layout-exact free, double free, write-after-free quarantine) with a leak check after the pool is dropped. non-trivial = transition executed and all invariants evaluated".into();
    ctx.assume("out-of-bounds *reads* are only caught when the value read influences a result (fresh memory is filled with 0xCD, freed memory with 0xDD)");
    ctx.assume("the storage probe is the cfg(dashu_verif) hook verif_repr_probe; its capacity is cross-checked against the allocator's own header");
    let cfg = Cfg {
        prop: "C17",
        with_capacity: true,
        with_order: false,
        max_words: 12,
        depth: ctx.pick(3, 4),
        full_alphabet: !ctx.quick(),
        max_states_per_level: ctx.pick(60_000, 400_000),
    };
    explore(ctx, &cfg);
    if matches!(ctx.mode, crate::core::Mode::Run) {
        miri_cover(ctx);
    }
    ctx.require_classes("bfs.depth1", &["transition:inline->heap", "transition:heap->inline", "transition:heap-reallocated", "new-state", "pruned:precondition(div by 0 / unsigned underflow)"]);
}

/// Language-level monitor on enumerated executions: the transition cover written by the explorer
/// (one shortest path per (operation, storage transition) class) is replayed by `dvm` under Miri
/// (undefined behaviour, out-of-bounds reads, invalid values, leaks).  Quick: the first 250 paths.
fn miri_cover(ctx: &mut Ctx) {
    let root = crate::core::verif_root();
    let cover = format!("{}/replays/C17-transition-cover.txt", root);
    let harness = std::env::current_exe().ok().and_then(|e| e.parent().and_then(|p| p.parent()).and_then(|p| p.parent()).map(|p| p.to_path_buf()));
    let harness = match harness {
        Some(h) if h.join("dvm").exists() => h,
        _ => {
            ctx.machinery("cannot locate the harness workspace for the Miri replayer");
            return;
        }
    };
    let max = ctx.pick(250usize, usize::MAX);
    ctx.case_horizon = std::time::Duration::from_secs(ctx.pick(900, 7200));
    ctx.assume("Miri (nightly) interprets the replayed paths with leak checking on; integer-to-pointer casts in dashu make its provenance checks permissive");
    let mach: std::sync::Mutex<Option<String>> = std::sync::Mutex::new(None);
    let machr = &mach;
    ctx.sweep("miri.transition-cover", 1, |_, rec| {
        let out = std::process::Command::new("cargo")
            .args(["+nightly", "miri", "run", "--offline", "-q", "-p", "dvm", "--"])
            .arg(&cover)
            .arg(if max == usize::MAX { "1000000".to_string() } else { max.to_string() })
            .current_dir(&harness)
            .env("MIRIFLAGS", "-Zmiri-disable-isolation")
            .env("CARGO_TARGET_DIR", harness.join("target-miri"))
            .env("CARGO_NET_OFFLINE", "true")
            .env_remove("RUSTFLAGS")
            .output();
        let out = match out {
            Ok(o) => o,
            Err(e) => {
                *machr.lock().unwrap() = Some(format!("cannot start cargo miri: {}", e));
                return;
            }
        };
        let (so, se) = (String::from_utf8_lossy(&out.stdout).to_string(), String::from_utf8_lossy(&out.stderr).to_string());
        let replayed = so.lines().filter(|l| l.starts_with("dvm: at ")).count() as u64;
        rec.steps(replayed);
        for _ in 0..replayed {
            rec.nontrivial();
        }
        if out.status.success() && so.contains("dvm: replayed") {
            rec.hit("miri-clean");
            rec.sample(|| format!("{} paths of the transition cover interpreted by Miri without a report", replayed));
            return;
        }
        let err = se.lines().find(|l| l.starts_with("error")).unwrap_or("").to_string();
        if err.is_empty() || err.contains("could not compile") || se.contains("is not installed") {
            *machr.lock().unwrap() = Some(format!("Miri run failed without a verdict: {}", crate::core::trunc(&se, 600)));
            return;
        }
        let last = so.lines().filter(|l| l.starts_with("dvm: at ")).last().unwrap_or("dvm: at ?").trim_start_matches("dvm: at ").to_string();
        let kind: String = err.chars().filter(|c| !c.is_ascii_digit()).take(70).collect();
        rec.replay_as("path", last.clone());
        rec.fail(format!("C17|miri|{}", kind.replace('|', "/")), format!("transition-cover path {} (indices into the {} alphabet)", last, if max == usize::MAX { "full" } else { "quick" }), crate::core::trunc(&se[se.find("error").unwrap_or(0)..], 1200), "no undefined behaviour, invalid value, out-of-bounds access or leak");
    });
    if let Some(m) = mach.into_inner().unwrap() {
        ctx.machinery(m);
    } else {
        ctx.require_classes("miri.transition-cover", &["miri-clean"]);
    }
}
