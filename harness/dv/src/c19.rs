//! C19 — results do not depend on word size, std feature, debug assertions or serialization medium.
//! The deterministic case files of dvx/src/cases.rs are evaluated by the `dvx` binary built in four
//! configurations (mon = 64-bit words + std + debug assertions, rel = no debug assertions,
//! w32 = force_bits="32", nostd = default-features off) and by this process; every result line
//! must be identical everywhere (bound-only results — log2 — are checked against the true value
//! inside each configuration instead).  Serialization: byte-identical encodings across
//! configurations (part of the case lines), round trips, and decoding of malformed input:
//! ALL postcard byte strings up to a length bound and a family of JSON documents must yield Err or
//! a value in canonical form.

#[path = "../../dvx/src/cases.rs"]
mod cases;

use crate::core::{guard, Ctx, Rec};
use crate::uni::*;
use dashu_float::round::mode;
use dashu_float::FBig;
use dashu_int::{IBig, UBig};
use dashu_ratio::{RBig, Relaxed};
use num_bigint::BigInt;
use num_integer::Integer;
use num_traits::{One, Zero};
use std::path::PathBuf;
use std::process::Command;

const P: &str = "C19";

fn run_dvx(exe: &PathBuf, sweep: &str, tier: &str, lo: u64, hi: u64) -> Result<Vec<String>, String> {
    let out = Command::new(exe).arg(sweep).arg(tier).arg(lo.to_string()).arg(hi.to_string()).output().map_err(|e| format!("cannot run {}: {}", exe.display(), e))?;
    if !out.status.success() {
        return Err(format!("{} exited with {:?}", exe.display(), out.status));
    }
    Ok(String::from_utf8_lossy(&out.stdout).lines().map(|l| l.split_once('\t').map(|x| x.1.to_string()).unwrap_or_default()).collect())
}

/// first differing result token: its leading non-digit part names the operation
fn diff_class(a: &str, b: &str) -> String {
    let (ta, tb): (Vec<&str>, Vec<&str>) = (a.split(' ').collect(), b.split(' ').collect());
    for (x, y) in ta.iter().zip(tb.iter()) {
        if x != y {
            let name: String = x.chars().take_while(|c| !c.is_ascii_digit() && *c != ':' && *c != '[' && *c != '(' && *c != '#').collect();
            return if name.is_empty() { "operand".into() } else { name };
        }
    }
    "length".into()
}

pub fn run(ctx: &mut Ctx) {
    ctx.rule = "every case of the deterministic case files (integer pairs/unary/text over length classes x patterns crossing the thresholds of both word sizes, float and rational operations, serde_json/postcard encodings and round trips, log2 bounds) is evaluated in the configurations {64-bit+std+debug assertions, 64-bit release, 32-bit words, no_std} and in this process; result lines must be identical (log2: bounds must hold in each configuration); malformed-input decoding: all postcard byte strings of length <= 2 (3 thorough) and structured ones, plus JSON documents, for UBig/IBig/RBig/Relaxed/FBig/Repr must give Err or a canonical value. non-trivial = a case line compared across all configurations".into();
    ctx.assume("the four dvx binaries are built by ./check from the current tree (target/release, target/rel, target-w32, target-nostd); force_bits=\"16\" does not compile on this host and is outside the property's configuration set");
    let tier = if ctx.quick() { "quick" } else { "thorough" };
    let thorough = !ctx.quick();
    let exe = std::env::current_exe().unwrap();
    let tdir = exe.parent().unwrap().parent().unwrap().to_path_buf(); // .../target
    let hdir = tdir.parent().unwrap().to_path_buf();
    let configs: Vec<(&str, PathBuf)> = vec![
        ("mon", tdir.join("release").join("dvx")),
        ("rel", tdir.join("rel").join("dvx")),
        ("w32", hdir.join("target-w32").join("release").join("dvx")),
        ("nostd", hdir.join("target-nostd").join("release").join("dvx")),
    ];
    for (name, p) in &configs {
        if !p.exists() {
            ctx.machinery(format!("configuration binary for `{}` not found at {} (./check builds it for C19)", name, p.display()));
            return;
        }
    }
    // identify the configurations
    let mut ids = vec![];
    for (name, p) in &configs {
        let o = Command::new(p).arg("config").output().map(|o| String::from_utf8_lossy(&o.stdout).trim().to_string()).unwrap_or_default();
        ids.push(format!("{}: {}", name, o));
    }
    let expect = ["word_bits=64 debug_assertions=true std=true", "word_bits=64 debug_assertions=false std=true", "word_bits=32 debug_assertions=true std=true", "word_bits=64 debug_assertions=true std=false"];
    for (k, id) in ids.iter().enumerate() {
        if !id.ends_with(expect[k]) {
            ctx.machinery(format!("configuration binary reports `{}`, expected `{}`", id, expect[k]));
            return;
        }
    }
    ctx.bound("configurations", serde_json::json!(ids));

    
    for sweep in cases::SWEEPS {
        let n = cases::count(sweep, thorough);
        #[allow(non_snake_case)]
        let SHARD: u64 = if n > 100_000 { 8000 } else { 400 };
        let shards = (n + SHARD - 1) / SHARD;
        let cfgs = &configs;
        ctx.sweep(&format!("configs.{}", sweep), shards, |si, rec| {
            let (lo, hi) = (si * SHARD, ((si + 1) * SHARD).min(n));
            let own: Vec<String> = (lo..hi).map(|i| cases::eval(sweep, thorough, i)).collect();
            for (cname, exe) in cfgs.iter() {
                let lines = match run_dvx(exe, sweep, tier, lo, hi) {
                    Ok(l) => l,
                    Err(e) => {
                        rec.fail(format!("{}|{}|configuration-run-failed|{}", P, sweep, cname), format!("cases {}..{}", lo, hi), e, "one result line per case");
                        continue;
                    }
                };
                if lines.len() != own.len() {
                    rec.fail(format!("{}|{}|configuration-run-failed|{}", P, sweep, cname), format!("cases {}..{}", lo, hi), format!("{} lines", lines.len()), format!("{} lines", own.len()));
                    continue;
                }
                for (k, (a, b)) in own.iter().zip(lines.iter()).enumerate() {
                    rec.step();
                    if b.contains(":BAD[") && *sweep != "log2" {
                        rec.fail(format!("{}|log2|bounds-do-not-enclose|{}", P, cname), format!("case {} in configuration {}", lo + k as u64, cname), b.clone(), "lb <= log2(x) <= ub");
                    }
                    if *sweep == "log2" {
                        if b.contains("BAD") {
                            rec.fail(format!("{}|log2|bounds-do-not-enclose|{}", P, cname), format!("case {} in configuration {}", lo + k as u64, cname), b.clone(), "lb <= log2(x) <= ub");
                        } else {
                            rec.hit("log2-bounds-hold");
                        }
                        continue;
                    }
                    if *sweep == "text.struct" && (b.contains("pc:Err") || b.contains("js:Err") || b.contains(":Ok(false)") || b.contains("u:Err") || b.contains("pfx:Err")) {
                        // (round trips of well-formed values must succeed in every configuration, not just agree)
                        rec.fail(format!("{}|text.struct|round-trip-or-parse-failed|{}", P, cname), format!("case {} in configuration {}", lo + k as u64, cname), b.clone(), "the well-formed digit string parses and the float survives postcard / JSON");
                    }
                    if a != b {
                        rec.fail(format!("{}|{}|differs-between-configurations|{},{}", P, sweep, cname, diff_class(a, b)), format!("case {}: {}", lo + k as u64, a.split(" => ").next().unwrap_or("")), format!("[{}] {}", cname, b), format!("[this process, mon] {}", a));
                    } else if a.contains("PANIC") {
                        rec.hit("same-panic-everywhere");
                    } else {
                        rec.hit("identical");
                    }
                }
            }
            for _ in lo..hi {
                rec.nontrivial();
            }
            rec.sample(|| format!("{} #{}: {}", sweep, lo, crate::core::trunc(&own[0], 300)));
        });
        if *sweep == "log2" {
            ctx.require_classes(&format!("configs.{}", sweep), &["log2-bounds-hold"]);
        } else {
            ctx.require_classes(&format!("configs.{}", sweep), &["identical"]);
        }
        if let Some(s) = ctx.sweeps.last_mut() {
            s.states = n;
            s.extra.insert("cases".into(), serde_json::json!(n));
        }
    }

    // ---------------------------------------------------------------------------------------
    // malformed input: binary (postcard) — every byte string up to the bound, plus structured ones
    let maxlen = ctx.pick(2usize, 3usize);
    let mut total: u64 = 0;
    for l in 0..=maxlen {
        total += 256u64.pow(l as u32);
    }
    let structured: Vec<Vec<u8>> = {
        let mut v: Vec<Vec<u8>> = vec![];
        for len in [1u8, 2, 3, 8, 9, 16, 17, 24, 25] {
            for fill in [0u8, 1, 0x7f, 0x80, 0xff] {
                for top in [0u8, 1, 0x80, 0xff] {
                    // a length-prefixed byte string (how big integers are encoded), then a second one
                    let mut b = vec![len];
                    b.extend(std::iter::repeat(fill).take(len as usize - 1));
                    b.push(top);
                    v.push(b.clone());
                    let mut c = b.clone();
                    c.extend_from_slice(&[1, 0]); // e.g. denominator / exponent zero
                    v.push(c);
                    let mut d = b.clone();
                    d.extend_from_slice(&[2, 0, 0]);
                    v.push(d);
                    let mut e = b;
                    e.extend_from_slice(&[1, 6]);
                    v.push(e);
                }
            }
        }
        v
    };
    let ns = structured.len() as u64;
    let sr = &structured;
    ctx.sweep("decode.postcard", total + ns, |i, rec| {
        let bytes: Vec<u8> = if i < total {
            let mut k = i;
            let mut len = 0usize;
            while k >= 256u64.pow(len as u32) {
                k -= 256u64.pow(len as u32);
                len += 1;
            }
            (0..len).map(|j| ((k >> (8 * j)) & 0xff) as u8).collect()
        } else {
            sr[(i - total) as usize].clone()
        };
        decode_check(rec, &bytes);
        if bytes.len() >= 2 {
            rec.nontrivial();
        }
        rec.sample(|| format!("postcard bytes {:02x?}", bytes));
    });
    ctx.require_classes("decode.postcard", &["UBig:ok", "UBig:err", "RBig:ok", "RBig:err", "FBig:ok"]);

    // JSON documents
    let mut docs: Vec<String> = vec![];
    let toks = ["0", "1", "-1", "\"0\"", "\"1\"", "\"-1\"", "\"+1\"", "\"1/2\"", "\"2/4\"", "\"1/0\"", "\"0/5\"", "\"-3/-6\"", "\"1.50\"", "\"1e2\"", "\"0x10\"", "\"1_0\"", "\"\"", "\"_\"", "\" 1\"", "\"é\"", "null", "true", "[1,2]", "[]", "{}", "1.5", "1e400", "\"100000000000000000000000000000000000000\"", "{\"numerator\":\"1\",\"denominator\":\"0\"}", "{\"numerator\":\"2\",\"denominator\":\"4\"}", "{\"numerator\":\"1\"}", "{\"numerator\":\"1\",\"denominator\":\"2\",\"denominator\":\"3\"}", "{\"numerator\":\"1\",\"denominator\":\"2\",\"extra\":1}", "{\"significand\":\"10\",\"exponent\":0,\"precision\":1}", "{\"significand\":\"10\",\"exponent\":0}", "{\"significand\":\"123\",\"exponent\":-1,\"precision\":2}", "{\"significand\":\"1\",\"exponent\":\"x\",\"precision\":1}"];
    for t in toks {
        docs.push(t.to_string());
    }
    let nd = docs.len() as u64;
    let dr = &docs;
    ctx.sweep("decode.json", nd, |i, rec| {
        let d = &dr[i as usize];
        json_check(rec, d);
        rec.nontrivial();
        rec.sample(|| format!("json {}", d));
    });
    let _ = (BigInt::zero(), Relaxed::ZERO);
}

fn canonical_u(rec: &mut Rec, site: &str, case: &str, x: &UBig) {
    let (cap, len, inline) = x.verif_repr_probe();
    let w = x.as_words();
    if (len <= 2 && !inline) || (len > 0 && w[len - 1] == 0) || cap < 0 {
        rec.fail(format!("{}|{}|non-canonical-value-decoded|integer", P, site), case.to_string(), format!("len {} inline {} capacity {}", len, inline, cap), "canonical integer storage");
    }
}

fn decode_check(rec: &mut Rec, bytes: &[u8]) {
    let case = format!("postcard {:02x?}", bytes);
    rec.steps(6);
    match guard(|| postcard::from_bytes::<UBig>(bytes)) {
        Ok(Ok(v)) => {
            rec.hit("UBig:ok");
            canonical_u(rec, "postcard::from_bytes::<UBig>", &case, &v);
        }
        Ok(Err(_)) => rec.hit("UBig:err"),
        Err(p) => rec.fail(format!("{}|postcard::from_bytes::<UBig>|panic|decode", P), case.clone(), p, "Ok or Err"),
    }
    match guard(|| postcard::from_bytes::<IBig>(bytes)) {
        Ok(Ok(v)) => {
            let (s, m) = v.into_parts();
            canonical_u(rec, "postcard::from_bytes::<IBig>", &case, &m);
            if m.is_zero() && s == dashu_base::Sign::Negative {
                rec.fail(format!("{}|postcard::from_bytes::<IBig>|non-canonical-value-decoded|negative-zero", P), case.clone(), "-0", "0");
            }
        }
        Ok(Err(_)) => {}
        Err(p) => rec.fail(format!("{}|postcard::from_bytes::<IBig>|panic|decode", P), case.clone(), p, "Ok or Err"),
    }
    for relaxed in [false, true] {
        let r = if relaxed { guard(|| postcard::from_bytes::<Relaxed>(bytes).map(|r| r.into_parts())) } else { guard(|| postcard::from_bytes::<RBig>(bytes).map(|r| r.into_parts())) };
        let site = if relaxed { "postcard::from_bytes::<Relaxed>" } else { "postcard::from_bytes::<RBig>" };
        match r {
            Ok(Ok((n, d))) => {
                if !relaxed {
                    rec.hit("RBig:ok");
                }
                let (rn, rd) = (i_to_ref(&n), BigInt::from(u_to_ref(&d)));
                let bad = rd.is_zero() || (!relaxed && !(rn.gcd(&rd).is_one())) || (rn.is_zero() && !rd.is_one() && !relaxed);
                if bad {
                    rec.fail(format!("{}|{}|non-canonical-value-decoded|{}", P, site, if rd.is_zero() { "zero-denominator" } else { "not-reduced" }), case.clone(), format!("{}/{}", rn, rd), "Err, or a fraction with a positive denominator coprime to the numerator");
                }
            }
            Ok(Err(_)) => {
                if !relaxed {
                    rec.hit("RBig:err");
                }
            }
            Err(p) => rec.fail(format!("{}|{}|panic|decode", P, site), case.clone(), p, "Ok or Err"),
        }
    }
    match guard(|| postcard::from_bytes::<FBig<mode::HalfEven, 10>>(bytes)) {
        Ok(Ok(v)) => {
            rec.hit("FBig:ok");
            let r = v.repr();
            if !r.is_infinite() {
                let s = i_to_ref(r.significand());
                let bad = (s.is_zero() && r.exponent() != 0) || (!s.is_zero() && s.is_multiple_of(&BigInt::from(10))) || (v.precision() != 0 && crate::fref::digits_b(&s, 10) > v.precision());
                if bad {
                    rec.fail(format!("{}|postcard::from_bytes::<FBig>|non-canonical-value-decoded|float", P), case.clone(), format!("{} * 10^{} precision {}", s, r.exponent(), v.precision()), "Err, or a normalized significand with at most `precision` digits");
                }
            }
        }
        Ok(Err(_)) => {}
        Err(p) => rec.fail(format!("{}|postcard::from_bytes::<FBig>|panic|decode", P), case.clone(), p, "Ok or Err"),
    }
}

fn json_check(rec: &mut Rec, doc: &str) {
    let case = format!("json {}", doc);
    rec.steps(5);
    match guard(|| serde_json::from_str::<UBig>(doc)) {
        Ok(Ok(v)) => canonical_u(rec, "serde_json::from_str::<UBig>", &case, &v),
        Ok(Err(_)) => rec.hit("json:err"),
        Err(p) => rec.fail(format!("{}|serde_json::from_str::<UBig>|panic|decode", P), case.clone(), p, "Ok or Err"),
    }
    if let Err(p) = guard(|| serde_json::from_str::<IBig>(doc).is_ok()) {
        rec.fail(format!("{}|serde_json::from_str::<IBig>|panic|decode", P), case.clone(), p, "Ok or Err");
    }
    for relaxed in [false, true] {
        let r = if relaxed { guard(|| serde_json::from_str::<Relaxed>(doc).map(|r| r.into_parts())) } else { guard(|| serde_json::from_str::<RBig>(doc).map(|r| r.into_parts())) };
        let site = if relaxed { "serde_json::from_str::<Relaxed>" } else { "serde_json::from_str::<RBig>" };
        match r {
            Ok(Ok((n, d))) => {
                let (rn, rd) = (i_to_ref(&n), BigInt::from(u_to_ref(&d)));
                if rd.is_zero() || (!relaxed && !rn.gcd(&rd).is_one()) {
                    rec.fail(format!("{}|{}|non-canonical-value-decoded|{}", P, site, if rd.is_zero() { "zero-denominator" } else { "not-reduced" }), case.clone(), format!("{}/{}", rn, rd), "Err or a canonical fraction");
                } else {
                    rec.hit("json:ok");
                }
            }
            Ok(Err(_)) => rec.hit("json:err"),
            Err(p) => rec.fail(format!("{}|{}|panic|decode", P, site), case.clone(), p, "Ok or Err"),
        }
    }
    match guard(|| serde_json::from_str::<FBig<mode::HalfEven, 10>>(doc)) {
        Ok(Ok(v)) => {
            let r = v.repr();
            let s = i_to_ref(r.significand());
            if !r.is_infinite() && ((!s.is_zero() && s.is_multiple_of(&BigInt::from(10))) || (v.precision() != 0 && crate::fref::digits_b(&s, 10) > v.precision())) {
                rec.fail(format!("{}|serde_json::from_str::<FBig>|non-canonical-value-decoded|float", P), case.clone(), format!("{} * 10^{} precision {}", s, r.exponent(), v.precision()), "Err or a normalized value within its precision");
            }
        }
        Ok(Err(_)) => {}
        Err(p) => rec.fail(format!("{}|serde_json::from_str::<FBig>|panic|decode", P), case, p, "Ok or Err"),
    }
}
