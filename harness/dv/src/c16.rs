//! C16 — every public operation on valid values returns in bounded time and panics only under a
//! documented precondition (and then does panic, promptly); parsers never panic.
//!
//! Three families of isolated sweeps (each case runs in a watchdog-supervised child process, so a
//! hang, abort, stack overflow or allocation failure is an observation), each run twice: in the
//! monitored build (`mon`: debug assertions + overflow checks on) and in a release build (`rel`).
//!  A. the generated table of all operator / ops-trait impls (shared with C15) on every tuple of
//!     EDGE operands (0, +-1, word/double-word boundaries, 3-word, +-inf, precision 0/1/2/53 ...)
//!  B. a registry of the non-operator public API (methods of UBig/IBig/FBig/RBig/ConstDivisor ...)
//!     on every tuple of edge arguments, each entry with its documented-panic predicate
//!  C. the parsers of every number type on all strings of length <= 3 over a 16-symbol alphabet
//!     plus a list of nasty strings

use crate::c15::{self, Form, Kind, Val};
use crate::core::{guard, Ctx, Rec};

fn is_internal_panic(m: &str) -> bool {
    crate::core::is_internal_panic(m) && !m.contains("assertion failed: chunk_bits > 0") && !m.contains("assertion failed: precision > 0")
}
use crate::fref::*;
use crate::h::unflatten;
use crate::uni::*;
use dashu_base::{Approximation, CubicRoot, CubicRootRem, DivRem, ExtendedGcd, Gcd, Inverse, SquareRoot, SquareRootRem, UnsignedAbs};
use dashu_float::round::mode;
use dashu_float::{Context, DBig, FBig};
use dashu_int::fast_div::ConstDivisor;
use dashu_int::{IBig, UBig};
use dashu_ratio::{RBig, Relaxed};
use num_bigint::{BigInt, Sign as NSign};
use num_traits::{One, Signed, Zero};
use std::str::FromStr;

const P: &str = "C16";

/// the library's documented panic messages and what each one claims
fn claimed_precondition(msg: &str) -> &'static str {
    let m = msg;
    if m.contains("assertion failed: chunk_bits > 0") {
        return "chunk_bits = 0"; // "Panics if chunk_bits is zero" is implemented with assert!
    }
    if m.contains("assertion failed: precision > 0") {
        return "unlimited-precision"; // RBig::to_float deliberately refuses precision 0 with assert!
    }
    if m.contains("divisor must not be 0") || m.contains("Divisor or denominator must not be zero") || m.contains("divide by zero") || m.contains("division by zero") {
        "zero-divisor"
    } else if m.contains("UBig result must not be negative") {
        "negative-ubig"
    } else if m.contains("the greatest common divisor is not defined between zeros") {
        "gcd-of-zeros"
    } else if m.contains("arithmetic operations with the infinity") {
        "infinite-operand"
    } else if m.contains("precision cannot be 0") {
        "unlimited-precision"
    } else if m.contains("logarithm is not defined for 0") || m.contains("logarithm is only defined for positive") {
        "log-domain"
    } else if m.contains("0th root") {
        "zeroth-root"
    } else if m.contains("the root is a complex number") || m.contains("powering on negative bases") {
        "complex-result"
    } else if m.contains("invalid radix") {
        "invalid-radix"
    } else if m.contains("different rings") {
        "different-rings"
    } else if m.contains("non-invertible") {
        "non-invertible"
    } else if m.contains("too much memory") || m.contains("out of memory") || m.contains("exponent is too large") || m.contains("too large") {
        "size-limit"
    } else if m.contains("nan doesn't have a sign") || m.contains("calling log2 on nans") {
        "nan"
    } else if m.contains("called `Approximation::unwrap()` on a `Inexact` value") {
        "inexact-unwrap"
    } else {
        "unknown-message"
    }
}

// ---------------------------------------------------------------------------------------------
// A. forms on edge operands

fn edge_vals(kind: Kind) -> Vec<Val> {
    let one = BigInt::one();
    let mut ints: Vec<BigInt> = vec![BigInt::zero(), one.clone(), -one.clone(), BigInt::from(2), BigInt::from(-2), BigInt::from(u64::MAX), &one << 64u32, -(&one << 64u32), &one << 128u32, -(&one << 128u32), BigInt::from(shape(3, "lcgA", 0)), BigInt::from(63), BigInt::from(64), BigInt::from(65), BigInt::from(200), BigInt::from(i64::MIN), BigInt::from(255)];
    ints.dedup();
    let mut v: Vec<Val> = ints.iter().map(|i| Val::Q(Rat::int(i.clone()))).collect();
    match kind {
        Kind::Int => {}
        Kind::Ratio => {
            for (n, d) in [(1i64, 2i64), (-1, 2), (3, 2), (-7, 3)] {
                v.push(Val::Q(Rat::new(BigInt::from(n), BigInt::from(d))));
            }
            v.push(Val::Q(Rat::new((&one << 64u32) + 1, BigInt::from(7))));
        }
        Kind::Float => {
            for p in [0usize, 1, 2, 53] {
                for (s, e) in [(0i64, 0i64), (1, 0), (-1, 0), (5, -1), (-5, -1), (1, -30), (1, 30), (-3, 30), (7, 2)] {
                    v.push(Val::F(BigInt::from(s), e, p));
                }
            }
            v.push(Val::F(BigInt::from(12345), -2, 5));
            v.push(Val::F(BigInt::from(12345), -2, 0));
            v.push(Val::Inf(true));
            v.push(Val::Inf(false));
        }
    }
    v
}

fn val_rat(v: &Val) -> Option<Rat> {
    match v {
        Val::Q(r) => Some(r.clone()),
        Val::F(s, e, _) => Some(Rat::scaled(s, 10, *e)), // only sign / zero-ness is used
        Val::Inf(_) => None,
    }
}

/// is a panic REQUIRED for this family on these operands (clearly documented preconditions only)?
fn required_panic(f: &Form, a: &Val, b: &Val) -> Option<&'static str> {
    let fam = f.fam;
    let (ra, rb) = (val_rat(a), val_rat(b));
    let b_zero = rb.as_ref().map_or(false, |r| r.is_zero());
    let a_zero = ra.as_ref().map_or(false, |r| r.is_zero());
    let any_inf = matches!(a, Val::Inf(_)) || (f.arity == 2 && matches!(b, Val::Inf(_)));
    if any_inf {
        return if matches!(fam, "add" | "sub" | "mul" | "div" | "rem") { Some("infinite-operand") } else { None };
    }
    match fam {
        "div" | "rem" | "divrem" | "diveuclid" | "remeuclid" | "divremeuclid" if b_zero => Some("zero-divisor"),
        "inv" if a_zero => Some("zero-divisor"),
        "gcd" | "gcdext" if a_zero && b_zero => Some("gcd-of-zeros"),
        "sub" if f.out == "UBig" => {
            if ra.unwrap() < rb.unwrap() {
                Some("negative-ubig")
            } else {
                None
            }
        }
        _ => None,
    }
}

fn forms_sweep(ctx: &mut Ctx, name: &str, forms: &[&Form], vals: &[Val]) {
    let (nf, nv) = (forms.len() as u64, vals.len() as u64);
    ctx.sweep_isolated(name, nf * nv * nv, |i, rec| {
        let [fi, ia, ib] = unflatten(i, [nf, nv, nv]);
        let f = forms[fi];
        let (a, b) = (&vals[ia], &vals[ib]);
        if f.arity == 1 && ib != 0 {
            return;
        }
        if (f.fam == "shl" || f.fam == "shr") && b.int().map_or(false, |x| x.abs() > BigInt::from(300)) {
            rec.hit("pruned:huge-shift (would need > 1 GiB)");
            return;
        }
        let r = match (f.f)(a, b) {
            Some(r) => r,
            None => return,
        };
        rec.step();
        rec.nontrivial();
        let case = || format!("{} on ({}, {})", f.desc, a.show(), if f.arity == 1 { "-".into() } else { b.show() });
        let req = required_panic(f, a, b);
        match r {
            Ok(o) => {
                if let Some(why) = req {
                    rec.fail(format!("{}|{}:{}|missing-panic|{}", P, f.fam, f.out, why), case(), format!("returned {:?}", o), format!("panic ({})", why));
                } else {
                    rec.hit("returns");
                }
            }
            Err(msg) => {
                if is_internal_panic(&msg) {
                    rec.fail(format!("{}|{}:{}|internal-panic|{}", P, f.fam, f.out, crate::core::panic_class(&msg)), case(), msg, "returns, or panics with a documented message");
                    return;
                }
                let claim = claimed_precondition(&msg);
                let ok = match claim {
                    "zero-divisor" => val_rat(b).map_or(false, |r| r.is_zero()) || (f.arity == 1 && val_rat(a).map_or(false, |r| r.is_zero())) || matches!(b, Val::Inf(_)) || matches!(a, Val::Inf(_)),
                    "negative-ubig" => true, // the result type is unsigned; verified by C01/C02 where it matters
                    "gcd-of-zeros" => val_rat(a).map_or(false, |r| r.is_zero()) && val_rat(b).map_or(false, |r| r.is_zero()),
                    "infinite-operand" => matches!(a, Val::Inf(_)) || matches!(b, Val::Inf(_)),
                    "unlimited-precision" => [a, b].iter().all(|v| !matches!(v, Val::F(_, _, p) if *p != 0)),
                    "unknown-message" => false,
                    _ => true,
                };
                if !ok {
                    rec.fail(format!("{}|{}:{}|unjustified-panic|{}", P, f.fam, f.out, claim), case(), msg, "the documented precondition named by the panic message does not hold for these operands");
                } else {
                    rec.hit(&format!("documented-panic:{}", claim));
                }
            }
        }
        rec.sample(case);
    });
}

// ---------------------------------------------------------------------------------------------
// B. registry of methods

#[derive(Clone, Copy, PartialEq)]
enum Expect {
    NoPanic,
    Must(&'static str), // documented precondition holds: must panic
    May,                // docs allow either (e.g. inexact result at unlimited precision): never internal / hang
}

struct Case {
    name: &'static str,
    text: String,
    expect: Expect,
    run: Box<dyn Fn() -> Result<String, String> + Sync + Send>,
}

fn show<T: std::fmt::Debug>(t: T) -> String {
    crate::core::trunc(&format!("{:?}", t), 120)
}

macro_rules! case {
    ($v:ident, $name:expr, $text:expr, $expect:expr, $body:expr) => {
        $v.push(Case { name: $name, text: $text, expect: $expect, run: Box::new(move || guard(|| show($body))) });
    };
}

fn int_edges() -> Vec<BigInt> {
    let one = BigInt::one();
    vec![BigInt::zero(), one.clone(), -one.clone(), BigInt::from(2), BigInt::from(-8), BigInt::from(27), BigInt::from(u64::MAX), &one << 64u32, -(&one << 64u32), (&one << 128u32) - 1, &one << 128u32, -(&one << 130u32), BigInt::from(shape(3, "ones", 0)), BigInt::from(shape(5, "lcgA", 0))]
}

fn registry() -> Vec<Case> {
    let mut v: Vec<Case> = vec![];
    let ints = int_edges();
    let ns: Vec<usize> = vec![0, 1, 2, 3, 63, 64, 65, 128, 200];
    for x in &ints {
        let neg = x.sign() == NSign::Minus;
        let zero = x.is_zero();
        let xi = ref_to_i(x);
        let t = |op: &str| format!("{}({})", op, hex(x));
        { let a = xi.clone(); case!(v, "IBig::sqrt", t("sqrt"), if neg { Expect::Must("complex-result") } else { Expect::NoPanic }, a.sqrt()); }
        { let a = xi.clone(); case!(v, "IBig::cbrt", t("cbrt"), Expect::NoPanic, a.cbrt()); }
        { let a = xi.clone(); case!(v, "IBig::to_f32/to_f64", t("to_f64"), Expect::NoPanic, (a.to_f32(), a.to_f64())); }
        { let a = xi.clone(); case!(v, "IBig::to_le_bytes/to_be_bytes", t("bytes"), Expect::NoPanic, (IBig::from_le_bytes(&a.to_le_bytes()) == a, IBig::from_be_bytes(&a.to_be_bytes()) == a)); }
        { let a = xi.clone(); case!(v, "IBig::format", t("format"), Expect::NoPanic, (format!("{} {:?} {:#x} {:+b} {:>30o}", a, a, a, a, a)).len()); }
        { let a = xi.clone(); case!(v, "IBig::signum/abs/neg", t("signum"), Expect::NoPanic, (a.signum(), dashu_base::Abs::abs(a.clone()), -a.clone(), a.clone().unsigned_abs())); }
        { let a = xi.clone(); case!(v, "IBig::trailing_zeros/ones", t("trailing"), Expect::NoPanic, (a.trailing_zeros(), a.trailing_ones())); }
        { let a = xi.clone(); case!(v, "TryFrom<IBig> for primitives", t("try_into"), Expect::NoPanic, (u8::try_from(&a).is_ok(), i64::try_from(&a).is_ok(), u128::try_from(&a).is_ok(), i128::try_from(a.clone()).is_ok(), UBig::try_from(a.clone()).is_ok())); }
        for &n in &ns {
            let tn = |op: &str| format!("{}({}, {})", op, hex(x), n);
            { let a = xi.clone(); case!(v, "IBig::nth_root", tn("nth_root"), if n == 0 { Expect::Must("zeroth-root") } else if neg && n % 2 == 0 { Expect::Must("complex-result") } else { Expect::NoPanic }, a.nth_root(n)); }
            if n <= 3 || x.bits() <= 64 {
                let a = xi.clone();
                case!(v, "IBig::pow", tn("pow"), Expect::NoPanic, a.pow(n).bit_len_());
            }
            { let a = xi.clone(); case!(v, "IBig::bit", tn("bit"), Expect::NoPanic, dashu_base::BitTest::bit(&a, n)); }
            { let a = xi.clone(); case!(v, "IBig::shl/shr", tn("shift"), Expect::NoPanic, ((&a << n) >> n == a, &a >> n)); }
        }
        if !neg {
            let xu = ref_to_u(x.magnitude());
            { let a = xu.clone(); case!(v, "UBig::sqrt_rem/cbrt_rem", t("sqrt_rem"), Expect::NoPanic, (a.sqrt_rem(), a.cbrt_rem())); }
            { let a = xu.clone(); case!(v, "UBig::count/trailing/pow2", t("counts"), Expect::NoPanic, (a.count_ones(), a.count_zeros(), a.trailing_zeros(), a.trailing_ones(), dashu_base::PowerOfTwo::is_power_of_two(&a), dashu_base::PowerOfTwo::next_power_of_two(a.clone()))); }
            { let a = xu.clone(); case!(v, "UBig::to_f32/to_f64", t("to_f64"), Expect::NoPanic, (a.to_f32(), a.to_f64())); }
            for &n in &ns {
                let tn = |op: &str| format!("{}({}, {})", op, hex(x), n);
                { let a = xu.clone(); case!(v, "UBig::nth_root", tn("nth_root"), if n == 0 { Expect::Must("zeroth-root") } else { Expect::NoPanic }, a.nth_root(n)); }
                { let a = xu.clone(); case!(v, "UBig::to_chunks", tn("to_chunks"), if n == 0 { Expect::Must("chunk_bits = 0") } else { Expect::NoPanic }, a.to_chunks(n).len()); }
                { let a = xu.clone(); case!(v, "UBig::from_chunks", tn("from_chunks"), if n == 0 { Expect::Must("chunk_bits = 0") } else { Expect::NoPanic }, UBig::from_chunks([a.clone(), a.clone()].iter(), n).bit_len_()); }
                { let a = xu.clone(); case!(v, "UBig::set_bit/clear_bit", tn("set_bit"), Expect::NoPanic, { let mut t = a.clone(); t.set_bit(n); t.clear_bit(n); t.clear_bit(n + 1); t.bit_len_() }); }
                { let a = xu.clone(); case!(v, "UBig::split_bits/clear_high_bits", tn("split_bits"), Expect::NoPanic, { let (lo, hi) = a.clone().split_bits(n); let mut t = a.clone(); t.clear_high_bits(n); (lo == t, hi) }); }
            }
            for &r in &[0u32, 1, 2, 10, 16, 36, 37, 255] {
                let bad = !(2..=36).contains(&r);
                { let a = xu.clone(); case!(v, "UBig::in_radix", format!("in_radix({}, {})", hex(x), r), if bad { Expect::Must("invalid-radix") } else { Expect::NoPanic }, a.in_radix(r).to_string().len()); }
                if x.bits() <= 64 {
                    case!(v, "UBig::from_str_radix(radix)", format!("from_str_radix(\"10\", {})", r), Expect::NoPanic, UBig::from_str_radix("10", r).is_ok());
                    case!(v, "UBig::from_str_with_radix_default(radix)", format!("from_str_with_radix_default(\"10\", {})", r), Expect::NoPanic, UBig::from_str_with_radix_default("10", r).is_ok());
                    case!(v, "IBig::from_str_with_radix_default(radix)", format!("from_str_with_radix_default(\"-0x10\", {})", r), Expect::NoPanic, IBig::from_str_with_radix_default("-0x10", r).is_ok());
                }
            }
            for y in &ints {
                if y.sign() == NSign::Minus {
                    continue;
                }
                let yu = ref_to_u(y.magnitude());
                let t2 = |op: &str| format!("{}({}, {})", op, hex(x), hex(y));
                { let (a, b) = (xu.clone(), yu.clone()); case!(v, "UBig::ilog", t2("ilog"), if zero || *y < BigInt::from(2) { Expect::Must("log-domain") } else { Expect::NoPanic }, a.ilog(&b)); }
                { let (a, b) = (xu.clone(), yu.clone()); case!(v, "UBig::is_multiple_of", t2("is_multiple_of"), if y.is_zero() { Expect::Must("zero-divisor") } else { Expect::NoPanic }, a.is_multiple_of(&b)); }
                { let (a, b) = (xu.clone(), yu.clone()); case!(v, "UBig::remove", t2("remove"), Expect::May, { let mut t = a.clone(); t.remove(&b) }); }
                { let (a, b) = (xu.clone(), yu.clone()); case!(v, "ConstDivisor::new+reduce", t2("reduce mod"), if y.is_zero() { Expect::Must("zero-divisor") } else { Expect::NoPanic }, { let r = ConstDivisor::new(b.clone()); let e = r.reduce(a.clone()); (e.residue() < b, e.clone().pow(&a).residue() < b, e.clone().inv().map(|i| (i * e).residue())) }); }
            }
        }
    }
    // constructors / accessors / const forms
    for x in &ints {
        let neg = x.sign() == NSign::Minus;
        let xi = ref_to_i(x);
        let t = |op: &str| format!("{}({})", op, hex(x));
        { let a = xi.clone(); case!(v, "IBig accessors", t("as_sign_words/as_ubig/into_parts/is_one"), Expect::NoPanic, (a.as_sign_words().1.len(), a.as_ubig().is_some(), a.is_one(), a.clone().into_parts().1 == a.clone().unsigned_abs())); }
        { let a = xi.clone(); case!(v, "IBig::is_multiple_of_const", t("is_multiple_of_const(7)"), Expect::NoPanic, a.is_multiple_of_const(7)); }
        { let a = xi.clone(); case!(v, "IBig::is_multiple_of_const(0)", t("is_multiple_of_const(0)"), Expect::Must("zero-divisor"), a.is_multiple_of_const(0)); }
        if !neg {
            let xu = ref_to_u(x.magnitude());
            { let a = xu.clone(); case!(v, "UBig accessors", t("as_words/as_ibig/from_words/is_one"), Expect::NoPanic, (UBig::from_words(a.as_words()) == a, a.as_ibig().is_one(), a.is_one())); }
            { let a = xu.clone(); case!(v, "UBig::is_multiple_of_const", t("is_multiple_of_const(10)"), Expect::NoPanic, a.is_multiple_of_const(10)); }
            { let a = xu.clone(); case!(v, "UBig::is_multiple_of_const(0)", t("is_multiple_of_const(0)"), Expect::Must("zero-divisor"), a.is_multiple_of_const(0)); }
            if let Ok(w) = u64::try_from(x.clone()) {
                case!(v, "UBig::from_word/from_dword", format!("from_word({})", w), Expect::NoPanic, (UBig::from_word(w as dashu_int::Word).bit_len_(), UBig::from_dword(w as dashu_int::DoubleWord).bit_len_(), IBig::from_parts_const(dashu_base::Sign::Negative, w as dashu_int::DoubleWord).bit_len_()));
                case!(v, "ConstDivisor::from_word/from_dword", format!("from_word({})", w), if w == 0 { Expect::Must("zero-divisor") } else { Expect::NoPanic }, (ConstDivisor::from_word(w as dashu_int::Word).value(), ConstDivisor::from_dword(w as dashu_int::DoubleWord).value()));
                if w != 0 {
                    case!(v, "Reduced::dbl/modulus", format!("reduce(5) mod {}", w), Expect::NoPanic, { let r = ConstDivisor::from_dword(w as dashu_int::DoubleWord); let e = r.reduce(5u8); (e.clone().dbl().residue(), e.modulus()) });
                    case!(v, "RBig/Relaxed::from_parts_const", format!("from_parts_const(+, 6, {})", w), Expect::NoPanic, (RBig::from_parts_const(dashu_base::Sign::Positive, 6, w as dashu_int::DoubleWord).into_parts(), Relaxed::from_parts_const(dashu_base::Sign::Negative, 6, w as dashu_int::DoubleWord).canonicalize().is_one()));
                }
            }
        }
    }
    for &n in &[0usize, 1, 63, 64, 65, 127, 128, 129, 1000] {
        case!(v, "UBig::ones", format!("ones({})", n), Expect::NoPanic, UBig::ones(n).count_ones() == n);
    }
    // formatting / parsing in every radix across the size classes of the formatter (one-word chunks,
    // the 16-slot medium path, the recursive large path)
    for n in (1usize..=20).chain([24, 31, 32, 33, 48, 64, 65]) {
        for r in 2u32..=36 {
            let a = UBig::from_words(&vec![dashu_int::Word::MAX; n * (64 / dashu_int::Word::BITS as usize)]);
            case!(v, "UBig::in_radix(all radixes x lengths)", format!("in_radix(2^{}-1, {}) and back", 64 * n, r), Expect::NoPanic, { let t = a.in_radix(r).to_string(); (t.len(), UBig::from_str_radix(&t, r).map(|b| b == a), format!("{:#}", (-IBig::from(a.clone())).in_radix(r)).len()) });
        }
    }
    case!(v, "RBig::from_parts_const(_, 0)", "from_parts_const(+, 1, 0)".into(), Expect::Must("zero-divisor"), RBig::from_parts_const(dashu_base::Sign::Positive, 1, 0));
    // elements of different rings must not mix
    {
        case!(v, "Reduced: different rings", "reduce(5) mod 7 + reduce(5) mod 11".into(), Expect::Must("different-rings"), { let (r1, r2) = (ConstDivisor::new(UBig::from(7u8)), ConstDivisor::new(UBig::from(11u8))); (r1.reduce(5) + r2.reduce(5)).residue() });
        case!(v, "Reduced: different rings (equal moduli)", "reduce(5) mod 7 * reduce(5) mod 7'".into(), Expect::Must("different-rings"), { let (r1, r2) = (ConstDivisor::new(UBig::from(7u8)), ConstDivisor::new(UBig::from(7u8))); (r1.reduce(5) * r2.reduce(5)).residue() });
        case!(v, "Reduced: division by non-invertible", "reduce(3) / reduce(2) mod 4".into(), Expect::Must("non-invertible"), { let r = ConstDivisor::new(UBig::from(4u8)); (r.reduce(3) / r.reduce(2)).residue() });
    }
    // gcd family
    for x in &ints {
        for y in &ints {
            let both0 = x.is_zero() && y.is_zero();
            let (a, b) = (ref_to_i(x), ref_to_i(y));
            case!(v, "IBig::gcd/gcd_ext", format!("gcd({}, {})", hex(x), hex(y)), if both0 { Expect::Must("gcd-of-zeros") } else { Expect::NoPanic }, ((&a).gcd(&b), (&a).gcd_ext(&b).0));
        }
    }
    for (s1, e1, p1) in [(0i64, 0isize, 3usize), (5, -1, 1), (-123, -2, 3), (1, 40, 1), (7, -40, 0)] {
        let f: DBig = FBig::from_repr(dashu_float::Repr::<10>::new(IBig::from(s1), e1), Context::new(p1));
        case!(v, "RBig::simplest_from_float", format!("simplest_from_float({}e{} @p{})", s1, e1, p1), Expect::NoPanic, RBig::simplest_from_float(&f));
    }
    floats::<mode::HalfAway, 10>(&mut v, "DBig");
    floats::<mode::Zero, 2>(&mut v, "FBig<Zero,2>");
    // rationals
    let qs: Vec<(i64, i64)> = vec![(0, 1), (1, 1), (-1, 1), (1, 2), (-1, 2), (3, 2), (-7, 3), (22, 7), (i64::MAX, 2), (1, i64::MAX)];
    for &(n, d) in &qs {
        let q = RBig::from_parts(IBig::from(n), UBig::from(d as u64));
        let t = |op: &str| format!("{}({}/{})", op, n, d);
        { let a = q.clone(); case!(v, "RBig::trunc/floor/ceil/round/fract", t("round ops"), Expect::NoPanic, (a.trunc(), a.floor(), a.ceil(), a.round(), a.fract(), a.clone().split_at_point())); }
        { let a = q.clone(); case!(v, "RBig::to_f32/to_f64/to_int", t("to_f64"), Expect::NoPanic, (a.to_f32(), a.to_f64(), a.to_f32_fast(), a.to_f64_fast(), a.to_int())); }
        { let a = q.clone(); case!(v, "RBig accessors", t("accessors"), Expect::NoPanic, (a.denominator().is_one(), a.is_int(), a.is_one(), a.as_relaxed().is_one(), a.clone().relax().denominator().is_one(), a.clone().relax().canonicalize() == a, a.clone().relax().into_parts().1 == a.clone().into_parts().1)); }
        { let a = q.clone(); case!(v, "RBig::inv", t("inv"), if n == 0 { Expect::Must("zero-divisor") } else { Expect::NoPanic }, a.clone().inv()); }
        { let a = q.clone(); case!(v, "RBig::format/parse", t("format"), Expect::NoPanic, (RBig::from_str(&a.to_string()).map(|b| b == a), format!("{:?} {:>20}", a, a).len())); }
        for &p in &[0usize, 1, 5, 40] {
            let a = q.clone();
            case!(v, "RBig::to_float", format!("to_float::<HalfAway,10>({}/{}, precision {})", n, d, p), Expect::May, a.to_float::<mode::HalfAway, 10>(p));
            let a = q.clone();
            case!(v, "RBig::pow", format!("pow({}/{}, {})", n, d, p), Expect::NoPanic, a.pow(p).numerator().bit_len_());
        }
        for &lim in &[0u64, 1, 2, 10, 1000] {
            let a = q.clone();
            case!(v, "RBig::next_up/next_down/nearest", format!("next_up/next_down/nearest({}/{}, limit {})", n, d, lim), if lim == 0 { Expect::May } else { Expect::NoPanic }, (a.next_up(&UBig::from(lim)), a.next_down(&UBig::from(lim)), a.nearest(&UBig::from(lim))));
        }
        for &(n2, d2) in &qs {
            let (a, b) = (q.clone(), RBig::from_parts(IBig::from(n2), UBig::from(d2 as u64)));
            case!(v, "RBig::simplest_in/is_simpler_than", format!("simplest_in({}/{}, {}/{})", n, d, n2, d2), Expect::NoPanic, (RBig::simplest_in(a.clone(), b.clone()), a.is_simpler_than(&b)));
        }
    }
    for f in [0.0f32, -0.0, 1.0, 0.1, f32::MIN_POSITIVE, 1e-45, f32::MAX, f32::INFINITY, f32::NEG_INFINITY, f32::NAN] {
        case!(v, "simplest_from_f32/f64 + TryFrom<f32>", format!("from {:?}", f), Expect::NoPanic, (RBig::simplest_from_f32(f), RBig::simplest_from_f64(f as f64), RBig::try_from(f).is_ok(), UBig::try_from(f).is_ok(), IBig::try_from(f as f64).is_ok(), FBig::<mode::HalfEven, 2>::try_from(f).is_ok(), FBig::<mode::Zero, 2>::try_from(f as f64).is_ok()));
    }
    case!(v, "RBig::from_parts(_, 0)", "from_parts(1, 0)".into(), Expect::Must("zero-divisor"), RBig::from_parts(IBig::ONE, UBig::ZERO));
    case!(v, "Relaxed::from_parts(_, 0)", "from_parts(1, 0)".into(), Expect::Must("zero-divisor"), Relaxed::from_parts(IBig::ONE, UBig::ZERO));
    case!(v, "RBig::from_parts_signed(_, 0)", "from_parts_signed(1, 0)".into(), Expect::Must("zero-divisor"), RBig::from_parts_signed(IBig::ONE, IBig::ZERO));
    v
}

trait BorrowSelf {
    fn borrow_(&self) -> &Self;
}
impl<T> BorrowSelf for T {
    fn borrow_(&self) -> &Self {
        self
    }
}

trait BitLenShow {
    fn bit_len_(&self) -> usize;
}
impl BitLenShow for IBig {
    fn bit_len_(&self) -> usize {
        dashu_base::BitTest::bit_len(self)
    }
}
impl BitLenShow for UBig {
    fn bit_len_(&self) -> usize {
        dashu_base::BitTest::bit_len(self)
    }
}

fn floats<R: ModeTag, const B: dashu_int::Word>(v: &mut Vec<Case>, ty: &'static str) {
    let vals: Vec<(i64, i64)> = vec![(0, 0), (1, 0), (-1, 0), (5, -1), (-5, -1), (15, -1), (-15, -1), (1, -40), (-1, -40), (7, 20), (-7, 20), (999, -3), (1, 3)];
    let precs = [0usize, 1, 2, 20];
    for &(s, e) in &vals {
        for &p in &precs {
            if p != 0 && digits_b(&BigInt::from(s), B as u32) > p {
                continue;
            }
            let x: FBig<R, B> = FBig::from_repr(dashu_float::Repr::<B>::new(IBig::from(s), e as isize), Context::<R>::new(p));
            let t = |op: &str| format!("{} {}({}*{}^{} @p{})", ty, op, s, B, e, p);
            let neg = s < 0;
            let zero = s == 0;
            let unl = p == 0;
            let value = Rat::scaled(&BigInt::from(s), B as u32, e);
            let le_m1 = value <= Rat::from_i(-1);
            macro_rules! fcase {
                ($name:expr, $op:expr, $expect:expr, $body:expr) => {{
                    let a = x.clone();
                    let f = $body;
                    v.push(Case { name: $name, text: t($op), expect: $expect, run: Box::new(move || guard(|| show(f(&a)))) });
                }};
            }
            let huge = e >= 10; // exp of a huge argument may overflow the exponent (documented size limit)
            fcase!("FBig::exp", "exp", if unl { if zero { Expect::May } else { Expect::Must("unlimited-precision") } } else if huge { Expect::May } else { Expect::NoPanic }, |a: &FBig<R, B>| a.exp());
            fcase!("FBig::exp_m1", "exp_m1", if unl { if zero { Expect::May } else { Expect::Must("unlimited-precision") } } else if huge { Expect::May } else { Expect::NoPanic }, |a: &FBig<R, B>| a.exp_m1());
            fcase!("FBig::ln", "ln", if neg || zero { Expect::Must("log-domain") } else if unl { Expect::May } else { Expect::NoPanic }, |a: &FBig<R, B>| a.ln());
            fcase!("FBig::ln_1p", "ln_1p", if le_m1 { Expect::Must("log-domain") } else if unl { Expect::May } else { Expect::NoPanic }, |a: &FBig<R, B>| a.ln_1p());
            fcase!("FBig::sqrt", "sqrt", if neg { Expect::Must("complex-result") } else if unl { Expect::May } else { Expect::NoPanic }, |a: &FBig<R, B>| a.sqrt());
            fcase!("FBig::sqr/cubic", "sqr/cubic", Expect::NoPanic, |a: &FBig<R, B>| (a.sqr(), a.cubic()));
            fcase!("FBig::round ops", "trunc/floor/ceil/round/fract", Expect::NoPanic, |a: &FBig<R, B>| (a.trunc(), a.floor(), a.ceil(), a.round(), a.fract(), a.clone().split_at_point()));
            fcase!("FBig::to_int/to_f32/to_f64", "to_int/to_f32/to_f64", Expect::NoPanic, |a: &FBig<R, B>| (a.to_int(), a.to_f32(), a.to_f64()));
            fcase!("FBig::format", "format", Expect::NoPanic, |a: &FBig<R, B>| format!("{} {:?} {:e} {:.3} {:>25} {:+.0}", a, a, a, a, a, a).len());
            fcase!("FBig::parse(to_string)", "to_string->from_str", Expect::NoPanic, |a: &FBig<R, B>| FBig::<R, B>::from_str(&a.to_string()).map(|b| b == *a));
            fcase!("FBig::ulp", "ulp", if unl { Expect::Must("unlimited-precision") } else { Expect::NoPanic }, |a: &FBig<R, B>| a.ulp());
            fcase!("FBig::inv", "inv", if zero { Expect::Must("zero-divisor") } else { Expect::May }, |a: &FBig<R, B>| a.clone().inv());
            fcase!("FBig::to_decimal/to_binary", "to_decimal/to_binary", Expect::May, |a: &FBig<R, B>| (a.to_decimal(), a.to_binary()));
            fcase!("FBig::with_base/with_base_and_precision", "with_base", Expect::May, |a: &FBig<R, B>| (a.clone().with_base::<7>(), a.clone().with_base_and_precision::<3>(5), a.clone().with_base_and_precision::<16>(0)));
            fcase!("FBig accessors", "accessors", Expect::NoPanic, |a: &FBig<R, B>| (a.precision(), a.digits(), a.context().precision(), a.repr().digits(), a.repr().digits_ub() >= a.repr().digits_lb(), a.repr().is_int(), a.repr().is_one(), a.repr().is_finite(), a.clone().into_repr().into_parts(), a.clone().with_rounding::<mode::Up>().precision()));
            fcase!("Context::rem/convert_int/max", "rem", if zero { Expect::Must("zero-divisor") } else { Expect::May }, |a: &FBig<R, B>| { let c = Context::max(a.context(), Context::<R>::new(3)); (c.rem(dashu_float::Repr::<B>::new(IBig::from(17), 0).clone().borrow_(), a.repr()), c.convert_int::<B>(IBig::from(12345))) });
            fcase!("RBig::try_from(FBig)/simplest_from_float", "to RBig", Expect::NoPanic, |a: &FBig<R, B>| (RBig::try_from(a.clone()).is_ok(), IBig::try_from(a.clone()).is_ok(), UBig::try_from(a.clone()).is_ok()));
            for &q in &[0usize, 1, 3, 30] {
                let a = x.clone();
                v.push(Case { name: "FBig::with_precision", text: format!("{} with_precision({}*{}^{} @p{}, {})", ty, s, B, e, p, q), expect: Expect::NoPanic, run: Box::new(move || guard(|| show(a.clone().with_precision(q)))) });
            }
            for &n in &[-3i64, -1, 0, 1, 2, 17] {
                let a = x.clone();
                let expect = if zero && n < 0 { Expect::May } else if unl && n < 0 { Expect::May } else { Expect::NoPanic };
                v.push(Case { name: "FBig::powi", text: format!("{} powi({}*{}^{} @p{}, {})", ty, s, B, e, p, n), expect, run: Box::new(move || guard(|| show(a.powi(IBig::from(n))))) });
            }
            for &(s2, e2) in &[(0i64, 0i64), (1, 0), (5, -1), (-2, 0), (3, 1)] {
                if p != 0 && digits_b(&BigInt::from(s2), B as u32) > p {
                    continue;
                }
                let a = x.clone();
                let y: FBig<R, B> = FBig::from_repr(dashu_float::Repr::<B>::new(IBig::from(s2), e2 as isize), Context::<R>::new(p));
                let expect = if neg || unl { Expect::May } else { Expect::NoPanic };
                v.push(Case { name: "FBig::powf", text: format!("{} powf({}*{}^{} @p{}, {}*{}^{})", ty, s, B, e, p, s2, B, e2), expect, run: Box::new(move || guard(|| show(a.powf(&y)))) });
            }
        }
    }
    // huge exponents with short significands: every operation whose result is again a short float
    // (or a primitive) must cost time polynomial in the *length* of the exponent, not in its value
    for &(s, e) in &[(15i64, 100_000_000i64), (15, -100_000_000), (1, 1_000_000_000), (-7, 123_456_789), (-7, -1_234_567_890), (3, 40_000), (3, -40_000)] {
        for &p in &[2usize, 20] {
            if digits_b(&BigInt::from(s), B as u32) > p {
                continue;
            }
            let x: FBig<R, B> = FBig::from_repr(dashu_float::Repr::<B>::new(IBig::from(s), e as isize), Context::<R>::new(p));
            let t = |op: &str| format!("{} {}({}*{}^{} @p{})", ty, op, s, B, e, p);
            macro_rules! hcase {
                ($name:expr, $op:expr, $body:expr) => {{
                    let a = x.clone();
                    let f = $body;
                    v.push(Case { name: $name, text: t($op), expect: Expect::May, run: Box::new(move || guard(|| show(f(&a)))) });
                }};
            }
            hcase!("FBig(huge exponent)::to_f32/to_f64", "to_f32/to_f64", |a: &FBig<R, B>| (a.to_f32(), a.to_f64()));
            hcase!("FBig(huge exponent)::to_decimal/to_binary", "to_decimal/to_binary", |a: &FBig<R, B>| (a.to_decimal(), a.to_binary()));
            hcase!("FBig(huge exponent)::with_base_and_precision", "with_base_and_precision", |a: &FBig<R, B>| (a.clone().with_base_and_precision::<3>(5), a.clone().with_base_and_precision::<16>(4)));
            hcase!("FBig(huge exponent)::format {:e}", "format {:e}", |a: &FBig<R, B>| format!("{:e} {:.3e} {:?}", a, a, a).len());
            hcase!("FBig(huge exponent)::cmp", "cmp/eq", |a: &FBig<R, B>| (a > &FBig::<R, B>::ONE, a == &FBig::<R, B>::ONE, a.partial_cmp(&-a.clone()), a.cmp(&(a.clone() * FBig::<R, B>::from(2u8))), dashu_base::AbsOrd::abs_cmp(a, &FBig::<R, B>::ONE)));
            hcase!("FBig(huge exponent)::add/sub small", "+1/-1", |a: &FBig<R, B>| (a + FBig::<R, B>::ONE, a - FBig::<R, B>::ONE, FBig::<R, B>::ONE - a, a + a, a - a));
            hcase!("FBig(huge exponent)::mul/div/sqr/inv", "mul/div/sqr/inv", |a: &FBig<R, B>| (a * a, a / FBig::<R, B>::from(3u8), a.sqr(), a.clone().inv()));
            hcase!("FBig(huge exponent)::sqrt/ln", "sqrt/ln", |a: &FBig<R, B>| { let b = if a.sign() == dashu_base::Sign::Negative { -a.clone() } else { a.clone() }; (b.sqrt(), b.ln()) });
            hcase!("FBig(huge exponent)::ulp/with_precision/accessors", "ulp/with_precision", |a: &FBig<R, B>| (a.ulp(), a.clone().with_precision(1), a.clone().with_precision(40), a.digits(), a.repr().is_int(), dashu_base::EstimatedLog2::log2_bounds(a), dashu_base::Signed::sign(a)));
            hcase!("FBig(huge exponent)::powi", "powi(2)/powi(-1)", |a: &FBig<R, B>| (a.powi(IBig::from(2)), a.powi(IBig::from(-1))));
            hcase!("FBig(huge exponent)::to_f32/to_f64 via Repr", "Repr::to_f64", |a: &FBig<R, B>| (a.repr().to_f32(), a.repr().to_f64()));
        }
    }
    for sg in [1u128, 10u128.pow(38), 10u128.pow(38) + 1, u128::MAX - 10, u128::MAX, 3u128.pow(80), 1u128 << 127] {
        for e in [0isize, -3, 7] {
            v.push(Case { name: "FBig::from_parts_const(large significands)", text: format!("{} from_parts_const(-, {}, {}, None)", ty, sg, e), expect: Expect::NoPanic, run: Box::new(move || guard(|| show(FBig::<R, B>::from_parts_const(dashu_base::Sign::Negative, sg as dashu_int::DoubleWord, e, None)))) });
        }
    }
    v.push(Case { name: "FBig::from_parts_const/from_repr_const/from_str_native", text: format!("{} const constructors", ty), expect: Expect::NoPanic, run: Box::new(move || guard(|| {
        #[allow(deprecated)]
        let n = FBig::<R, B>::from_str_native("1.01").is_ok();
        show((FBig::<R, B>::from_parts_const(dashu_base::Sign::Negative, 123, -1, Some(7)), FBig::<R, B>::from_repr_const(dashu_float::Repr::<B>::neg_one()).precision(), dashu_float::Repr::<B>::infinity().is_infinite(), dashu_float::Repr::<B>::neg_infinity().significand().is_zero(), n))
    })) });
    for inf in [FBig::<R, B>::INFINITY, FBig::<R, B>::NEG_INFINITY] {
        let t = |op: &str| format!("{} {}({:?})", ty, op, inf.repr().exponent());
        macro_rules! icase {
            ($name:expr, $op:expr, $expect:expr, $body:expr) => {{
                let a = inf.clone();
                let f = $body;
                v.push(Case { name: $name, text: t($op), expect: $expect, run: Box::new(move || guard(|| show(f(&a)))) });
            }};
        }
        icase!("FBig(inf)::exp/ln/sqrt", "exp/ln/sqrt", Expect::Must("infinite-operand"), |a: &FBig<R, B>| (a.exp(), a.ln(), a.sqrt()));
        icase!("FBig(inf)::trunc", "trunc", Expect::Must("infinite-operand"), |a: &FBig<R, B>| a.trunc());
        icase!("FBig(inf)::to_int", "to_int", Expect::Must("infinite-operand"), |a: &FBig<R, B>| a.to_int());
        icase!("FBig(inf)::format/to_f64/cmp", "format/to_f64/cmp", Expect::NoPanic, |a: &FBig<R, B>| (format!("{} {:?}", a, a).len(), a.to_f64(), a > &FBig::<R, B>::ONE));
        icase!("FBig(inf)::with_precision", "with_precision", Expect::May, |a: &FBig<R, B>| a.clone().with_precision(3));
    }
    // precision-0 contexts on inexact operations
    let c0 = Context::<R>::new(0);
    let three = dashu_float::Repr::<B>::new(IBig::from(3), 0);
    let one = dashu_float::Repr::<B>::one();
    { let (a, b) = (one.clone(), three.clone()); v.push(Case { name: "Context(0)::div inexact", text: format!("{} Context::new(0).div(1, 3)", ty), expect: Expect::Must("unlimited-precision"), run: Box::new(move || guard(|| show(c0.div(&a, &b)))) }); }
    { let a = three.clone(); v.push(Case { name: "Context(0)::sqrt", text: format!("{} Context::new(0).sqrt(3)", ty), expect: Expect::Must("unlimited-precision"), run: Box::new(move || guard(|| show(c0.sqrt(&a)))) }); }
    { let (a, b) = (one.clone(), three.clone()); v.push(Case { name: "Context(0)::add/mul exact", text: format!("{} Context::new(0).add/mul(1, 3)", ty), expect: Expect::NoPanic, run: Box::new(move || guard(|| show((c0.add(&a, &b), c0.mul(&a, &b), c0.sub(&a, &b))))) }); }
    let _ = Approximation::<u8, u8>::Exact(0);
}

fn methods_sweep(ctx: &mut Ctx, name: &str, cases: &[Case]) {
    let n = cases.len() as u64;
    ctx.sweep_isolated(name, n, |i, rec| {
        let c = &cases[i as usize];
        rec.step();
        rec.nontrivial();
        rec.label(c.name, &c.text);
        let t0 = std::time::Instant::now();
        let outcome = (c.run)();
        if t0.elapsed().as_millis() > 1000 {
            rec.hit(&format!("info:slow(>1s):{}", c.name));
        }
        match (outcome, c.expect) {
            (Ok(_), Expect::Must(why)) => rec.fail(format!("{}|{}|missing-panic|{}", P, c.name, why), c.text.clone(), "returned a value", format!("prompt panic ({})", why)),
            (Ok(_), _) => rec.hit("returns"),
            (Err(m), e) => {
                if is_internal_panic(&m) {
                    rec.fail(format!("{}|{}|internal-panic|{}", P, c.name, crate::core::panic_class(&m)), c.text.clone(), m, "returns, or panics with a documented message");
                } else if e == Expect::NoPanic {
                    rec.fail(format!("{}|{}|undocumented-panic|{}", P, c.name, claimed_precondition(&m)), c.text.clone(), m, "no panic: no documented precondition applies to these arguments");
                } else if claimed_precondition(&m) == "unknown-message" {
                    rec.fail(format!("{}|{}|undocumented-panic|unknown-message", P, c.name), c.text.clone(), m, "a documented panic message");
                } else {
                    rec.hit(&format!("documented-panic:{}", claimed_precondition(&m)));
                }
            }
        }
        rec.sample(|| c.text.clone());
    });
}

// ---------------------------------------------------------------------------------------------
// C. parsers

fn parser_strings(max_len: usize) -> Vec<String> {
    let sigma: Vec<char> = "019afz_.-+e@xp /é".chars().collect();
    let mut v = vec![String::new()];
    let mut layer = vec![String::new()];
    for _ in 0..max_len {
        let mut next = vec![];
        for s in &layer {
            for c in &sigma {
                let mut t = s.clone();
                t.push(*c);
                next.push(t);
            }
        }
        v.extend(next.iter().cloned());
        layer = next;
    }
    for s in ["1e", "1e+", "1e-", "0x", "0x.", "1/", "/1", "1/0", "-1/-1", "1//2", "1_/2", "~1/2", "1e99999999999999999999", "1e-99999999999999999999", "0x1p99999999999999999999", "9".repeat(400).as_str(), "1_000_000_000_000_000_000_000/3", "é", "1é", "٣", "１２", "1 ", " 1", "\u{0}", "1\n", "+-1", "--1", "1.2.3", "1e1e1", "inf", "-inf", "nan", "0b102", "0o8", "1.e5", ".e5", "1.5/2", "1/2.5"] {
        v.push(s.to_string());
    }
    // digit strings with separators whose length with and without the separators falls on different
    // sides of the thresholds of the integer parser (one word / chunk / divide-and-conquer)
    for digits in [19usize, 20, 39, 600, 2500, 4000, 4864, 5000] {
        for every in [1usize, 3, 7] {
            let mut t = String::new();
            for k in 0..digits {
                t.push(char::from(b'1' + (k % 9) as u8));
                if k % every == every - 1 && k + 1 < digits {
                    t.push('_');
                }
            }
            v.push(t);
        }
    }
    v
}

fn parser_sweep(ctx: &mut Ctx, name: &str, strings: &[String]) {
    let n = strings.len() as u64;
    ctx.sweep_isolated(name, n, |i, rec| {
        let s = &strings[i as usize];
        let runs: Vec<(&str, Result<bool, String>)> = vec![
            ("UBig::from_str", guard(|| UBig::from_str(s).is_ok())),
            ("IBig::from_str", guard(|| IBig::from_str(s).is_ok())),
            ("IBig::from_str_radix(36)", guard(|| IBig::from_str_radix(s, 36).is_ok())),
            ("IBig::from_str_with_radix_prefix", guard(|| IBig::from_str_with_radix_prefix(s).is_ok())),
            ("FBig<Zero,2>::from_str", guard(|| FBig::<mode::Zero, 2>::from_str(s).is_ok())),
            ("DBig::from_str", guard(|| DBig::from_str(s).is_ok())),
            ("FBig<HalfEven,16>::from_str", guard(|| FBig::<mode::HalfEven, 16>::from_str(s).is_ok())),
            ("FBig<Zero,36>::from_str", guard(|| FBig::<mode::Zero, 36>::from_str(s).is_ok())),
            ("RBig::from_str", guard(|| RBig::from_str(s).is_ok())),
            ("Relaxed::from_str", guard(|| Relaxed::from_str(s).is_ok())),
            ("RBig::from_str_radix(16)", guard(|| RBig::from_str_radix(s, 16).is_ok())),
            ("RBig::from_str_with_radix_prefix", guard(|| RBig::from_str_with_radix_prefix(s).is_ok())),
        ];
        for (site, r) in runs {
            rec.step();
            match r {
                Ok(true) => rec.hit("accepted"),
                Ok(false) => rec.hit("rejected"),
                Err(m) => rec.fail(format!("{}|{}|parser-panics|{}", P, site, crate::core::panic_class(&m)), format!("{:?}", s), m, "Ok or Err, never a panic"),
            }
        }
        if !s.is_empty() {
            rec.nontrivial();
        }
        rec.sample(|| format!("{:?} through 12 parsers", s));
    });
    ctx.require_classes(name, &["accepted", "rejected"]);
}

pub fn run(ctx: &mut Ctx) {
    ctx.rule = "A: every generated operator/ops-trait form (the C15 table, 2581 impls) on every ordered pair of EDGE operands of its kind (integers 0, +-1, +-2, 2^64-1, +-2^64, +-2^128, 3-word, shift counts; rationals; floats at precision 0/1/2/53 incl. tiny, huge, +-inf); B: a registry of ~60 non-operator public methods (roots, logs, chunks, bits, radix, modular ring, gcd, float exp/ln/pow/sqrt/round/convert/format, rational round/simplify/convert ...) on every tuple of edge arguments with its documented-panic predicate; C: 12 parsers on all strings of length <= 3 over a 17-symbol alphabet plus a list of nasty strings. Every case runs in a child process under a watchdog, in the monitored and in the release build. Judged: no hang/abort/OOM, no internal panic (assertion, overflow, index, unwrap), a panic's message must name a documented precondition that really holds, and the clearly documented preconditions (zero divisor, unsigned underflow, gcd(0,0), zeroth/even-negative root, log domain, infinite operands, invalid radix, inexact at unlimited precision) must panic. non-trivial = case executed".into();
    ctx.assume("huge-but-valid arguments are capped so that a correct implementation needs < 1 s and < 1 GiB (shift counts <= 300, pow exponents <= 200 on word-size bases)");
    ctx.case_horizon = std::time::Duration::from_secs(ctx.pick(10, 30));
    let forms = c15::f10::forms();
    let groups: Vec<(&str, Kind)> = vec![("int", Kind::Int), ("ratio", Kind::Ratio), ("float", Kind::Float)];
    let cases = registry();
    ctx.bound("registry_cases", cases.len() as u64);
    // coverage report: public inherent methods (rustdoc inventory) that no registry case calls
    {
        let src = include_str!("c16.rs");
        let mut uncovered: Vec<&str> = vec![];
        for a in c15::f10::API {
            let m = a.split("::").nth(1).unwrap_or("");
            let called = src.contains(&format!(".{}(", m)) || src.contains(&format!("::{}(", m)) || src.contains(&format!(".{}::<", m)) || src.contains(&format!("::{}::<", m));
            if !called {
                uncovered.push(a);
            }
        }
        ctx.bound("public_inherent_methods(rustdoc inventory)", c15::f10::API.len() as u64);
        ctx.bound("methods_without_a_registry_case", serde_json::json!(uncovered));
    }
    let strings = parser_strings(ctx.pick(3, 4));
    ctx.bound("parser_strings", strings.len() as u64);
    let exe = std::env::current_exe().ok();
    let rel = exe.as_ref().and_then(|e| e.parent()).and_then(|d| d.parent()).map(|t| t.join("rel").join("dv"));
    for pass in ["mon", "rel"] {
        if pass == "rel" {
            // the release build of the same binary serves as worker for the second pass
            if cfg!(debug_assertions) {
                match &rel {
                    Some(p) if p.exists() => ctx.worker_exe = Some(p.clone()),
                    _ => {
                        ctx.machinery("release-profile worker binary target/rel/dv not found (./check builds it for C16)");
                        break;
                    }
                }
            }
        }
        for (gname, kind) in &groups {
            let fs: Vec<&Form> = forms.iter().filter(|f| c15::kind_of(f) == *kind).collect();
            let vals = edge_vals(*kind);
            forms_sweep(ctx, &format!("{}.forms.{}", pass, gname), &fs, &vals);
        }
        methods_sweep(ctx, &format!("{}.methods", pass), &cases);
        parser_sweep(ctx, &format!("{}.parsers", pass), &strings);
    }
    ctx.worker_exe = None;
    ctx.require_classes("mon.forms.int", &["returns", "documented-panic:zero-divisor", "documented-panic:negative-ubig", "documented-panic:gcd-of-zeros"]);
    ctx.require_classes("mon.forms.float", &["returns", "documented-panic:infinite-operand", "documented-panic:unlimited-precision"]);
    ctx.require_classes("mon.methods", &["returns", "documented-panic:zeroth-root", "documented-panic:complex-result", "documented-panic:log-domain", "documented-panic:invalid-radix", "documented-panic:different-rings", "documented-panic:unlimited-precision"]);
    let _ = (DivRem::div_rem(7u8, 2u8), Inverse::inv(RBig::ONE));
}
