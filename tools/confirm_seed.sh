#!/bin/bash
# confirm_seed.sh <worktree> <outdir> <n> <name>   — confirm a seeded change in a scratch worktree:
#  suite passes with the patch, demo fails with it, demo passes without it. Writes /verif/seeded/<name>/.
WT=$1; OUT=$2; N=$3; NAME=$4
set -u
cd "$WT" || exit 2
git checkout -q -- . 2>/dev/null
DEMO=$(ls */tests/seeded_demo_$N.rs 2>/dev/null | head -1)
[ -z "$DEMO" ] && { echo "no demo file"; exit 2; }
CRATE_DIR=$(dirname $(dirname $DEMO)); CRATE=$(grep -m1 '^name' $CRATE_DIR/Cargo.toml | sed 's/.*"\(.*\)"/\1/')
git apply "$OUT/patch$N.diff" || { echo "patch does not apply"; exit 2; }
# move demos away while running the pinned suite so only the original tests run
mkdir -p /tmp/mut/.demos.$$; for f in */tests/seeded_demo_*.rs; do mv $f /tmp/mut/.demos.$$/$(echo $f | tr / _); done
cargo test --workspace --no-fail-fast --offline > /tmp/mut/.suite.$$ 2>&1
SUITE_FAILS=$(grep -cE "^test .* FAILED|^error" /tmp/mut/.suite.$$)
SUITE_PASS=$(grep -E "^test result" /tmp/mut/.suite.$$ | awk '{s+=$4} END{print s}')
for f in /tmp/mut/.demos.$$/*; do b=$(basename $f); d=$(echo $b | sed 's/_tests_/\/tests\//'); mv $f $d; done; rmdir /tmp/mut/.demos.$$
cargo test --offline -p $CRATE --test seeded_demo_$N > /tmp/mut/.with.$$ 2>&1; WITH=$?
git checkout -q -- .
cargo test --offline -p $CRATE --test seeded_demo_$N > /tmp/mut/.without.$$ 2>&1; WITHOUT=$?
echo "$NAME: suite_pass=$SUITE_PASS suite_fail_lines=$SUITE_FAILS demo_with_patch_exit=$WITH demo_without_exit=$WITHOUT"
if [ "$SUITE_FAILS" = "0" ] && [ "$WITH" != "0" ] && [ "$WITHOUT" = "0" ]; then
  D=/verif/seeded/$NAME; mkdir -p $D
  cp "$OUT/patch$N.diff" $D/patch.diff; cp $DEMO $D/demo.rs
  python3 - "$D" "$NAME" "$CRATE" "$N" "$SUITE_PASS" "$OUT" <<'PY'
import json,sys,re
d,name,crate,n,sp,out=sys.argv[1:]
readme=open(out+'/README.md').read()
json.dump({"id":name,"property":name.split('-')[0],"crate":crate,
 "demo":f"copy demo.rs to <worktree>/{ {'dashu-int':'integer','dashu-float':'float','dashu-ratio':'rational','dashu-base':'base','dashu-macros':'macros'}.get(crate,crate)}/tests/seeded_demo_{n}.rs; cargo test --offline -p {crate} --test seeded_demo_{n}",
 "confirmed":{"suite_with_patch":f"cargo test --workspace --no-fail-fast --offline: {sp} passed, 0 failed","demo_with_patch":"fails","demo_without_patch":"passes"},
 "needs_to_manifest":"see README excerpt","readme_excerpt":readme[:6000],"detected_by":"(filled in after running the checks)"},open(d+'/meta.json','w'),indent=1)
PY
  echo "  stored in $D"
else
  echo "  NOT CONFIRMED"; tail -5 /tmp/mut/.with.$$; grep -E "FAILED|^error" /tmp/mut/.suite.$$ | head
fi
rm -f /tmp/mut/.suite.$$ /tmp/mut/.with.$$ /tmp/mut/.without.$$
