//! C06 — not built yet.
use crate::core::Ctx;

pub fn run(ctx: &mut Ctx) {
    ctx.machinery("check C06 is not built yet");
}
