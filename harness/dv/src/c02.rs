//! C02 — integer division: a = q*b + r with the documented conventions, all forms, ConstDivisor,
//! division by zero panics.  Closed I3 x (I3\{0}); shape universe of constructed dividends
//! q*b + r across the schoolbook / divide-and-conquer switch; power-of-two (double-)word divisors.

use crate::core::{guard, Ctx, Rec};
use crate::h::*;
use crate::uni::*;
use dashu_base::{DivEuclid, DivRem, DivRemAssign, DivRemEuclid, RemEuclid};
use dashu_int::{fast_div::ConstDivisor, IBig, UBig};
use num_bigint::{BigInt, BigUint, Sign as NSign};
use num_traits::{One, Signed, ToPrimitive, Zero};

const P: &str = "C02";

fn expect_pair_i(rec: &mut Rec, site: &str, class: &str, got: Result<(IBig, IBig), String>, q: &BigInt, r: &BigInt, case: &dyn Fn() -> String) {
    rec.step();
    match got {
        Ok((gq, gr)) => {
            let (gq, gr) = (i_to_ref(&gq), i_to_ref(&gr));
            if &gq != q || &gr != r {
                rec.fail(format!("{}|{}|wrong-value|{}", P, site, class), case(), format!("q={} r={}", hex(&gq), hex(&gr)), format!("q={} r={}", hex(q), hex(r)));
            }
        }
        Err(p) => rec.fail(format!("{}|{}|panic|{}", P, site, class), case(), format!("panic: {}", p), format!("q={} r={}", hex(q), hex(r))),
    }
}

fn all_forms(rec: &mut Rec, a: &BigInt, b: &BigInt, class: &str, prims: bool) {
    let case = || format!("{} ÷ {}", hex(a), hex(b));
    let case = &case;
    let (ia, ib) = (ref_to_i(a), ref_to_i(b));
    if b.is_zero() {
        rec.hit("divide-by-zero");
        expect_panic(rec, P, "IBig::div", "divide by zero", guard(|| &ia / &ib), case);
        expect_panic(rec, P, "IBig::rem", "divide by zero", guard(|| &ia % &ib), case);
        expect_panic(rec, P, "IBig::div_rem", "divide by zero", guard(|| (&ia).div_rem(&ib)), case);
        expect_panic(rec, P, "IBig::div_euclid", "divide by zero", guard(|| (&ia).div_euclid(&ib)), case);
        expect_panic(rec, P, "IBig::rem_euclid", "divide by zero", guard(|| (&ia).rem_euclid(&ib)), case);
        expect_panic(rec, P, "IBig::div_rem_euclid", "divide by zero", guard(|| (&ia).div_rem_euclid(&ib)), case);
        if a.sign() != NSign::Minus {
            let ua = ref_to_u(a.magnitude());
            expect_panic(rec, P, "UBig::div", "divide by zero", guard(|| &ua / UBig::ZERO), case);
            expect_panic(rec, P, "UBig::rem", "divide by zero", guard(|| &ua % UBig::ZERO), case);
            expect_panic(rec, P, "UBig::div_rem", "divide by zero", guard(|| (&ua).div_rem(UBig::ZERO)), case);
            expect_panic(rec, P, "UBig::is_multiple_of", "divide by zero", guard(|| ua.is_multiple_of(&UBig::ZERO)), case);
            expect_panic(rec, P, "ConstDivisor::new", "divide by zero", guard(|| ConstDivisor::new(UBig::ZERO).value()), case);
            expect_panic(rec, P, "UBig::div(u8)", "divide by zero", guard(|| &ua / 0u8), case);
            expect_panic(rec, P, "IBig::rem(i32)", "divide by zero", guard(|| &ia % 0i32), case);
        }
        return;
    }
    // reference: truncated (q, r), definition checked on the reference itself
    let (q, r) = (a / b, a % b);
    debug_assert!(&q * b + &r == *a && r.abs() < b.abs() && (r.is_zero() || r.sign() == a.sign()));
    let r_e = if r.sign() == NSign::Minus { &r + b.abs() } else { r.clone() };
    let q_e = (a - &r_e) / b;
    if !(a.abs() <= BigInt::one()) {
        rec.nontrivial();
    }
    if r.is_zero() {
        rec.hit("remainder-zero");
    }
    if r.sign() == NSign::Minus {
        rec.hit("euclid-fixup");
    }

    expect_i(rec, P, "IBig::div", class, guard(|| &ia / &ib), &q, case);
    expect_i(rec, P, "IBig::rem", class, guard(|| &ia % &ib), &r, case);
    expect_i(rec, P, "IBig::div(val,val)", class, guard(|| ia.clone() / ib.clone()), &q, case);
    expect_i(rec, P, "IBig::rem(val,val)", class, guard(|| ia.clone() % ib.clone()), &r, case);
    expect_i(rec, P, "IBig::rem(ref,val)", class, guard(|| &ia % ib.clone()), &r, case);
    expect_i(rec, P, "IBig::div(val,ref)", class, guard(|| ia.clone() / &ib), &q, case);
    expect_pair_i(rec, "IBig::div_rem", class, guard(|| (&ia).div_rem(&ib)), &q, &r, case);
    expect_pair_i(rec, "IBig::div_rem(val,val)", class, guard(|| ia.clone().div_rem(ib.clone())), &q, &r, case);
    expect_pair_i(rec, "IBig::div_rem(ref,val)", class, guard(|| (&ia).div_rem(ib.clone())), &q, &r, case);
    expect_pair_i(rec, "IBig::div_rem(val,ref)", class, guard(|| ia.clone().div_rem(&ib)), &q, &r, case);
    expect_pair_i(rec, "IBig::div_rem_assign", class, guard(|| { let mut t = ia.clone(); let r = t.div_rem_assign(&ib); (t, r) }), &q, &r, case);
    expect_pair_i(rec, "IBig::div_assign+rem_assign", class, guard(|| { let mut t = ia.clone(); t /= &ib; let mut u = ia.clone(); u %= &ib; (t, u) }), &q, &r, case);
    expect_i(rec, P, "IBig::div_euclid", class, guard(|| (&ia).div_euclid(&ib)), &q_e, case);
    expect_u(rec, P, "IBig::rem_euclid", class, guard(|| (&ia).rem_euclid(&ib)), r_e.magnitude(), case);
    expect_pair_i(rec, "IBig::div_rem_euclid", class, guard(|| { let (q, r) = (&ia).div_rem_euclid(&ib); (q, IBig::from(r)) }), &q_e, &r_e, case);
    expect_pair_i(rec, "IBig::div_rem_euclid(val,val)", class, guard(|| { let (q, r) = ia.clone().div_rem_euclid(ib.clone()); (q, IBig::from(r)) }), &q_e, &r_e, case);
    expect_eq(rec, P, "IBig::is_multiple_of", class, guard(|| ia.is_multiple_of(&ib)), &r.is_zero(), case);

    let bm = ref_to_u(b.magnitude());
    // IBig by UBig
    if b.sign() == NSign::Plus {
        expect_pair_i(rec, "IBig::div_rem(UBig)", class, guard(|| (&ia).div_rem(&bm)), &q, &r, case);
        expect_i(rec, P, "IBig::div(UBig)", class, guard(|| &ia / &bm), &q, case);
        expect_i(rec, P, "IBig::rem(UBig)", class, guard(|| &ia % &bm), &r, case);
        // prepared divisor
        let cd = guard(|| ConstDivisor::new(bm.clone()));
        match cd {
            Ok(cd) => {
                expect_pair_i(rec, "IBig::div_rem(ConstDivisor)", class, guard(|| (&ia).div_rem(&cd)), &q, &r, case);
                expect_pair_i(rec, "IBig::div,rem(ConstDivisor)", class, guard(|| (&ia / &cd, &ia % &cd)), &q, &r, case);
                expect_pair_i(rec, "IBig::div_rem_assign(ConstDivisor)", class, guard(|| { let mut t = ia.clone(); let r = t.div_rem_assign(&cd); (t, r) }), &q, &r, case);
                expect_u(rec, P, "ConstDivisor::value", class, guard(|| cd.value()), b.magnitude(), case);
                if a.sign() != NSign::Minus {
                    let ua = ref_to_u(a.magnitude());
                    expect_pair_i(rec, "UBig::div_rem(ConstDivisor)", class, guard(|| { let (q, r) = (&ua).div_rem(&cd); (q.into(), r.into()) }), &q, &r, case);
                    expect_pair_i(rec, "UBig::div,rem(ConstDivisor)", class, guard(|| ((ua.clone() / &cd).into(), (ua.clone() % &cd).into())), &q, &r, case);
                    expect_pair_i(rec, "UBig::div_assign,rem_assign(ConstDivisor)", class, guard(|| { let mut t = ua.clone(); t /= &cd; let mut u = ua.clone(); u %= &cd; (t.into(), u.into()) }), &q, &r, case);
                }
            }
            Err(p) => rec.fail(format!("{}|ConstDivisor::new|panic|{}", P, class), case(), p, "a prepared divisor"),
        }
    }
    if a.sign() != NSign::Minus {
        let ua = ref_to_u(a.magnitude());
        // UBig by IBig: quotient signed, remainder unsigned
        expect_pair_i(rec, "UBig::div_rem(IBig)", class, guard(|| { let (q, r) = (&ua).div_rem(&ib); (q, r.into()) }), &q, &r, case);
        expect_i(rec, P, "UBig::div(IBig)", class, guard(|| &ua / &ib), &q, case);
        expect_u(rec, P, "UBig::rem(IBig)", class, guard(|| &ua % &ib), r.magnitude(), case);
        if b.sign() == NSign::Plus {
            expect_u(rec, P, "UBig::div", class, guard(|| &ua / &bm), q.magnitude(), case);
            expect_u(rec, P, "UBig::rem", class, guard(|| &ua % &bm), r.magnitude(), case);
            expect_u(rec, P, "UBig::div(val,val)", class, guard(|| ua.clone() / bm.clone()), q.magnitude(), case);
            expect_u(rec, P, "UBig::rem(val,ref)", class, guard(|| ua.clone() % &bm), r.magnitude(), case);
            expect_u(rec, P, "UBig::rem(ref,val)", class, guard(|| &ua % bm.clone()), r.magnitude(), case);
            expect_pair_i(rec, "UBig::div_rem", class, guard(|| { let (q, r) = (&ua).div_rem(&bm); (q.into(), r.into()) }), &q, &r, case);
            expect_pair_i(rec, "UBig::div_rem(val,val)", class, guard(|| { let (q, r) = ua.clone().div_rem(bm.clone()); (q.into(), r.into()) }), &q, &r, case);
            expect_pair_i(rec, "UBig::div_rem(val,ref)", class, guard(|| { let (q, r) = ua.clone().div_rem(&bm); (q.into(), r.into()) }), &q, &r, case);
            expect_pair_i(rec, "UBig::div_rem(ref,val)", class, guard(|| { let (q, r) = (&ua).div_rem(bm.clone()); (q.into(), r.into()) }), &q, &r, case);
            expect_pair_i(rec, "UBig::div_rem_euclid", class, guard(|| { let (q, r) = (&ua).div_rem_euclid(&bm); (q.into(), r.into()) }), &q, &r, case);
            expect_pair_i(rec, "UBig::div_euclid,rem_euclid", class, guard(|| ((&ua).div_euclid(&bm).into(), (&ua).rem_euclid(&bm).into())), &q, &r, case);
            expect_pair_i(rec, "UBig::div_rem_assign", class, guard(|| { let mut t = ua.clone(); let r = t.div_rem_assign(&bm); (t.into(), r.into()) }), &q, &r, case);
            expect_eq(rec, P, "UBig::is_multiple_of", class, guard(|| ua.is_multiple_of(&bm)), &r.is_zero(), case);
            if let Some(d) = b.to_u128() {
                if WBITS == 64 || d <= u64::MAX as u128 {
                    expect_eq(rec, P, "UBig::is_multiple_of_const", class, guard(|| ua.is_multiple_of_const(d as dashu_int::DoubleWord)), &r.is_zero(), case);
                    expect_eq(rec, P, "IBig::is_multiple_of_const", class, guard(|| (-IBig::from(ua.clone())).is_multiple_of_const(d as dashu_int::DoubleWord)), &r.is_zero(), case);
                }
            }
        }
    }
    if prims {
        // primitive divisors (conversion-macro forms)
        if let Some(d) = b.to_i64() {
            expect_pair_i(rec, "IBig::div_rem(i64)", class, guard(|| { let (q, r) = (&ia).div_rem(d); (q, r.into()) }), &q, &r, case);
            expect_i(rec, P, "IBig::div(i64)", class, guard(|| &ia / d), &q, case);
            expect_eq(rec, P, "IBig::rem(i64)", class, guard(|| BigInt::from(&ia % d)), &r, case);
            expect_pair_i(rec, "IBig::div_rem_assign(i64)", class, guard(|| { let mut t = ia.clone(); let r = t.div_rem_assign(d); (t, r.into()) }), &q, &r, case);
        }
        if let Some(d) = b.to_i128() {
            expect_pair_i(rec, "IBig::div_rem(i128)", class, guard(|| { let (q, r) = (&ia).div_rem(d); (q, r.into()) }), &q, &r, case);
        }
        if let (Some(d), true) = (b.to_u64(), a.sign() != NSign::Minus) {
            let ua = ref_to_u(a.magnitude());
            expect_pair_i(rec, "UBig::div_rem(u64)", class, guard(|| { let (q, r) = (&ua).div_rem(d); (q.into(), r.into()) }), &q, &r, case);
            expect_u(rec, P, "UBig::div(u64)", class, guard(|| &ua / d), q.magnitude(), case);
            expect_eq(rec, P, "UBig::rem(u64)", class, guard(|| BigInt::from(&ua % d)), &r, case);
            expect_pair_i(rec, "IBig::div_rem(u64) nonneg", class, guard(|| { let (q, r) = (&ia).div_rem(d); (q, r.into()) }), &q, &r, case);
        }
        if let (Some(d), true) = (b.to_u128(), a.sign() != NSign::Minus) {
            let ua = ref_to_u(a.magnitude());
            expect_pair_i(rec, "UBig::div_rem(u128)", class, guard(|| { let (q, r) = (&ua).div_rem(d); (q.into(), r.into()) }), &q, &r, case);
            expect_pair_i(rec, "UBig::div_rem_assign(u128)", class, guard(|| { let mut t = ua.clone(); let r = t.div_rem_assign(d); (t.into(), r.into()) }), &q, &r, case);
        }
        // primitive dividend forms:  u64 / UBig -> u64
        if let (Some(n), Some(_)) = (a.to_u64(), b.to_biguint()) {
            expect_eq(rec, P, "u64::div(UBig)", class, guard(|| BigInt::from(n / &bm)), &q, case);
        }
        // (i64::MIN / -1 has no i64 quotient: like the primitive operator the form may panic there,
        //  the property only speaks about returned (q, r))
        if let (Some(n), Some(_)) = (a.to_i64(), q.to_i64()) {
            expect_eq(rec, P, "i64::div(IBig)", class, guard(|| BigInt::from(n / &ib)), &q, case);
        }
    }
}

pub fn run(ctx: &mut Ctx) {
    ctx.rule = "closed universe: all (a, b) in signed I3 x signed I3 (b = 0 must panic) through every division form (operators, DivRem/DivEuclid/RemEuclid/DivRemEuclid/DivRemAssign in all ownership forms, UBig/IBig/mixed, primitive divisors, ConstDivisor, is_multiple_of); shape universe: dividends constructed as q*b + r for every (divisor length, quotient length, pattern, remainder kind) on both sides of the 32-word schoolbook / divide-and-conquer switch; all power-of-two divisors 2^k, k <= 192, and 2^k +- 1. non-trivial = |a| > 1".into();
    ctx.assume("reference (q, r) from num_bigint; its defining identity a = q*b + r, |r| < |b|, sign(r) = sign(a) is asserted on the reference for every case in debug builds and (q, r) is unique under it");
    let i3 = signed(&i3_mags());
    let n = i3.len() as u64;
    let i3r = &i3;
    ctx.sweep("closed.I3xI3", n * n, |i, rec| {
        let (a, b) = (&i3r[(i / n) as usize], &i3r[(i % n) as usize]);
        let class = lens_class(a.magnitude(), b.magnitude());
        all_forms(rec, a, b, &class, true);
        rec.sample(|| format!("{} ÷ {} (all forms)", hex(a), hex(b)));
    });
    ctx.require_classes("closed.I3xI3", &["divide-by-zero", "remainder-zero", "euclid-fixup"]);

    // power-of-two (double-)word divisors and neighbours: shortcut branches
    let mut pow_divs: Vec<BigInt> = vec![];
    for k in 0..=192u64 {
        let p = BigInt::from(pow2(k));
        pow_divs.push(p.clone());
        if k >= 2 {
            pow_divs.push(&p - 1);
        }
        pow_divs.push(&p + 1);
        pow_divs.push(-p);
    }
    let mut dividends: Vec<BigInt> = vec![];
    for len in [1usize, 2, 3, 4, 5, 7] {
        for pat in ["ones", "top1", "alt", "sparse", "lcgA", "lcgSeed"] {
            let v = BigInt::from(shape(len, pat, ctx.seed));
            dividends.push(-v.clone());
            dividends.push(v);
        }
    }
    let (nd, np) = (dividends.len() as u64, pow_divs.len() as u64);
    let (dr, pr) = (&dividends, &pow_divs);
    ctx.sweep("pow2.divisors", nd * np, |i, rec| {
        let (a, b) = (&dr[(i / np) as usize], &pr[(i % np) as usize]);
        let class = format!("pow2:{}", lens_class(a.magnitude(), b.magnitude()));
        all_forms(rec, a, b, &class, true);
        rec.sample(|| format!("{} ÷ {}", hex(a), hex(b)));
    });

    // shape: constructed dividends
    let div_lens: Vec<usize> = ctx.pick(vec![1, 2, 3, 4, 31, 32, 33, 34, 65, 100], vec![1, 2, 3, 4, 5, 8, 16, 31, 32, 33, 34, 35, 64, 65, 66, 67, 100, 130, 200, 400]);
    let quo_lens: Vec<usize> = ctx.pick(vec![0, 1, 2, 31, 32, 33, 34, 66, 130], vec![0, 1, 2, 3, 8, 31, 32, 33, 34, 35, 65, 66, 67, 130, 131, 260, 600]);
    let pats: Vec<&'static str> = ctx.pick(vec!["ones", "top1", "topmax_low0", "lcgA", "lcgSeed"], PATTERNS.to_vec());
    let bs = shapes(&div_lens, &pats, ctx.seed);
    let qs = shapes(&quo_lens, &pats, ctx.seed ^ 0x5555);
    let (nb, nq) = (bs.len() as u64, qs.len() as u64);
    ctx.bound("divisor_lengths_words", serde_json::json!(div_lens));
    ctx.bound("quotient_lengths_words", serde_json::json!(quo_lens));
    let (bsr, qsr) = (&bs, &qs);
    ctx.sweep("shape.constructed", nb * nq * 4 * 2, |i, rec| {
        let [bi, qi, rk, sg] = unflatten(i, [nb, nq, 4, 2]);
        let (b, q) = (&bsr[bi], &qsr[qi]);
        let r: BigUint = match rk {
            0 => BigUint::zero(),
            1 => BigUint::one(),
            2 => &b.v - 1u32,
            _ => &b.v >> 1,
        };
        if r >= b.v {
            return; // b = 1
        }
        let a = BigInt::from(&q.v * &b.v + &r);
        let (a, bb) = if sg == 0 { (a, BigInt::from(b.v.clone())) } else { (-a, -BigInt::from(b.v.clone())) };
        let class = format!("b={}w,q={}w", if b.len <= 2 { "1-2" } else if b.len <= 32 { "3-32" } else { "33+" }, if q.len <= 32 { "0-32" } else { "33+" });
        all_forms(rec, &a, &bb, &class, false);
        // the constructed quotient must come back
        rec.hit(if b.len > 32 && q.len > 32 { "divide-and-conquer" } else if b.len >= 3 { "schoolbook-large" } else { "word/dword divisor" });
        if b.pat == "ones" || b.pat == "topmax_low0" {
            rec.hit("normalized-divisor-top-word-max");
        }
        rec.sample(|| format!("({}w:{} * {}w:{} + r{}) ÷ same divisor, sign {}", q.len, q.pat, b.len, b.pat, rk, sg));
    });
    ctx.require_classes("shape.constructed", &["divide-and-conquer", "schoolbook-large", "word/dword divisor", "normalized-divisor-top-word-max"]);

    // quotient-digit correction stress: dividends just below/above multiples, divisor top words near 2^63 / MAX
    let mut tricky: Vec<(BigInt, BigInt)> = vec![];
    let tops: [u64; 6] = [1 << 63, (1 << 63) + 1, u64::MAX, u64::MAX - 1, 0x8000_0000_FFFF_FFFF, 0xFFFF_FFFF_0000_0000];
    let lows: [u64; 5] = [0, 1, u64::MAX, 1 << 63, 0xFFFF_FFFF];
    for &t in &tops {
        for &m in &lows {
            for &l in &lows {
                for blen in [2usize, 3, 4] {
                    let mut w = vec![l; blen];
                    w[blen - 1] = t;
                    if blen >= 3 {
                        w[blen - 2] = m;
                    }
                    let b = w64_to_ref(&w);
                    for qv in [u64::MAX, 1u64 << 63, (1 << 63) - 1, u64::MAX - 1] {
                        for extra in 0..2usize {
                            let mut qw = vec![qv; 1 + extra];
                            qw[0] = qv;
                            let q = w64_to_ref(&qw);
                            for rr in [BigUint::zero(), &b - 1u32, BigUint::one()] {
                                if rr < b {
                                    tricky.push((BigInt::from(&q * &b + &rr), BigInt::from(b.clone())));
                                }
                            }
                        }
                    }
                }
            }
        }
    }
    let nt = tricky.len() as u64;
    let tr = &tricky;
    ctx.sweep("qhat.correction", nt, |i, rec| {
        let (a, b) = &tr[i as usize];
        all_forms(rec, a, b, "qhat", false);
        rec.sample(|| format!("{} ÷ {}", hex(a), hex(b)));
    });
}
