//! C01 — integer ring arithmetic (+ − × sqr cubic pow) is exact for every operand size and sign.
//! Closed universe I3² (depth 1), I2³ (depth 2 chains), shape universe across the algorithm
//! thresholds, pow grid.  Oracle: num_bigint through raw words.

use crate::core::{guard, Ctx, Rec};
use crate::h::*;
use crate::uni::*;
use dashu_int::{IBig, UBig};
use num_bigint::{BigInt, BigUint, Sign as NSign};
use num_traits::{One, Pow, Signed, Zero};

const P: &str = "C01";

fn nonneg(x: &BigInt) -> bool {
    x.sign() != NSign::Minus
}

fn pair_ops(rec: &mut Rec, a: &BigInt, b: &BigInt, class: &str, with_mixed: bool) {
    let case = |op: &str| format!("{} {} {}", hex(a), op, hex(b));
    let (ia, ib) = (ref_to_i(a), ref_to_i(b));
    let sum = a + b;
    let dif = a - b;
    let prd = a * b;
    expect_i(rec, P, "IBig::add", class, guard(|| &ia + &ib), &sum, || case("+"));
    expect_i(rec, P, "IBig::sub", class, guard(|| &ia - &ib), &dif, || case("-"));
    expect_i(rec, P, "IBig::mul", class, guard(|| &ia * &ib), &prd, || case("*"));
    // by-value forms exercise the in-place buffers of either operand
    expect_i(rec, P, "IBig::add(val,val)", class, guard(|| ia.clone() + ib.clone()), &sum, || case("+"));
    expect_i(rec, P, "IBig::sub(val,val)", class, guard(|| ia.clone() - ib.clone()), &dif, || case("-"));
    expect_i(rec, P, "IBig::sub(ref,val)", class, guard(|| &ia - ib.clone()), &dif, || case("-"));
    expect_i(rec, P, "IBig::sub(val,ref)", class, guard(|| ia.clone() - &ib), &dif, || case("-"));
    expect_i(rec, P, "IBig::add(ref,val)", class, guard(|| &ia + ib.clone()), &sum, || case("+"));
    expect_i(rec, P, "IBig::add(val,ref)", class, guard(|| ia.clone() + &ib), &sum, || case("+"));
    if nonneg(a) && nonneg(b) {
        let (ua, ub) = (ref_to_u(a.magnitude()), ref_to_u(b.magnitude()));
        expect_u(rec, P, "UBig::add", class, guard(|| &ua + &ub), sum.magnitude(), || case("+"));
        expect_u(rec, P, "UBig::mul", class, guard(|| &ua * &ub), prd.magnitude(), || case("*"));
        expect_u(rec, P, "UBig::mul(val,val)", class, guard(|| ua.clone() * ub.clone()), prd.magnitude(), || case("*"));
        if a >= b {
            expect_u(rec, P, "UBig::sub", class, guard(|| &ua - &ub), dif.magnitude(), || case("-"));
            expect_u(rec, P, "UBig::sub(val,val)", class, guard(|| ua.clone() - ub.clone()), dif.magnitude(), || case("-"));
            expect_u(rec, P, "UBig::sub(ref,val)", class, guard(|| &ua - ub.clone()), dif.magnitude(), || case("-"));
            expect_u(rec, P, "UBig::sub(val,ref)", class, guard(|| ua.clone() - &ub), dif.magnitude(), || case("-"));
        } else {
            rec.hit("ubig-underflow-panics");
            expect_panic(rec, P, "UBig::sub", "underflow", guard(|| &ua - &ub), || case("-"));
            expect_panic(rec, P, "UBig::sub(val,val)", "underflow", guard(|| ua.clone() - ub.clone()), || case("-"));
            expect_panic(rec, P, "UBig::sub(ref,val)", "underflow", guard(|| &ua - ub.clone()), || case("-"));
            expect_panic(rec, P, "UBig::sub(val,ref)", "underflow", guard(|| ua.clone() - &ub), || case("-"));
            expect_panic(rec, P, "UBig::sub_assign", "underflow", guard(|| { let mut t = ua.clone(); t -= &ub; t }), || case("-="));
        }
    }
    if with_mixed && nonneg(a) {
        let ua = ref_to_u(a.magnitude());
        expect_i(rec, P, "UBig+IBig", class, guard(|| &ua + &ib), &sum, || case("+"));
        expect_i(rec, P, "UBig-IBig", class, guard(|| &ua - &ib), &dif, || case("-"));
        expect_i(rec, P, "UBig*IBig", class, guard(|| &ua * &ib), &prd, || case("*"));
        expect_i(rec, P, "IBig-UBig", class, guard(|| &ib - &ua), &(-&dif), || case("(rev)-"));
    }
    // growth / shrink classes for the vacuity guard
    let (la, lb, ls) = (word_len(a.magnitude()), word_len(b.magnitude()), word_len(sum.magnitude()));
    if ls > la.max(lb) {
        rec.hit("add-carry-grows-length");
        if la.max(lb) == 2 {
            rec.hit("add-inline-to-heap");
        }
    }
    if ls < la.max(lb) {
        rec.hit("add-cancel-shrinks-length");
        if la.max(lb) >= 3 && ls <= 2 {
            rec.hit("add-heap-to-inline");
        }
    }
    if la + lb >= 3 && la <= 2 && lb <= 2 {
        rec.hit("mul-inline-to-heap");
    }
    if !(a.abs() <= BigInt::one() && b.abs() <= BigInt::one()) {
        rec.nontrivial();
    }
}

pub fn run(ctx: &mut Ctx) {
    ctx.rule = "closed universe: all ordered pairs of signed I3 (magnitudes of <=3 64-bit words over the 9-atom alphabet) for + - * in IBig/UBig/mixed forms; depth 2: all triples of signed I2 through two chained operations; shape universe: length class x word pattern pairs across schoolbook/Karatsuba/Toom-3/chunking thresholds for mul, sqr, cubic; pow over a base x exponent grid. non-trivial = operands not both in {0,+-1} and result compared with num_bigint".into();
    ctx.assume("num_bigint 0.4 is a correct reference (cross-checked against i128 on the <=1-word sub-universe in every run)");
    let i3 = signed(&i3_mags());
    let n = i3.len() as u64;
    ctx.bound("I3_values", n);

    // reference self-check: BigInt vs i128 on small values
    {
        let small: Vec<i128> = vec![0, 1, -1, 2, -2, 0xFFFF_FFFF, -0xFFFF_FFFF, 1 << 32, i64::MAX as i128, -(i64::MAX as i128), 1 << 62];
        for &x in &small {
            for &y in &small {
                let (bx, by) = (BigInt::from(x), BigInt::from(y));
                if bx.clone() + by.clone() != BigInt::from(x + y) || bx.clone() - by.clone() != BigInt::from(x - y) || bx * by != BigInt::from(x * y) {
                    ctx.machinery("reference self-check failed (BigInt vs i128)");
                }
            }
        }
    }

    // (a) depth 1, closed
    let i3r = &i3;
    ctx.sweep("closed.I3xI3", n * n, |i, rec| {
        let (a, b) = (&i3r[(i / n) as usize], &i3r[(i % n) as usize]);
        let class = lens_class(a.magnitude(), b.magnitude());
        pair_ops(rec, a, b, &class, true);
        rec.sample(|| format!("{} (+,-,*) {}", hex(a), hex(b)));
    });
    ctx.require_classes("closed.I3xI3", &["add-carry-grows-length", "add-inline-to-heap", "add-cancel-shrinks-length", "add-heap-to-inline", "mul-inline-to-heap", "ubig-underflow-panics"]);

    // (a2) depth 2 over signed I2: (a op1 b) op2 c with the intermediate dashu value re-used
    let i2 = signed(&closed_mags(&A9, 2));
    let m = i2.len() as u64;
    let i2r = &i2;
    ctx.sweep("depth2.I2xI2xI2", m * m * m, |i, rec| {
        let [x, y, z] = unflatten(i, [m, m, m]);
        let (a, b, c) = (&i2r[x], &i2r[y], &i2r[z]);
        let (ia, ib, ic) = (ref_to_i(a), ref_to_i(b), ref_to_i(c));
        let firsts: [(&str, BigInt, Result<IBig, String>); 3] = [
            ("+", a + b, guard(|| ia.clone() + &ib)),
            ("-", a - b, guard(|| ia.clone() - &ib)),
            ("*", a * b, guard(|| ia.clone() * &ib)),
        ];
        for (o1, r1, d1) in firsts {
            let d1 = match d1 {
                Ok(v) => v,
                Err(p) => {
                    rec.fail(format!("{}|IBig::{}|panic|depth2", P, o1), format!("{} {} {}", hex(a), o1, hex(b)), p, hex(&r1));
                    continue;
                }
            };
            let case = |o2: &str| format!("({} {} {}) {} {}", hex(a), o1, hex(b), o2, hex(c));
            // in-place forms on the produced value (its buffer/capacity comes from the first op)
            expect_i(rec, P, "IBig::add_assign", "depth2", guard(|| { let mut t = d1.clone(); t += &ic; t }), &(&r1 + c), || case("+="));
            expect_i(rec, P, "IBig::sub_assign", "depth2", guard(|| { let mut t = d1.clone(); t -= &ic; t }), &(&r1 - c), || case("-="));
            expect_i(rec, P, "IBig::mul_assign", "depth2", guard(|| { let mut t = d1.clone(); t *= &ic; t }), &(&r1 * c), || case("*="));
            expect_i(rec, P, "IBig::sub(rev)", "depth2", guard(|| &ic - d1.clone()), &(c - &r1), || case("(rev)-"));
        }
        rec.nontrivial();
        rec.sample(|| format!("({} op1 {}) op2 {}", hex(a), hex(b), hex(c)));
    });

    // (b) shape universe
    let lens_q: Vec<usize> = vec![1, 2, 3, 4, 5, 23, 24, 25, 26, 30, 31, 47, 48, 49, 50, 96, 97, 191, 192, 193, 194, 385, 577, 1025];
    let mut lens = lens_q.clone();
    if !ctx.quick() {
        lens.extend_from_slice(&[6, 7, 8, 12, 16, 32, 33, 64, 65, 100, 128, 129, 256, 300, 384, 386, 578, 769, 1023, 1024, 1025, 1153, 2049]);
        lens.sort();
    }
    let pats: Vec<&'static str> = if ctx.quick() { vec!["ones", "top1", "alt", "sparse", "lcgA", "lcgSeed"] } else { PATTERNS.to_vec() };
    let sh = shapes(&lens, &pats, ctx.seed);
    let ns = sh.len() as u64;
    ctx.bound("shape_values", ns);
    ctx.bound("shape_max_words", *lens.last().unwrap() as u64);
    let shr = &sh;
    ctx.sweep("shape.mul.pairs", ns * ns, |i, rec| {
        let (a, b) = (&shr[(i / ns) as usize], &shr[(i % ns) as usize]);
        let class = format!("{}x{}", size_class(a.len), size_class(b.len));
        let (ua, ub) = (ref_to_u(&a.v), ref_to_u(&b.v));
        let want = &a.v * &b.v;
        expect_u(rec, P, "UBig::mul", &class, guard(|| &ua * &ub), &want, || format!("{}w:{} * {}w:{}", a.len, a.pat, b.len, b.pat));
        // sign handling on large operands + add/sub with long carry chains
        let (ia, ib) = (-IBig::from(ua.clone()), IBig::from(ub.clone()));
        let (ra, rb) = (-BigInt::from(a.v.clone()), BigInt::from(b.v.clone()));
        expect_i(rec, P, "IBig::mul", &class, guard(|| &ia * &ib), &(&ra * &rb), || format!("-{}w:{} * {}w:{}", a.len, a.pat, b.len, b.pat));
        expect_i(rec, P, "IBig::add", &class, guard(|| &ia + &ib), &(&ra + &rb), || format!("-{}w:{} + {}w:{}", a.len, a.pat, b.len, b.pat));
        expect_i(rec, P, "IBig::sub", &class, guard(|| &ia - &ib), &(&ra - &rb), || format!("-{}w:{} - {}w:{}", a.len, a.pat, b.len, b.pat));
        expect_u(rec, P, "UBig::add", &class, guard(|| &ua + &ub), &(&a.v + &b.v), || format!("{}w:{} + {}w:{}", a.len, a.pat, b.len, b.pat));
        let (lo, hi) = (a.len.min(b.len), a.len.max(b.len));
        rec.hit(match lo {
            0..=24 => "mul-small-operand<=24(schoolbook)",
            25..=192 => "mul-small-operand<=192(karatsuba)",
            _ => "mul-small-operand>192(toom3)",
        });
        if hi >= 2 * lo && lo > 24 {
            rec.hit("mul-unbalanced-chunked");
        }
        if hi > 1024 && lo <= 24 && lo >= 3 {
            rec.hit("mul-schoolbook-chunked(>1024 x <=24 words)");
        }
        if a.len == b.len && a.pat == b.pat {
            rec.hit("mul-equal-operands(square shortcut)");
        }
        rec.nontrivial();
        rec.sample(|| format!("{}w:{} * {}w:{}", a.len, a.pat, b.len, b.pat));
    });
    ctx.require_classes("shape.mul.pairs", &["mul-small-operand<=24(schoolbook)", "mul-small-operand<=192(karatsuba)", "mul-small-operand>192(toom3)", "mul-unbalanced-chunked", "mul-schoolbook-chunked(>1024 x <=24 words)", "mul-equal-operands(square shortcut)"]);

    // operands equal except one word (must not take the square shortcut wrongly), sqr, cubic
    ctx.sweep("shape.sqr.cubic", ns, |i, rec| {
        let a = &shr[i as usize];
        let ua = ref_to_u(&a.v);
        let class = size_class(a.len);
        let sq = &a.v * &a.v;
        expect_u(rec, P, "UBig::sqr", class, guard(|| ua.sqr()), &sq, || format!("sqr {}w:{}", a.len, a.pat));
        expect_u(rec, P, "UBig::mul(self,self)", class, guard(|| &ua * &ua), &sq, || format!("{}w:{} * itself", a.len, a.pat));
        let ia = -IBig::from(ua.clone());
        expect_u(rec, P, "IBig::sqr", class, guard(|| ia.sqr()), &sq, || format!("sqr -{}w:{}", a.len, a.pat));
        let near = &a.v ^ (BigUint::one() << (64 * (a.len / 2)));
        let un = ref_to_u(&near);
        expect_u(rec, P, "UBig::mul(near-equal)", class, guard(|| &ua * &un), &(&a.v * &near), || format!("{}w:{} * same with one bit flipped", a.len, a.pat));
        if a.len <= 400 {
            let cu = &sq * &a.v;
            expect_u(rec, P, "UBig::cubic", class, guard(|| ua.cubic()), &cu, || format!("cubic {}w:{}", a.len, a.pat));
            expect_i(rec, P, "IBig::cubic", class, guard(|| ia.cubic()), &(-BigInt::from(cu)), || format!("cubic -{}w:{}", a.len, a.pat));
        }
        rec.hit(if a.len <= 30 { "sqr<=30(simple)" } else { "sqr>30(via mul)" });
        rec.nontrivial();
        rec.sample(|| format!("sqr/cubic {}w:{}", a.len, a.pat));
    });
    ctx.require_classes("shape.sqr.cubic", &["sqr<=30(simple)", "sqr>30(via mul)"]);

    // (c) pow
    let mut bases: Vec<BigInt> = vec![];
    for v in [0i64, 1, 2, 3, 5, 10, 16, 255, 256, 0xFFFF_FFFF, 0x1_0000_0000, 6, 12, 96, 1 << 20, 3 << 40] {
        bases.push(BigInt::from(v));
    }
    bases.push(BigInt::from(u64::MAX));
    bases.push(BigInt::from(u64::MAX) + 1);
    bases.push(BigInt::from(u64::MAX) + 2);
    bases.push(BigInt::from(u128::MAX));
    bases.push((BigInt::one() << 130) + 12345);
    bases.push((BigInt::from(0xF00Du64) << 200) + (BigInt::one() << 70)); // even, factor 2^70
    bases.push(BigInt::from(shape(5, "lcgA", 0)));
    // sparse double-word bases 2^k + 2^j + c: intermediate products with zero low/high carry words
    for k in [64u64, 65, 96, 100, 107, 120, 126, 127] {
        for low in [BigInt::zero(), BigInt::one(), BigInt::one() << 32u32, BigInt::one() << 63u32, BigInt::from(u64::MAX)] {
            bases.push((BigInt::one() << k) + low);
        }
    }
    bases.push(BigInt::from(shape(2, "alt", 0)));
    bases.push(BigInt::from(shape(2, "sparse", 0)));
    bases.push(BigInt::from(shape(2, "lcgB", 0)));
    bases.sort();
    bases.dedup();
    let nb0 = bases.len();
    for k in 0..nb0 {
        let neg = -bases[k].clone();
        if !neg.is_zero() {
            bases.push(neg);
        }
    }
    let mut exps: Vec<usize> = (0..=70).collect();
    exps.extend_from_slice(&[127, 128, 129, 255, 256, 1000]);
    let (nb, ne) = (bases.len() as u64, exps.len() as u64);
    let max_bits: u64 = ctx.pick(4000 * 64, 20000 * 64);
    ctx.bound("pow_result_bits_cap", max_bits);
    let (br, er) = (&bases, &exps);
    ctx.sweep("pow.grid", nb * ne, |i, rec| {
        let (b, e) = (&br[(i / ne) as usize], er[(i % ne) as usize]);
        if b.bits().max(1) * e as u64 > max_bits {
            rec.hit("pruned-result-too-large");
            return;
        }
        let want = Pow::pow(b.clone(), e as u32);
        let ib = ref_to_i(b);
        expect_i(rec, P, "IBig::pow", "grid", guard(|| ib.pow(e)), &want, || format!("{} ^ {}", hex(b), e));
        if nonneg(b) {
            let ub = ref_to_u(b.magnitude());
            expect_u(rec, P, "UBig::pow", "grid", guard(|| ub.pow(e)), want.magnitude(), || format!("{} ^ {}", hex(b), e));
        }
        if e >= 2 && b.abs() > BigInt::one() {
            rec.nontrivial();
        }
        rec.hit(if b.bits() <= 64 { "pow-word-base" } else if b.bits() <= 128 { "pow-dword-base" } else { "pow-large-base" });
        rec.sample(|| format!("{} ^ {}", hex(b), e));
    });
    ctx.require_classes("pow.grid", &["pow-word-base", "pow-dword-base", "pow-large-base"]);
}
