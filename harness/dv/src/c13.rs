//! C13 — reduced-ring arithmetic (`ConstDivisor::reduce`, `Reduced`, `num_modular::Reducer`) is
//! the homomorphic image of integer arithmetic.
//!
//! Moduli: 1, 2, 3, powers of two, single / double / multi-word (3, 4, 33 … words), odd and even,
//! with and without a normalisation shift, prime and composite (with a known factor, so that
//! non-invertible non-zero residues are reached).  Operands: closed universe signed I3, shape
//! universe up to 34 (thorough 100) words, and modulus-relative values (m-1, m, m+1, m/2, 2m, a
//! factor of m, …) that sit on the conditional-subtract / borrow boundaries.
//! Oracle: num_bigint `mod_floor` of the integer result ("operate, then reduce"), own
//! square-and-multiply / `modpow` for pow, definitions for inv (gcd = 1 <=> Some, a*x = 1) and
//! division (q*b = a, unique because b is a unit).

use crate::core::{guard, Ctx, Rec};
use crate::h::*;
use crate::uni::*;
use dashu_int::{fast_div::ConstDivisor, modular::Reduced, UBig};
use num_bigint::{BigInt, BigUint, Sign as NSign};
use num_integer::Integer;
use num_modular::Reducer;
use num_traits::{One, ToPrimitive, Zero};

const P: &str = "C13";

// ---------------------------------------------------------------------------------------------
// moduli

struct Md {
    v: BigUint,
    vi: BigInt,
    tag: String,
    /// a non-trivial factor (1 < f < m) when one is known
    factor: Option<BigUint>,
    /// signature class: ring kind + shift class
    class: String,
    words: usize,
    shift: usize,
    /// member of the quick-tier modulus list
    core: bool,
}

fn md(tag: &str, v: BigUint, factor: Option<BigUint>) -> Md {
    assert!(!v.is_zero());
    let factor = factor.or_else(|| {
        // trial division by small primes: deterministic, cheap
        for p in [2u32, 3, 5, 7, 11, 13, 17, 19, 23, 29, 31, 37, 41, 43, 47, 53, 59, 61, 67, 71, 73, 79, 83, 89, 97, 101, 257, 641] {
            let p = BigUint::from(p);
            if v > p && (&v % &p).is_zero() {
                return Some(p);
            }
        }
        None
    });
    if let Some(f) = &factor {
        assert!(f > &BigUint::one() && f < &v && (&v % f).is_zero(), "bad factor for {}", tag);
    }
    let words = word_len(&v);
    let shift = (WBITS - (v.bits() as usize % WBITS)) % WBITS;
    let kind = if v.is_one() {
        "m=1"
    } else {
        match words {
            1 => "single",
            2 => "double",
            3..=24 => "large3-24w",
            _ => "large25w+",
        }
    };
    let class = if v.is_one() { kind.to_string() } else { format!("{},{}", kind, if shift == 0 { "shift=0" } else { "shift>0" }) };
    Md { vi: BigInt::from(v.clone()), v, tag: tag.to_string(), factor, class, words, shift, core: true }
}

fn odd(x: BigUint) -> BigUint {
    x | BigUint::one()
}
fn even(x: BigUint) -> BigUint {
    let x = odd(x);
    x - 1u32
}

fn moduli(quick: bool, seed: u64) -> Vec<Md> {
    let p2 = |k: u64| pow2(k);
    let mut v: Vec<Md> = vec![];
    let mut add = |q: bool, tag: &str, val: BigUint, f: Option<BigUint>| {
        if q || !quick {
            let mut m = md(tag, val, f);
            m.core = q;
            v.push(m);
        }
    };
    // single (64-bit logical) word
    add(true, "1", BigUint::one(), None);
    add(true, "2", BigUint::from(2u32), None);
    add(true, "3", BigUint::from(3u32), None);
    for s in [4u32, 5, 6, 7, 8, 12, 15, 16, 100, 255, 256, 257, 10000, 65537] {
        add(s == 12, &s.to_string(), BigUint::from(s), None);
    }
    add(true, "10", BigUint::from(10u32), None);
    add(false, "2^31", p2(31), None);
    add(true, "2^32-5(prime)", p2(32) - 5u32, None);
    add(false, "2^32-1", p2(32) - 1u32, None);
    add(true, "2^32", p2(32), None);
    add(false, "2^32+1", p2(32) + 1u32, None);
    add(false, "2^32+15(prime)", p2(32) + 15u32, None);
    add(true, "2^61-1(prime)", p2(61) - 1u32, None);
    add(false, "2^62", p2(62), None);
    add(false, "2^63-1", p2(63) - 1u32, None);
    add(true, "2^63", p2(63), None);
    add(false, "2^63+1", p2(63) + 1u32, None);
    add(true, "2^64-59(prime)", p2(64) - 59u32, None);
    add(false, "2^64-2", p2(64) - 2u32, None);
    add(true, "2^64-1", p2(64) - 1u32, None);
    // double word
    add(true, "2^64", p2(64), None);
    add(true, "2^64+1", p2(64) + 1u32, Some(BigUint::from(274177u32)));
    add(true, "2^64+13(prime)", p2(64) + 13u32, None);
    add(false, "2^65", p2(65), None);
    add(false, "3*2^64", p2(64) * 3u32, None);
    add(false, "2^96+1", p2(96) + 1u32, None);
    add(true, "2w:lcgA>>5,even", even(shape(2, "lcgA", seed) >> 5u32), None);
    add(false, "2w:lcgB,odd", odd(shape(2, "lcgB", seed)), None);
    add(true, "2^127", p2(127), None);
    add(true, "2^127-1(prime)", p2(127) - 1u32, None);
    add(true, "2^128-159(prime)", p2(128) - 159u32, None);
    add(false, "2^128-2", p2(128) - 2u32, None);
    add(true, "2^128-1", p2(128) - 1u32, None);
    // three words
    add(true, "3w:top1=2^128", shape(3, "top1", seed), None);
    add(true, "3w:top1p1=2^128+1", shape(3, "top1p1", seed), None);
    add(true, "3w:ones=2^192-1", shape(3, "ones", seed), None);
    add(true, "2^191", p2(191), None);
    add(true, "3w:lcgA,odd", odd(shape(3, "lcgA", seed)), None);
    add(true, "3w:lcgA>>7,even", even(shape(3, "lcgA", seed) >> 7u32), None);
    add(true, "3w:lcgSeed,odd", odd(shape(3, "lcgSeed", seed)), None);
    add(false, "3w:alt", shape(3, "alt", seed), None);
    add(false, "3w:sparse", shape(3, "sparse", seed), None);
    add(false, "3w:topmax_low0", shape(3, "topmax_low0", seed), None);
    add(false, "3w:pow2m1_mid", shape(3, "pow2m1_mid", seed), None);
    add(false, "3w:lcgB>>30,odd", odd(shape(3, "lcgB", seed) >> 30u32), None);
    {
        // composite with a multi-word factor: (1-word odd) * (2-word odd)
        let (p, q) = (odd(shape(1, "lcgA", seed)), odd(shape(2, "lcgB", seed) >> 3u32));
        add(true, "3w:P1*Q2", &p * &q, Some(q));
    }
    // four words
    add(true, "4w:top1=2^192", shape(4, "top1", seed), None);
    add(true, "4w:ones=2^256-1", shape(4, "ones", seed), None);
    add(true, "4w:lcgA>>11,odd", odd(shape(4, "lcgA", seed) >> 11u32), None);
    {
        let (p, q) = (odd(shape(2, "lcgA", seed)), odd(shape(2, "lcgB", seed) >> 9u32));
        add(true, "4w:P2*Q2", &p * &q, Some(p));
    }
    add(true, "4w:sparse", shape(4, "sparse", seed), None);
    add(true, "4w:2^255+12345", p2(255) + 12345u32, None);
    add(true, "6w:2^383+1", p2(383) + 1u32, None);
    add(false, "4w:lcgB,even", even(shape(4, "lcgB", seed)), None);
    add(false, "5w:top1", shape(5, "top1", seed), None);
    add(false, "5w:lcgA,odd", odd(shape(5, "lcgA", seed)), None);
    add(false, "2^521-1(prime,9w)", p2(521) - 1u32, None);
    add(false, "2^607-1(prime,10w)", p2(607) - 1u32, None);
    // longer: product 2n words crosses the Karatsuba threshold (24) / division D&C threshold (32)
    for n in [12usize, 16, 23, 24, 25, 31, 32, 34] {
        add(false, &format!("{}w:lcgA,odd", n), odd(shape(n, "lcgA", seed)), None);
    }
    add(true, "33w:top1=2^2048", shape(33, "top1", seed), None);
    add(true, "33w:ones", shape(33, "ones", seed), None);
    add(true, "33w:lcgA,odd", odd(shape(33, "lcgA", seed)), None);
    add(true, "33w:lcgB>>9,even", even(shape(33, "lcgB", seed) >> 9u32), None);
    {
        let (p, q) = (odd(shape(16, "lcgA", seed)), odd(shape(17, "lcgB", seed) >> 20u32));
        add(true, "33w:P16*Q17", &p * &q, Some(p));
    }
    add(false, "2^2203-1(prime,35w)", p2(2203) - 1u32, None);
    add(false, "65w:lcgA,odd", odd(shape(65, "lcgA", seed)), None);
    add(false, "66w:ones", shape(66, "ones", seed), None);
    add(false, "100w:lcgB>>3,even", even(shape(100, "lcgB", seed) >> 3u32), None);
    v
}

// ---------------------------------------------------------------------------------------------
// operands

/// modulus-relative operands: they sit on the wrap / borrow / reduction boundaries of the ring
const NREL: usize = 25;
fn rel(m: &Md, k: usize) -> BigInt {
    let mi = &m.vi;
    let one = BigInt::one();
    let len64 = ((m.v.bits() + 63) / 64).max(1);
    match k {
        0 => mi - 1,
        1 => mi.clone(),
        2 => mi + 1,
        3 => mi - 2,
        4 => mi / 2,
        5 => mi / 2 + 1,
        6 => mi / 2 - 1,
        7 => mi * 2 - 1,
        8 => mi * 2,
        9 => -mi.clone(),
        10 => &one - mi,
        11 => mi * mi - 1,
        12 => (mi << 64) + mi - 1,
        13 => &one << ((m.v.bits() + 1) / 2),
        14 => m.factor.as_ref().map(|f| BigInt::from(f.clone())).unwrap_or_else(BigInt::zero),
        15 => m.factor.as_ref().map(|f| BigInt::from(&m.v / f)).unwrap_or_else(BigInt::zero),
        16 => (&one << (64 * len64)) - 1,
        17 => &one << (64 * len64),
        18 => m.factor.as_ref().map(|f| BigInt::from(f.clone()) * BigInt::from(-3)).unwrap_or_else(|| -one.clone()),
        19 => (mi - 1) * (mi - 1),
        // operands of (about) half the modulus length whose square / pairwise product exceeds m:
        // the short-operand paths of mul / sqr that skip the long division
        20 => (&one << (32 * len64)) - 1,
        21 => (&one << (32 * len64)) - 3,
        22 => BigInt::from(m.v.sqrt()),
        23 => BigInt::from(m.v.sqrt()) + 1,
        24 => (&one << (32 * len64 + 32)) - 5,
        _ => unreachable!(),
    }
}

fn operand<'a>(base: &'a [BigInt], m: &Md, i: usize) -> std::borrow::Cow<'a, BigInt> {
    if i < base.len() {
        std::borrow::Cow::Borrowed(&base[i])
    } else {
        std::borrow::Cow::Owned(rel(m, i - base.len()))
    }
}

fn signed_shapes(lens: &[usize], pats: &[&'static str], seed: u64) -> Vec<BigInt> {
    let mut v = vec![];
    for s in shapes(lens, pats, seed) {
        v.push(BigInt::from(s.v.clone()));
        v.push(-BigInt::from(s.v));
    }
    v
}

// ---------------------------------------------------------------------------------------------
// reference

fn rmod(a: &BigInt, m: &Md) -> BigUint {
    let r = a.mod_floor(&m.vi);
    debug_assert!(r.sign() != NSign::Minus);
    r.magnitude().clone()
}

/// own square-and-multiply (independent of num_bigint's Montgomery `modpow`)
fn naive_modpow(b: &BigUint, e: &BigUint, m: &BigUint) -> BigUint {
    let mut r = BigUint::one() % m;
    let b = b % m;
    for i in (0..e.bits()).rev() {
        r = &r * &r % m;
        if e.bit(i) {
            r = r * &b % m;
        }
    }
    r
}

fn one_mod(m: &Md) -> BigUint {
    if m.v.is_one() {
        BigUint::zero()
    } else {
        BigUint::one()
    }
}

// ---------------------------------------------------------------------------------------------
// judging helpers

fn res(r: Result<Reduced<'_>, String>) -> Result<UBig, String> {
    r.and_then(|x| guard(move || x.residue()))
}

fn exp_r(rec: &mut Rec, site: &str, class: &str, got: Result<Reduced<'_>, String>, want: &BigUint, case: &dyn Fn() -> String) -> bool {
    expect_u(rec, P, site, class, res(got), want, case)
}

/// result of a `Reducer` method: must be a valid reduced form whose residue is `want`
fn exp_red(rec: &mut Rec, ring: &ConstDivisor, site: &str, class: &str, got: Result<UBig, String>, want: &BigUint, case: &dyn Fn() -> String) -> bool {
    match got {
        Ok(t) => {
            rec.step();
            match guard(|| Reducer::<UBig>::check(ring, &t)) {
                Ok(true) => {}
                Ok(false) => {
                    rec.fail(format!("{}|{}|invalid-form|{}", P, site, class), case(), format!("check() = false for the returned form {}", hexu(&u_to_ref(&t))), "a valid reduced form");
                    return false;
                }
                Err(p) => {
                    rec.fail(format!("{}|Reducer::check|panic|{}", P, class), case(), format!("panic: {}", p), "true");
                    return false;
                }
            }
            expect_u(rec, P, site, class, guard(|| Reducer::<UBig>::residue(ring, t)), want, case)
        }
        Err(p) => {
            rec.step();
            rec.fail(format!("{}|{}|panic|{}", P, site, class), case(), format!("panic: {}", p), hexu(want));
            false
        }
    }
}

/// inv oracle: Some(x) <=> gcd(a, m) = 1, and then 0 <= x < m and a*x = 1 (mod m)
fn judge_inv(rec: &mut Rec, site: &str, class: &str, got: Result<Option<UBig>, String>, ra: &BigUint, m: &Md, case: &dyn Fn() -> String) {
    rec.step();
    let g = ra.gcd(&m.v);
    let unit = g.is_one();
    match got {
        Err(p) => rec.fail(format!("{}|{}|panic|{}", P, site, class), case(), format!("panic: {}", p), if unit { "Some(inverse)" } else { "None" }),
        Ok(None) => {
            if unit {
                rec.fail(format!("{}|{}|wrong-value|{},unit->None", P, site, class), case(), "None", "Some(x) with a*x = 1 (mod m), because gcd(a, m) = 1");
            }
        }
        Ok(Some(x)) => {
            let x = u_to_ref(&x);
            if !unit {
                rec.fail(format!("{}|{}|wrong-value|{},non-unit->Some", P, site, class), case(), format!("Some({})", hexu(&x)), format!("None, because gcd(a, m) = {}", hexu(&g)));
            } else if x >= m.v {
                rec.fail(format!("{}|{}|wrong-value|{},out-of-range", P, site, class), case(), format!("Some({})", hexu(&x)), "an inverse in [0, m)");
            } else if (ra * &x) % &m.v != one_mod(m) {
                rec.fail(format!("{}|{}|wrong-value|{},not-an-inverse", P, site, class), case(), format!("Some({}), a*x mod m = {}", hexu(&x), hexu(&((ra * &x) % &m.v))), "a*x = 1 (mod m)");
            }
        }
    }
}

/// division oracle: b unit => the unique q in [0, m) with q*b = a (mod m); otherwise a panic
fn judge_div(rec: &mut Rec, site: &str, class: &str, got: Result<UBig, String>, ra: &BigUint, rb: &BigUint, unit: bool, m: &Md, case: &dyn Fn() -> String) {
    if unit {
        rec.step();
        match got {
            Ok(q) => {
                let q = u_to_ref(&q);
                if q >= m.v {
                    rec.fail(format!("{}|{}|wrong-value|{},out-of-range", P, site, class), case(), hexu(&q), "a residue in [0, m)");
                } else if (&q * rb) % &m.v != *ra {
                    rec.fail(format!("{}|{}|wrong-value|{}", P, site, class), case(), format!("q = {}, q*b mod m = {}", hexu(&q), hexu(&((&q * rb) % &m.v))), format!("q with q*b = a = {} (mod m)", hexu(ra)));
                }
            }
            Err(p) => rec.fail(format!("{}|{}|panic|{}", P, site, class), case(), format!("panic: {}", p), "a * inv(b)"),
        }
    } else {
        expect_panic(rec, P, site, &format!("non-invertible divisor,{}", class), got, case);
    }
}

fn ring_of(rec: &mut Rec, m: &Md, case: &dyn Fn() -> String) -> Option<ConstDivisor> {
    match guard(|| ConstDivisor::new(ref_to_u(&m.v))) {
        Ok(r) => Some(r),
        Err(p) => {
            rec.fail(format!("{}|ConstDivisor::new|panic|{}", P, m.class), case(), p, "a ring");
            None
        }
    }
}

fn hit_ring(rec: &mut Rec, m: &Md) {
    rec.hit(match m.words {
        1 => "ring:single",
        2 => "ring:double",
        _ => "ring:large",
    });
    rec.hit(if m.shift == 0 { "shift=0" } else { "shift>0" });
    if m.v.is_one() {
        rec.hit("modulus=1");
    }
}

// ---------------------------------------------------------------------------------------------
// one element: reduce (all source types), residue range, neg, dbl, sqr, inv, eq, clone, Reducer

fn unary(rec: &mut Rec, m: &Md, a: &BigInt) {
    let cls = m.class.as_str();
    let case = || format!("m = {} = {}; a = {}", m.tag, hexu(&m.v), hex(a));
    let case: &dyn Fn() -> String = &case;
    let ring = match ring_of(rec, m, case) {
        Some(r) => r,
        None => return,
    };
    hit_ring(rec, m);
    let ra = rmod(a, m);
    let negative = a.sign() == NSign::Minus;
    if m.v > BigUint::one() && a.magnitude() > &BigUint::one() {
        rec.nontrivial();
    }
    rec.hit(if negative { "reduce:negative" } else if a.magnitude() >= &m.v { "reduce:a>=m" } else { "reduce:a<m" });
    expect_u(rec, P, "ConstDivisor::value", cls, guard(|| ring.value()), &m.v, case);

    let ia = ref_to_i(a);
    let x = match guard(|| ring.reduce(ia.clone())) {
        Ok(x) => x,
        Err(p) => {
            rec.step();
            rec.fail(format!("{}|ConstDivisor::reduce(IBig)|panic|{}", P, cls), case(), p, hexu(&ra));
            return;
        }
    };
    exp_r(rec, "ConstDivisor::reduce(IBig)", cls, Ok(x.clone()), &ra, case);
    expect_u(rec, P, "Reduced::modulus", cls, guard(|| x.modulus()), &m.v, case);
    if !negative {
        let ua = ref_to_u(a.magnitude());
        exp_r(rec, "ConstDivisor::reduce(UBig)", cls, guard(|| ring.reduce(ua.clone())), &ra, case);
    }
    // primitive sources
    macro_rules! prim {
        ($t:ty, $conv:ident) => {
            if let Some(p) = a.$conv() {
                rec.hit(concat!("reduce:", stringify!($t)));
                exp_r(rec, concat!("ConstDivisor::reduce(", stringify!($t), ")"), cls, guard(|| ring.reduce(p)), &ra, case);
            }
        };
    }
    prim!(u8, to_u8);
    prim!(u16, to_u16);
    prim!(u32, to_u32);
    prim!(u64, to_u64);
    prim!(u128, to_u128);
    prim!(usize, to_usize);
    prim!(i8, to_i8);
    prim!(i16, to_i16);
    prim!(i32, to_i32);
    prim!(i64, to_i64);
    prim!(i128, to_i128);
    prim!(isize, to_isize);
    if a.is_zero() || a.is_one() {
        exp_r(rec, "ConstDivisor::reduce(bool)", cls, guard(|| ring.reduce(a.is_one())), &ra, case);
    }

    // neg, dbl, sqr: operate on the integer, then reduce
    let want_neg = rmod(&(-a), m);
    let want_dbl = rmod(&(a * 2), m);
    let want_sqr = rmod(&(a * a), m);
    exp_r(rec, "Reduced::neg", cls, guard(|| -x.clone()), &want_neg, case);
    exp_r(rec, "Reduced::neg(ref)", cls, guard(|| -&x), &want_neg, case);
    exp_r(rec, "Reduced::dbl", cls, guard(|| x.clone().dbl()), &want_dbl, case);
    exp_r(rec, "Reduced::sqr", cls, guard(|| x.sqr()), &want_sqr, case);
    rec.hit(if ra.is_zero() { "neg:zero" } else { "neg:nonzero" });
    rec.hit(if &ra * 2u32 >= m.v { "dbl:wraps" } else { "dbl:no-wrap" });
    rec.hit(if &ra * &ra >= m.v { "sqr:needs-reduction" } else { "sqr:small" });

    // inv
    let unit = ra.gcd(&m.v).is_one();
    rec.hit(if unit {
        "inv:unit"
    } else if ra.is_zero() {
        "inv:zero-residue"
    } else {
        "inv:nonzero-non-unit"
    });
    if m.words >= 3 {
        rec.hit(match word_len(&ra) {
            0 => "inv-large:residue-0w",
            1 => "inv-large:residue-1w(gcd_ext_word)",
            2 => "inv-large:residue-2w(gcd_ext_dword)",
            _ => "inv-large:residue-3w+(gcd_ext_in_place)",
        });
    }
    let inv = guard(|| x.inv());
    let inv_res = match &inv {
        Ok(Some(y)) => guard(|| y.residue()).map(Some),
        Ok(None) => Ok(None),
        Err(p) => Err(p.clone()),
    };
    judge_inv(rec, "Reduced::inv", cls, inv_res, &ra, m, case);
    if let Ok(Some(y)) = &inv {
        if unit {
            // x * inv(x) = 1 through the implementation's own multiplication
            exp_r(rec, "Reduced::mul(x,inv(x))", cls, guard(|| &x * y), &one_mod(m), case);
        }
    }

    // equality is equality of residues
    let same = ref_to_i(&(a + &m.vi));
    let next = ref_to_i(&(a + 1));
    expect_eq(rec, P, "Reduced::eq", cls, guard(|| x == ring.reduce(same.clone())), &true, case);
    expect_eq(rec, P, "Reduced::eq", cls, guard(|| x == ring.reduce(next.clone())), &m.v.is_one(), case);
    expect_eq(rec, P, "Reduced::ne", cls, guard(|| x != ring.reduce(next.clone())), &!m.v.is_one(), case);
    // clone / clone_from keep the element
    exp_r(rec, "Reduced::clone_from", cls, guard(|| { let mut z = ring.reduce(1u8); z.clone_from(&x); z }), &ra, case);

    // num_modular::Reducer view of the same ring (works on non-negative integers)
    if !negative {
        let ua = ref_to_u(a.magnitude());
        expect_u(rec, P, "Reducer::modulus", cls, guard(|| Reducer::<UBig>::modulus(&ring)), &m.v, case);
        let t = match guard(|| Reducer::<UBig>::transform(&ring, ua.clone())) {
            Ok(t) => t,
            Err(p) => {
                rec.step();
                rec.fail(format!("{}|Reducer::transform|panic|{}", P, cls), case(), p, "a reduced form");
                return;
            }
        };
        exp_red(rec, &ring, "Reducer::transform", cls, Ok(t.clone()), &ra, case);
        expect_eq(rec, P, "Reducer::is_zero", cls, guard(|| Reducer::<UBig>::is_zero(&ring, &t)), &ra.is_zero(), case);
        exp_red(rec, &ring, "Reducer::neg", cls, guard(|| Reducer::<UBig>::neg(&ring, t.clone())), &want_neg, case);
        exp_red(rec, &ring, "Reducer::dbl", cls, guard(|| Reducer::<UBig>::dbl(&ring, t.clone())), &want_dbl, case);
        exp_red(rec, &ring, "Reducer::sqr", cls, guard(|| Reducer::<UBig>::sqr(&ring, t.clone())), &want_sqr, case);
        let rinv = guard(|| Reducer::<UBig>::inv(&ring, t.clone()));
        let rinv_res = match rinv {
            Ok(Some(y)) => guard(|| Reducer::<UBig>::residue(&ring, y)).map(Some),
            Ok(None) => Ok(None),
            Err(p) => Err(p),
        };
        judge_inv(rec, "Reducer::inv", cls, rinv_res, &ra, m, case);
    }
}

// ---------------------------------------------------------------------------------------------
// two elements: + - * / == in every ownership form, Reducer binary methods

fn binary(rec: &mut Rec, m: &Md, a: &BigInt, b: &BigInt) {
    let cls = m.class.as_str();
    let case = || format!("m = {} = {}; a = {}; b = {}", m.tag, hexu(&m.v), hex(a), hex(b));
    let case: &dyn Fn() -> String = &case;
    let ring = match ring_of(rec, m, case) {
        Some(r) => r,
        None => return,
    };
    hit_ring(rec, m);
    let (ra, rb) = (rmod(a, m), rmod(b, m));
    let (ia, ib) = (ref_to_i(a), ref_to_i(b));
    let (x, y) = match guard(|| (ring.reduce(ia.clone()), ring.reduce(ib.clone()))) {
        Ok(p) => p,
        Err(p) => {
            rec.step();
            rec.fail(format!("{}|ConstDivisor::reduce(IBig)|panic|{}", P, cls), case(), p, "two ring elements");
            return;
        }
    };
    if m.v > BigUint::one() && !(a.magnitude() <= &BigUint::one() && b.magnitude() <= &BigUint::one()) {
        rec.nontrivial();
    }
    let sum = rmod(&(a + b), m);
    let dif = rmod(&(a - b), m);
    let prd = rmod(&(a * b), m);
    // outcome classes (decided on the reference side)
    let s = &ra + &rb;
    rec.hit(if s == m.v { "add:sum=m" } else if s > m.v { "add:wraps" } else { "add:no-wrap" });
    rec.hit(if ra < rb { "sub:borrows" } else if ra == rb { "sub:equal" } else { "sub:no-borrow" });
    rec.hit(if &ra * &rb >= m.v { "mul:needs-reduction" } else { "mul:small-product" });
    if ra == rb && m.words >= 3 {
        rec.hit("mul:equal-operands(square shortcut)");
    }

    exp_r(rec, "Reduced::add(ref,ref)", cls, guard(|| &x + &y), &sum, case);
    exp_r(rec, "Reduced::add(val,val)", cls, guard(|| x.clone() + y.clone()), &sum, case);
    exp_r(rec, "Reduced::add(val,ref)", cls, guard(|| x.clone() + &y), &sum, case);
    exp_r(rec, "Reduced::add(ref,val)", cls, guard(|| &x + y.clone()), &sum, case);
    exp_r(rec, "Reduced::add_assign(ref)", cls, guard(|| { let mut t = x.clone(); t += &y; t }), &sum, case);
    exp_r(rec, "Reduced::add_assign(val)", cls, guard(|| { let mut t = x.clone(); t += y.clone(); t }), &sum, case);

    exp_r(rec, "Reduced::sub(ref,ref)", cls, guard(|| &x - &y), &dif, case);
    exp_r(rec, "Reduced::sub(val,val)", cls, guard(|| x.clone() - y.clone()), &dif, case);
    exp_r(rec, "Reduced::sub(val,ref)", cls, guard(|| x.clone() - &y), &dif, case);
    exp_r(rec, "Reduced::sub(ref,val)", cls, guard(|| &x - y.clone()), &dif, case);
    exp_r(rec, "Reduced::sub_assign(ref)", cls, guard(|| { let mut t = x.clone(); t -= &y; t }), &dif, case);
    exp_r(rec, "Reduced::sub_assign(val)", cls, guard(|| { let mut t = x.clone(); t -= y.clone(); t }), &dif, case);

    exp_r(rec, "Reduced::mul(ref,ref)", cls, guard(|| &x * &y), &prd, case);
    exp_r(rec, "Reduced::mul(val,val)", cls, guard(|| x.clone() * y.clone()), &prd, case);
    exp_r(rec, "Reduced::mul(val,ref)", cls, guard(|| x.clone() * &y), &prd, case);
    exp_r(rec, "Reduced::mul(ref,val)", cls, guard(|| &x * y.clone()), &prd, case);
    exp_r(rec, "Reduced::mul_assign(ref)", cls, guard(|| { let mut t = x.clone(); t *= &y; t }), &prd, case);
    exp_r(rec, "Reduced::mul_assign(val)", cls, guard(|| { let mut t = x.clone(); t *= y.clone(); t }), &prd, case);

    let unit = rb.gcd(&m.v).is_one();
    rec.hit(if unit { "div:by-unit" } else { "div:by-non-unit(panic)" });
    judge_div(rec, "Reduced::div(ref,ref)", cls, guard(|| (&x / &y).residue()), &ra, &rb, unit, m, case);
    judge_div(rec, "Reduced::div(val,val)", cls, guard(|| (x.clone() / y.clone()).residue()), &ra, &rb, unit, m, case);
    judge_div(rec, "Reduced::div_assign(ref)", cls, guard(|| { let mut t = x.clone(); t /= &y; t.residue() }), &ra, &rb, unit, m, case);
    if unit {
        // (the other three forms forward to the same code; a panicking case costs microseconds,
        // so they are exercised on the returning cases only)
        judge_div(rec, "Reduced::div(val,ref)", cls, guard(|| (x.clone() / &y).residue()), &ra, &rb, unit, m, case);
        judge_div(rec, "Reduced::div(ref,val)", cls, guard(|| (&x / y.clone()).residue()), &ra, &rb, unit, m, case);
        judge_div(rec, "Reduced::div_assign(val)", cls, guard(|| { let mut t = x.clone(); t /= y.clone(); t.residue() }), &ra, &rb, unit, m, case);
    }

    rec.hit(if ra == rb { "eq:true" } else { "eq:false" });
    expect_eq(rec, P, "Reduced::eq", cls, guard(|| x == y), &(ra == rb), case);

    // Reducer: forms of |a|, |b| (transform takes non-negative integers)
    if a.sign() != NSign::Minus && b.sign() != NSign::Minus {
        let (ua, ub) = (ref_to_u(a.magnitude()), ref_to_u(b.magnitude()));
        if let Ok((ta, tb)) = guard(|| (Reducer::<UBig>::transform(&ring, ua.clone()), Reducer::<UBig>::transform(&ring, ub.clone()))) {
            exp_red(rec, &ring, "Reducer::add", cls, guard(|| Reducer::<UBig>::add(&ring, &ta, &tb)), &sum, case);
            exp_red(rec, &ring, "Reducer::sub", cls, guard(|| Reducer::<UBig>::sub(&ring, &ta, &tb)), &dif, case);
            exp_red(rec, &ring, "Reducer::mul", cls, guard(|| Reducer::<UBig>::mul(&ring, &ta, &tb)), &prd, case);
            exp_red(rec, &ring, "Reducer::add_in_place", cls, guard(|| { let mut t = ta.clone(); Reducer::<UBig>::add_in_place(&ring, &mut t, &tb); t }), &sum, case);
            exp_red(rec, &ring, "Reducer::sub_in_place", cls, guard(|| { let mut t = ta.clone(); Reducer::<UBig>::sub_in_place(&ring, &mut t, &tb); t }), &dif, case);
            exp_red(rec, &ring, "Reducer::mul_in_place", cls, guard(|| { let mut t = ta.clone(); Reducer::<UBig>::mul_in_place(&ring, &mut t, &tb); t }), &prd, case);
        }
    }
}

// ---------------------------------------------------------------------------------------------
// pow

fn exp_class(e: &BigUint) -> &'static str {
    if e.is_zero() {
        "e=0"
    } else if e.is_one() {
        "e=1"
    } else if *e == BigUint::from(2u32) {
        "e=2"
    } else {
        match word_len(e) {
            1 => "e:word",
            2 => "e:dword",
            _ => "e:large",
        }
    }
}

fn pow_case(rec: &mut Rec, m: &Md, a: &BigInt, e: &BigUint, etag: &str, with_naive: bool) {
    let ecl = exp_class(e);
    let cls = format!("{},{}", m.class, ecl);
    let cls = cls.as_str();
    let case = || format!("m = {} = {}; a = {}; e = {} = {}", m.tag, hexu(&m.v), hex(a), etag, hexu(e));
    let case: &dyn Fn() -> String = &case;
    let ring = match ring_of(rec, m, case) {
        Some(r) => r,
        None => return,
    };
    hit_ring(rec, m);
    rec.hit(ecl);
    let ra = rmod(a, m);
    let want = ra.modpow(e, &m.v);
    if with_naive && want != naive_modpow(&ra, e, &m.v) {
        rec.fail(format!("{}|harness|reference-disagreement|pow", P), case(), "num_bigint modpow != own square-and-multiply", "the two references agree");
        return;
    }
    if m.v > BigUint::one() && ra > BigUint::one() && *e > BigUint::one() {
        rec.nontrivial();
    }
    let (ia, ue) = (ref_to_i(a), ref_to_u(e));
    exp_r(rec, "Reduced::pow", cls, guard(|| ring.reduce(ia.clone()).pow(&ue)), &want, case);
    exp_red(rec, &ring, "Reducer::pow", cls, guard(|| { let t = Reducer::<UBig>::transform(&ring, ref_to_u(&ra)); Reducer::<UBig>::pow(&ring, t, &ue) }), &want, case);
}

// ---------------------------------------------------------------------------------------------

pub fn run(ctx: &mut Ctx) {
    ctx.rule = "moduli list (1, 2, 3, small composites, 2^k, word / double-word / 3-, 4-, 33-word and longer moduli: odd, even, power of two, with and without normalisation shift, known primes and composites with a known factor) x operands from signed I3 (closed, <=3 words over the 9-atom alphabet), the signed shape universe (length class x word pattern, up to 34 words quick / 100 words thorough) and 20 modulus-relative values (m-1, m, m+1, m/2, 2m, -m, m^2-1, a factor of m, ...): unary sweep = every (modulus, a): reduce from IBig/UBig/all primitive types, residue, modulus, neg, dbl, sqr, inv, eq, clone_from and the num_modular::Reducer unary methods; binary sweep = every (modulus, a, b): + - * / in all six ownership forms, ==, Reducer add/sub/mul (+ _in_place); inv sweep = every I3 modulus x every I3 magnitude; pow sweeps = moduli x bases x exponent list (0 .. multi-word) and exponent bit-length x bit-pattern grid across the window-size switches; mixing sweep = every ordered pair of ring instances x every binary operator form (must panic); Reducer::check sweep on valid and invalid forms. non-trivial = modulus > 1 and an operand outside {0, +-1} (pow: base residue > 1 and exponent > 1)".into();
    ctx.assume("num_bigint 0.4 (mod_floor, gcd, modpow) is a correct reference: cross-checked in every run against u128/i128 arithmetic on a small universe, and modpow against an own square-and-multiply loop on every case of the pow.window sweep and the single/double-word part of pow.grid");
    ctx.assume("the moduli tagged (prime) are known primes (2^32-5, 2^32+15, 2^61-1, 2^64-59, 2^64+13, 2^127-1, 2^128-159, 2^521-1, 2^607-1, 2^2203-1); the oracle never uses primality (inv is judged by gcd), the tag only names the coverage intent");
    ctx.assume("for m = 1 the property is read literally: residues lie in [0, 1) = {0}, and gcd(0, 1) = 1 so inv(0) = Some(0) and 0 / 0 = 0");
    ctx.assume("Reducer::check oracle: a valid reduced form is a value of the image of transform, i.e. r << shift with r < m (shift = leading zeros of the top word of m, the documented normalisation); the run verifies transform(r) = r << shift on every probed r before judging");

    let quick = ctx.quick();
    let mods = moduli(quick, ctx.seed);
    let nm = mods.len() as u64;
    ctx.bound("moduli", nm);
    ctx.bound("moduli_max_words", mods.iter().map(|m| ((m.v.bits() + 63) / 64) as u64).max().unwrap());
    ctx.bound("moduli_tags", serde_json::json!(mods.iter().map(|m| m.tag.clone()).collect::<Vec<_>>()));

    // -----------------------------------------------------------------------------------------
    // reference self-check
    {
        let ms: [u128; 9] = [1, 2, 3, 10, 97, 1 << 32, (1 << 61) - 1, u64::MAX as u128, (1u128 << 64) + 13];
        let xs: [i128; 11] = [0, 1, -1, 2, -2, 96, 97, -98, 0xFFFF_FFFF, -(1i128 << 63), (1i128 << 64) + 5];
        let mut bad = false;
        for &m in &ms {
            let mm = md("self", BigUint::from(m), None);
            for &x in &xs {
                let r = x.rem_euclid(m as i128) as u128;
                bad |= rmod(&BigInt::from(x), &mm) != BigUint::from(r);
                // gcd by Euclid on u128
                let (mut g, mut h) = (r, m);
                while h != 0 {
                    let t = g % h;
                    g = h;
                    h = t;
                }
                bad |= BigUint::from(r).gcd(&mm.v) != BigUint::from(g);
                for &y in &xs {
                    if m <= u64::MAX as u128 {
                        let s = y.rem_euclid(m as i128) as u128;
                        bad |= rmod(&(BigInt::from(x) * BigInt::from(y)), &mm) != BigUint::from(r * s % m);
                        bad |= rmod(&(BigInt::from(x) - BigInt::from(y)), &mm) != BigUint::from((r + m - s) % m);
                    }
                }
                if m <= u64::MAX as u128 {
                    for e in [0u32, 1, 2, 3, 15, 16, 17, 64, 65, 1000] {
                        let mut p: u128 = 1 % m;
                        for _ in 0..e {
                            p = p * r % m;
                        }
                        let eb = BigUint::from(e);
                        bad |= BigUint::from(r).modpow(&eb, &mm.v) != BigUint::from(p);
                        bad |= naive_modpow(&BigUint::from(r), &eb, &mm.v) != BigUint::from(p);
                    }
                }
            }
        }
        if bad {
            ctx.machinery("reference self-check failed (BigInt mod_floor / gcd / modpow vs u128)");
        }
    }

    // -----------------------------------------------------------------------------------------
    // operand universes
    let i3 = signed(&i3_mags());
    let pats_q: Vec<&'static str> = vec!["ones", "top1", "sparse", "lcgA", "lcgSeed"];
    let sh_unary = signed_shapes(&ctx.pick(vec![4, 5, 32, 33, 34], vec![4, 5, 6, 24, 32, 33, 34, 35, 66, 67, 100]), &ctx.pick(pats_q.clone(), PATTERNS.to_vec()), ctx.seed);
    let mut un_base = i3.clone();
    un_base.extend(sh_unary.iter().cloned());
    ctx.bound("operand_max_words", ctx.pick(34u64, 100u64));
    ctx.bound("unary_operands_per_modulus", (un_base.len() + NREL) as u64);

    // (A) unary
    let nu = (un_base.len() + NREL) as u64;
    let (modr, unr) = (&mods, &un_base);
    ctx.sweep("unary", nm * nu, |i, rec| {
        let [mi, ai] = unflatten(i, [nm, nu]);
        let m = &modr[mi];
        let a = operand(unr, m, ai);
        unary(rec, m, &a);
        rec.sample(|| format!("mod {}: reduce/neg/dbl/sqr/inv/eq/Reducer of a = {}", m.tag, hex(&a)));
    });
    ctx.require_classes("unary", &[
        "ring:single", "ring:double", "ring:large", "shift=0", "shift>0", "modulus=1", "reduce:negative", "reduce:a>=m", "reduce:a<m",
        "reduce:u8", "reduce:u64", "reduce:u128", "reduce:i8", "reduce:i64", "reduce:i128", "neg:zero", "neg:nonzero", "dbl:wraps", "dbl:no-wrap",
        "sqr:needs-reduction", "sqr:small", "inv:unit", "inv:zero-residue", "inv:nonzero-non-unit", "inv-large:residue-0w",
        "inv-large:residue-1w(gcd_ext_word)", "inv-large:residue-2w(gcd_ext_dword)", "inv-large:residue-3w+(gcd_ext_in_place)",
    ]);

    // (B) binary.  Small moduli (<= 5 logical words) get the big operand set, long moduli a smaller one.
    let small3: Vec<BigInt> = {
        // 3-word magnitudes over a 4-atom alphabet (the 1- and 2-word part comes from I2)
        let all = closed_mags(&[0, 1, 1 << 63, u64::MAX], 3);
        signed(&all.into_iter().filter(|v| v.bits() > 128).collect::<Vec<_>>())
    };
    let mut bin_small: Vec<BigInt> = signed(&closed_mags(&A9, 2));
    bin_small.extend(small3.iter().cloned());
    bin_small.extend(signed_shapes(&[4, 5, 33, 34], &pats_q, ctx.seed));
    let bin_big: Vec<BigInt> = if quick {
        bin_small.clone()
    } else {
        let mut v = i3.clone();
        v.extend(signed_shapes(&[4, 5, 6, 32, 33, 34, 35, 66, 67, 100], &PATTERNS, ctx.seed));
        v
    };
    // long moduli: small closed part (residue = value or m - value) + shapes around the modulus length
    let mut bin_long: Vec<BigInt> = signed(&closed_mags(&[0, 1, 1 << 63, u64::MAX], 2));
    bin_long.extend(signed_shapes(&ctx.pick(vec![3, 5, 17, 32, 33, 34, 35], vec![3, 5, 12, 17, 24, 25, 32, 33, 34, 35, 64, 65, 66, 67, 100, 101]), &ctx.pick(pats_q.clone(), PATTERNS.to_vec()), ctx.seed));
    let long_moduli: Vec<usize> = (0..mods.len()).filter(|&k| mods[k].v.bits() > 5 * 64).collect();
    let short_core: Vec<usize> = (0..mods.len()).filter(|&k| mods[k].v.bits() <= 5 * 64 && mods[k].core).collect();
    let short_extra: Vec<usize> = (0..mods.len()).filter(|&k| mods[k].v.bits() <= 5 * 64 && !mods[k].core).collect();
    // quick: core moduli x small operand set.  thorough: core moduli x (signed I3 + all shapes),
    // the additional thorough-only moduli x small operand set.
    let mut plan: Vec<(&str, &Vec<usize>, &Vec<BigInt>)> = vec![("binary.moduli<=5w", &short_core, &bin_big)];
    if !short_extra.is_empty() {
        plan.push(("binary.extra-moduli<=5w", &short_extra, &bin_small));
    }
    plan.push(("binary.moduli>5w", &long_moduli, &bin_long));
    for (name, idxs, base) in plan {
        let nb = (base.len() + NREL) as u64;
        let nmm = idxs.len() as u64;
        ctx.bound(&format!("{}:moduli", name), nmm);
        ctx.bound(&format!("{}:operands_per_modulus", name), nb);
        ctx.sweep(name, nmm * nb * nb, |i, rec| {
            let [mi, ai, bi] = unflatten(i, [nmm, nb, nb]);
            let m = &modr[idxs[mi]];
            let (a, b) = (operand(base, m, ai), operand(base, m, bi));
            binary(rec, m, &a, &b);
            rec.sample(|| format!("mod {}: a = {}, b = {}: + - * / == in all forms", m.tag, hex(&a), hex(&b)));
        });
        ctx.require_classes(name, &[
            "shift=0", "shift>0", "add:sum=m", "add:wraps", "add:no-wrap", "sub:borrows", "sub:equal", "sub:no-borrow", "mul:needs-reduction",
            "mul:small-product", "div:by-unit", "div:by-non-unit(panic)", "eq:true", "eq:false",
        ]);
    }
    ctx.require_classes("binary.moduli<=5w", &["ring:single", "ring:double", "ring:large", "modulus=1", "mul:equal-operands(square shortcut)"]);
    ctx.require_classes("binary.moduli>5w", &["ring:large", "mul:equal-operands(square shortcut)"]);

    // (C) inverse / division, closed: every non-zero I3 magnitude as modulus x every I3 magnitude
    let i3m = i3_mags();
    let i3mods: Vec<Md> = i3m.iter().filter(|v| !v.is_zero()).map(|v| md("I3", v.clone(), None)).collect();
    let (nim, nia) = (i3mods.len() as u64, i3m.len() as u64);
    let (i3modr, i3mr) = (&i3mods, &i3m);
    ctx.bound("inv.closed:moduli", nim);
    ctx.sweep("inv.closed.I3xI3", nim * nia, |i, rec| {
        let [mi, ai] = unflatten(i, [nim, nia]);
        let m = &i3modr[mi];
        let a = BigInt::from(i3mr[ai].clone());
        let cls = m.class.as_str();
        let case = || format!("m = {}; a = {}", hexu(&m.v), hex(&a));
        let case: &dyn Fn() -> String = &case;
        let ring = match ring_of(rec, m, case) {
            Some(r) => r,
            None => return,
        };
        hit_ring(rec, m);
        let ra = rmod(&a, m);
        let ua = ref_to_u(a.magnitude());
        let unit = ra.gcd(&m.v).is_one();
        rec.hit(if unit { "inv:unit" } else if ra.is_zero() { "inv:zero-residue" } else { "inv:nonzero-non-unit" });
        if m.words >= 3 {
            rec.hit(match word_len(&ra) {
                0 => "inv-large:residue-0w",
                1 => "inv-large:residue-1w(gcd_ext_word)",
                2 => "inv-large:residue-2w(gcd_ext_dword)",
                _ => "inv-large:residue-3w+(gcd_ext_in_place)",
            });
        }
        if m.v > BigUint::one() && ra > BigUint::one() {
            rec.nontrivial();
        }
        judge_inv(rec, "Reduced::inv", cls, guard(|| ring.reduce(ua.clone()).inv().map(|y| y.residue())), &ra, m, case);
        // 1 / a and (m-1) / a
        judge_div(rec, "Reduced::div(ref,ref)", cls, guard(|| (&ring.reduce(1u8) / &ring.reduce(ua.clone())).residue()), &one_mod(m), &ra, unit, m, case);
        let mm1 = &m.v - 1u32;
        judge_div(rec, "Reduced::div(val,val)", cls, guard(|| (ring.reduce(ref_to_u(&mm1)) / ring.reduce(ua.clone())).residue()), &mm1, &ra, unit, m, case);
        judge_inv(rec, "Reducer::inv", cls, guard(|| { let t = Reducer::<UBig>::transform(&ring, ua.clone()); Reducer::<UBig>::inv(&ring, t).map(|y| Reducer::<UBig>::residue(&ring, y)) }), &ra, m, case);
        rec.sample(|| format!("inv of {} modulo {}", hex(&a), hexu(&m.v)));
    });
    ctx.require_classes("inv.closed.I3xI3", &[
        "ring:single", "ring:double", "ring:large", "shift=0", "shift>0", "inv:unit", "inv:zero-residue", "inv:nonzero-non-unit",
        "inv-large:residue-1w(gcd_ext_word)", "inv-large:residue-2w(gcd_ext_dword)", "inv-large:residue-3w+(gcd_ext_in_place)",
    ]);

    // (D) pow: moduli x bases x exponent list
    let mut exps: Vec<(String, BigUint)> = vec![];
    for e in [0u64, 1, 2, 3, 4, 5, 6, 7, 8, 15, 16, 17, 31, 32, 33, 63, 64, 65, 127, 128, 255, 256, 1000, (1 << 32) - 1, 1 << 32, (1 << 32) + 1, 1 << 63, u64::MAX] {
        exps.push((e.to_string(), BigUint::from(e)));
    }
    for (t, v) in [
        ("2^64", pow2(64)), ("2^64+1", pow2(64) + 1u32), ("2^65-1", pow2(65) - 1u32), ("2^127", pow2(127)), ("2^128-1", pow2(128) - 1u32),
        ("2^128", pow2(128)), ("2^128+1", pow2(128) + 1u32), ("2w:lcgA", shape(2, "lcgA", ctx.seed)), ("3w:top1", shape(3, "top1", ctx.seed)),
        ("3w:ones", shape(3, "ones", ctx.seed)), ("3w:lcgA", shape(3, "lcgA", ctx.seed)), ("3w:alt", shape(3, "alt", ctx.seed)),
        ("3w:lcgSeed", shape(3, "lcgSeed", ctx.seed)), ("4w:lcgB", shape(4, "lcgB", ctx.seed)),
    ] {
        exps.push((t.to_string(), v));
    }
    if !quick {
        for (t, v) in [("3w:sparse", shape(3, "sparse", ctx.seed)), ("5w:ones", shape(5, "ones", ctx.seed)), ("10w:lcgA", shape(10, "lcgA", ctx.seed)), ("34w:sparse", shape(34, "sparse", ctx.seed))] {
            exps.push((t.to_string(), v));
        }
    }
    const NEREL: usize = 3; // m-1, m-2, m (Fermat / Euler style exponents tied to the modulus)
    let mut pow_bases: Vec<BigInt> = vec![];
    for v in [0i64, 1, 2, 3, -1, -7, 10, 0xFFFF_FFFF, 1 << 32] {
        pow_bases.push(BigInt::from(v));
    }
    pow_bases.push(BigInt::from(u64::MAX));
    pow_bases.push(BigInt::from(shape(1, "lcgA", ctx.seed)));
    pow_bases.push(BigInt::from(shape(2, "lcgB", ctx.seed)));
    pow_bases.push(-BigInt::from(shape(3, "lcgA", ctx.seed)));
    pow_bases.push(BigInt::from(shape(5, "lcgSeed", ctx.seed)));
    pow_bases.push(BigInt::from(shape(34, "sparse", ctx.seed)));
    const NPB_CORE: usize = 15;
    assert_eq!(pow_bases.len(), NPB_CORE);
    if !quick {
        pow_bases.extend(signed(&closed_mags(&A9, 2)));
    }
    const PBREL: [usize; 6] = [0, 3, 4, 14, 15, 13]; // m-1, m-2, m/2, factor, cofactor, 2^(bits/2)
    let (npb, nex) = ((pow_bases.len() + PBREL.len()) as u64, (exps.len() + NEREL) as u64);
    ctx.bound("pow.grid:bases_per_modulus", npb);
    ctx.bound("pow.grid:exponents", nex);
    ctx.bound("pow.grid:max_exponent_words", ctx.pick(4u64, 34u64));
    let (pbr, exr) = (&pow_bases, &exps);
    ctx.sweep("pow.grid", nm * npb * nex, |i, rec| {
        let [mi, bi, ei] = unflatten(i, [nm, npb, nex]);
        let m = &modr[mi];
        if m.words > 5 && bi >= NPB_CORE && bi < pbr.len() {
            // the closed I2 block of bases is only used with moduli of <= 5 words
            rec.hit("pruned:I2-bases-x-long-modulus");
            return;
        }
        let a = if bi < pbr.len() { pbr[bi].clone() } else { rel(m, PBREL[bi - pbr.len()]) };
        let (etag, e) = if ei < exr.len() {
            (exr[ei].0.clone(), exr[ei].1.clone())
        } else {
            match ei - exr.len() {
                0 => ("m-1".to_string(), &m.v - 1u32),
                1 => ("m-2 (or 0)".to_string(), if m.v > BigUint::one() { &m.v - 2u32 } else { BigUint::zero() }),
                _ => ("m".to_string(), m.v.clone()),
            }
        };
        // second reference only where it is cheap
        pow_case(rec, m, &a, &e, &etag, m.v.bits() <= 128 && e.bits() <= 256);
        rec.sample(|| format!("mod {}: ({}) ^ {}", m.tag, hex(&a), etag));
    });
    ctx.require_classes("pow.grid", &["ring:single", "ring:double", "ring:large", "shift=0", "shift>0", "modulus=1", "e=0", "e=1", "e=2", "e:word", "e:dword", "e:large"]);

    // (E) pow: exponent bit length x bit pattern, across the sliding-window size switches of the
    // multi-word ring (window grows at exponent lengths of about 7, 25, 81, 241, 673, 1793 bits)
    let mut elens: Vec<u64> = vec![];
    elens.extend(2..=12);
    elens.extend(22..=28);
    elens.extend(62..=67);
    elens.extend(76..=86);
    elens.extend(126..=130);
    elens.extend(236..=246);
    if !quick {
        elens.extend(190..=194);
        elens.extend(660..=685);
        elens.extend(1785..=1800);
        elens.extend(4600..=4615);
    }
    let epats = ["ones", "top1", "top1p1", "alt", "lcg", "lcgSeed", "low-window-only"];
    let wmods: Vec<usize> = (0..mods.len())
        .filter(|&k| {
            let t = mods[k].tag.as_str();
            ["2^32-5(prime)", "2^64-59(prime)", "2^128-159(prime)", "3w:lcgA,odd", "3w:lcgA>>7,even", "4w:P2*Q2", "33w:lcgA,odd"].contains(&t)
        })
        .collect();
    let wbases: Vec<BigInt> = vec![BigInt::from(3), BigInt::from(shape(2, "lcgA", ctx.seed)), -BigInt::from(shape(4, "lcgB", ctx.seed))];
    let (nwm, nwb, nel, nep) = (wmods.len() as u64, wbases.len() as u64, elens.len() as u64, epats.len() as u64);
    ctx.bound("pow.window:exponent_bit_lengths", serde_json::json!(elens));
    let seed = ctx.seed;
    let (wmr, wbr, elr) = (&wmods, &wbases, &elens);
    ctx.sweep("pow.window", nwm * nwb * nel * nep, |i, rec| {
        let [mi, bi, li, pi] = unflatten(i, [nwm, nwb, nel, nep]);
        let m = &modr[wmr[mi]];
        let bits = elr[li];
        if m.words > 24 && bits > 700 {
            rec.hit("pruned:long-modulus-x-long-exponent");
            return;
        }
        let top = pow2(bits - 1);
        let e: BigUint = match epats[pi] {
            "ones" => pow2(bits) - 1u32,
            "top1" => top.clone(),
            "top1p1" => &top + 1u32,
            "alt" => (shape((bits as usize + 63) / 64 + 1, "alt", seed) % &top) | &top,
            "lcg" => (shape((bits as usize + 63) / 64 + 1, "lcgB", seed) % &top) | &top,
            "lcgSeed" => (shape((bits as usize + 63) / 64 + 1, "lcgSeed", seed) % &top) | &top,
            _ => &top | BigUint::from(0b1011_0111u32), // a long run of zero bits, then a busy low end
        };
        rec.hit(match bits {
            0..=6 => "ebits<=6",
            7..=24 => "ebits7-24",
            25..=80 => "ebits25-80",
            81..=240 => "ebits81-240",
            241..=672 => "ebits241-672",
            673..=1792 => "ebits673-1792",
            _ => "ebits>1792",
        });
        pow_case(rec, m, &wbr[bi], &e, &format!("{}bits:{}", bits, epats[pi]), true);
        rec.sample(|| format!("mod {}: ({}) ^ ({} bits, {})", m.tag, hex(&wbr[bi]), bits, epats[pi]));
    });
    ctx.require_classes("pow.window", &["ring:single", "ring:double", "ring:large", "ebits<=6", "ebits7-24", "ebits25-80", "ebits81-240", "ebits241-672"]);
    if !quick {
        ctx.require_classes("pow.window", &["ebits673-1792", "ebits>1792"]);
    }

    // (F) mixing elements of two ConstDivisor instances panics (also with equal moduli)
    let mix_mods: Vec<BigUint> = vec![BigUint::from(7u32), pow2(63) + 1u32, pow2(64) + 13u32, pow2(128) - 159u32, odd(shape(3, "lcgA", ctx.seed)), odd(shape(4, "lcgA", ctx.seed) >> 11u32), shape(33, "ones", ctx.seed)];
    let mix_vals: [u64; 3] = [0, 1, 5];
    const NOPS: u64 = 27;
    let nmx = mix_mods.len() as u64;
    let mxr = &mix_mods;
    ctx.sweep("mixing.rings", nmx * nmx * 3 * 3 * NOPS, |i, rec| {
        let [m1, m2, v1, v2, op] = unflatten(i, [nmx, nmx, 3, 3, NOPS]);
        let (r1, r2) = (ConstDivisor::new(ref_to_u(&mxr[m1])), ConstDivisor::new(ref_to_u(&mxr[m2])));
        let (x, y) = (r1.reduce(mix_vals[v1]), r2.reduce(mix_vals[v2]));
        rec.hit(if m1 == m2 { "mix:equal-moduli-distinct-instances" } else if word_len(&mxr[m1]).min(3) == word_len(&mxr[m2]).min(3) { "mix:same-kind-different-moduli" } else { "mix:different-kinds" });
        let case = || format!("x = {} (mod {}) from instance 1; y = {} (mod {}) from instance 2; form #{}", mix_vals[v1], hexu(&mxr[m1]), mix_vals[v2], hexu(&mxr[m2]), op);
        let (site, got): (&str, Result<UBig, String>) = match op {
            0 => ("Reduced::add(ref,ref)", guard(|| (&x + &y).residue())),
            1 => ("Reduced::add(val,val)", guard(|| (x.clone() + y.clone()).residue())),
            2 => ("Reduced::add(val,ref)", guard(|| (x.clone() + &y).residue())),
            3 => ("Reduced::add(ref,val)", guard(|| (&x + y.clone()).residue())),
            4 => ("Reduced::add_assign(ref)", guard(|| { let mut t = x.clone(); t += &y; t.residue() })),
            5 => ("Reduced::add_assign(val)", guard(|| { let mut t = x.clone(); t += y.clone(); t.residue() })),
            6 => ("Reduced::sub(ref,ref)", guard(|| (&x - &y).residue())),
            7 => ("Reduced::sub(val,val)", guard(|| (x.clone() - y.clone()).residue())),
            8 => ("Reduced::sub(val,ref)", guard(|| (x.clone() - &y).residue())),
            9 => ("Reduced::sub(ref,val)", guard(|| (&x - y.clone()).residue())),
            10 => ("Reduced::sub_assign(ref)", guard(|| { let mut t = x.clone(); t -= &y; t.residue() })),
            11 => ("Reduced::sub_assign(val)", guard(|| { let mut t = x.clone(); t -= y.clone(); t.residue() })),
            12 => ("Reduced::mul(ref,ref)", guard(|| (&x * &y).residue())),
            13 => ("Reduced::mul(val,val)", guard(|| (x.clone() * y.clone()).residue())),
            14 => ("Reduced::mul(val,ref)", guard(|| (x.clone() * &y).residue())),
            15 => ("Reduced::mul(ref,val)", guard(|| (&x * y.clone()).residue())),
            16 => ("Reduced::mul_assign(ref)", guard(|| { let mut t = x.clone(); t *= &y; t.residue() })),
            17 => ("Reduced::mul_assign(val)", guard(|| { let mut t = x.clone(); t *= y.clone(); t.residue() })),
            18 => ("Reduced::div(ref,ref)", guard(|| (&x / &y).residue())),
            19 => ("Reduced::div(val,val)", guard(|| (x.clone() / y.clone()).residue())),
            20 => ("Reduced::div(val,ref)", guard(|| (x.clone() / &y).residue())),
            21 => ("Reduced::div(ref,val)", guard(|| (&x / y.clone()).residue())),
            22 => ("Reduced::div_assign(ref)", guard(|| { let mut t = x.clone(); t /= &y; t.residue() })),
            23 => ("Reduced::div_assign(val)", guard(|| { let mut t = x.clone(); t /= y.clone(); t.residue() })),
            24 => ("Reduced::eq", guard(|| UBig::from((x == y) as u8))),
            25 => ("Reduced::ne", guard(|| UBig::from((x != y) as u8))),
            _ => {
                // control: the same expression inside one instance must NOT panic
                let z = r1.reduce(mix_vals[v2]);
                let want = (BigUint::from(mix_vals[v1]) + BigUint::from(mix_vals[v2])) % &mxr[m1];
                rec.hit("mix:control-same-instance-no-panic");
                expect_u(rec, P, "Reduced::add(ref,ref)", "same-instance-control", guard(|| (&x + &z).residue()), &want, case);
                return;
            }
        };
        rec.nontrivial();
        let kinds = format!("{}x{}", ["", "single", "double", "large"][word_len(&mxr[m1]).min(3)], ["", "single", "double", "large"][word_len(&mxr[m2]).min(3)]);
        if expect_panic(rec, P, site, &format!("different rings,{}", kinds), got.clone(), case) {
            // the documented message
            if let Err(p) = &got {
                rec.hit(if p.contains("different rings") { "mix:panic-message=different-rings" } else if p.contains("non-invertible") { "mix:panic-message=non-invertible(division by 0 of the other ring)" } else { "mix:panic-message=other" });
            }
        }
        rec.sample(case);
    });
    ctx.require_classes("mixing.rings", &["mix:equal-moduli-distinct-instances", "mix:same-kind-different-moduli", "mix:different-kinds", "mix:control-same-instance-no-panic", "mix:panic-message=different-rings"]);

    // (G) Reducer::check separates valid from invalid forms; Reducer::new builds the same ring
    const NCK: u64 = 10;
    ctx.sweep("reducer.check", nm * NCK, |i, rec| {
        let [mi, k] = unflatten(i, [nm, NCK]);
        let m = &modr[mi];
        let cls = m.class.as_str();
        let s = m.shift;
        let nrm = &m.v << s; // normalised modulus
        let (x, kind): (BigUint, &str) = match k {
            0 => (BigUint::zero(), "valid:0"),
            1 => ((&m.v - 1u32) << s, "valid:(m-1)<<shift"),
            2 => ((&m.v / 2u32) << s, "valid:(m/2)<<shift"),
            3 => (nrm.clone(), "invalid:equals-normalised-modulus"),
            4 => (&nrm + (BigUint::one() << s), "invalid:normalised-modulus+1unit"),
            5 => ((&nrm << 1) - (BigUint::one() << s), "invalid:2m-1"),
            6 => (&nrm << 64, "invalid:one-word-longer"),
            7 => (BigUint::one(), "low-bits:1"),
            8 => (((&m.v - 1u32) << s) | BigUint::one(), "low-bits:((m-1)<<shift)|1"),
            _ => (pow2(s as u64) - 1u32, "low-bits:2^shift-1"),
        };
        let valid = (&x >> s) < m.v && ((&x >> s) << s) == x;
        if k >= 7 && s == 0 {
            rec.hit("skipped:no-shift-no-low-bits");
            return;
        }
        let case = || format!("m = {} = {} (shift {}); candidate form {} = {}", m.tag, hexu(&m.v), s, kind, hexu(&x));
        let case: &dyn Fn() -> String = &case;
        let ring = match guard(|| <ConstDivisor as Reducer<UBig>>::new(&ref_to_u(&m.v))) {
            Ok(r) => r,
            Err(p) => {
                rec.fail(format!("{}|Reducer::new|panic|{}", P, cls), case(), p, "a ring");
                return;
            }
        };
        hit_ring(rec, m);
        expect_u(rec, P, "Reducer::new+modulus", cls, guard(|| Reducer::<UBig>::modulus(&ring)), &m.v, case);
        // the premise of this oracle: transform(r) = r << shift
        if valid {
            let r = &x >> s;
            rec.step();
            match guard(|| Reducer::<UBig>::transform(&ring, ref_to_u(&r))) {
                Ok(t) if u_to_ref(&t) == x => {}
                Ok(t) => {
                    rec.fail(format!("{}|Reducer::transform|unexpected-form|{}", P, cls), case(), hexu(&u_to_ref(&t)), "r << shift (documented normalisation); the check oracle is not applicable otherwise");
                    return;
                }
                Err(p) => {
                    rec.fail(format!("{}|Reducer::transform|panic|{}", P, cls), case(), p, "r << shift");
                    return;
                }
            }
        }
        rec.hit(if valid { "check:valid-form" } else { kind });
        rec.nontrivial();
        let ux = ref_to_u(&x);
        rec.step();
        match guard(|| Reducer::<UBig>::check(&ring, &ux)) {
            Ok(g) if g == valid => {}
            Ok(g) => rec.fail(format!("{}|Reducer::check|wrong-value|{},{}", P, cls, kind), case(), format!("{}", g), format!("{}", valid)),
            Err(p) => rec.fail(format!("{}|Reducer::check|panic|{}", P, cls), case(), p, format!("{}", valid)),
        }
        rec.sample(|| format!("mod {}: check({})", m.tag, kind));
    });
    ctx.require_classes("reducer.check", &["check:valid-form", "invalid:equals-normalised-modulus", "invalid:normalised-modulus+1unit", "invalid:one-word-longer", "low-bits:1"]);
}
